package main

import "fmt"

func instrumentPkg(repo string, is instrSpec, outDir string) error {
	return fmt.Errorf("instr not built yet")
}

func instrMain(args []string) {}
