module veriftools/vcheck

go 1.23
