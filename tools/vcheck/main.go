// vcheck is the driver behind bin/check: it regenerates the overlay (and the
// instrumented copies) from the current working tree of the repository,
// builds the harness of one property with -tags verif, runs its shards in
// parallel, merges their reports, applies KNOWN_FINDINGS.txt and writes the
// evidence and replay files.
//
// exit 0: property held on everything explored (KNOWN-FINDING lines possible)
// exit 1: VIOLATION line(s) printed
// exit 2: the machinery could not decide (build failure, nondeterminism, ...)
package main

import (
	"bufio"
	"bytes"
	"crypto/sha256"
	"encoding/hex"
	"encoding/json"
	"fmt"
	"os"
	"os/exec"
	"path/filepath"
	"runtime"
	"sort"
	"strconv"
	"strings"
	"sync"
	"time"
)

var verifDir = "/verif"
var repoDir = "/repo"

const modPath = "gitlab.com/yawning/obfs4.git"

type instrSpec struct {
	Pkg        string   `json:"pkg"`         // directory relative to the repo root
	Files      []string `json:"files"`       // file names inside pkg
	StmtPoints []string `json:"stmt_points"` // functions getting a scheduling point before every statement
	Time       bool     `json:"time"`        // rewrite time.* to vtime.*
	Sync       bool     `json:"sync"`        // rewrite sync.* to vsync.*
	Chans      bool     `json:"chans"`       // rewrite go/chan/select
}

type inpkgSpec struct {
	Pkg string `json:"pkg"` // directory relative to the repo root
	Dir string `json:"dir"` // directory relative to the check dir holding zz_verif_*.go files
}

type checkCfg struct {
	Property      string            `json:"property"`
	Main          string            `json:"main"` // package dir name under internal/zzverif
	Level         string            `json:"level"`
	Instrument    []instrSpec       `json:"instrument"`
	InPkg         []inpkgSpec       `json:"inpkg"`
	Engines       []string          `json:"engines"` // engine packages to inject (default: all)
	BudgetQuick   string            `json:"budget_quick"`
	BudgetThor    string            `json:"budget_thorough"`
	Shards        int               `json:"shards"`
	Rule          string            `json:"rule"`
	Assumptions   []string          `json:"assumptions"`
	BuildPkg      string            `json:"build_pkg"` // build this repo package (its in-package harness has an init hook) instead of internal/zzverif/<main>
	TestPkg       string            `json:"test_pkg"`  // build with `go test -c` in this repo package instead of a main package
	Race          []raceCfg         `json:"race"`
	Env           map[string]string `json:"env"`
	GoMaxProcs    int               `json:"gomaxprocs"`
	ExtraHarness  []string          `json:"extra_harness"` // further check dirs whose files are also injected (shared helpers)
	PreCmd        []string          `json:"pre_cmd"`
	MemLimitMB    int               `json:"mem_limit_mb"`
	QuickArgs     []string          `json:"quick_args"`
	ThoroughArgs  []string          `json:"thorough_args"`
	NotExhaustive string            `json:"not_exhaustive_note"`
}

// raceCfg is one free-running `go test -race` body set: the *_test.go files of
// checks/<id>/<dir> are overlaid into the repo package pkg (uninstrumented:
// real goroutines, real sync, real time, loopback sockets).  Supplementary to
// the exhaustive exploration: the cooperative scheduler's hand-offs are
// happens-before edges, so unsynchronised accesses are invisible to it.
type raceCfg struct {
	Pkg        string `json:"pkg"`
	Dir        string `json:"dir"`
	Run        string `json:"run"` // -test.run expression (default VerifRace)
	ItersQuick int    `json:"iters_quick"`
	ItersThor  int    `json:"iters_thorough"`
	Timeout    string `json:"timeout"`
}

func die(code int, format string, a ...any) {
	fmt.Fprintf(os.Stderr, "vcheck: "+format+"\n", a...)
	os.Exit(code)
}

func goEnv() []string {
	env := os.Environ()
	env = append(env, "GOFLAGS=-mod=mod", "GOPROXY=off", "GOSUMDB=off", "GOTOOLCHAIN=local", "CGO_ENABLED=1")
	return env
}

func main() {
	if v := os.Getenv("VERIF_DIR"); v != "" {
		verifDir = v
	}
	if v := os.Getenv("VERIF_REPO"); v != "" {
		repoDir = v
	}
	args := os.Args[1:]
	if len(args) >= 1 && args[0] == "instr" {
		instrMain(args[1:])
		return
	}
	if len(args) < 1 {
		die(2, "usage: vcheck <ID> [quick|thorough] [--replay file] [--only substr] [--keep]")
	}
	id := strings.ToUpper(args[0])
	tier := os.Getenv("VERIF_TIER")
	replay, only := "", ""
	verbose := false
	buildOnly := false
	for i := 1; i < len(args); i++ {
		switch args[i] {
		case "quick", "thorough":
			tier = args[i]
		case "--replay":
			i++
			replay = args[i]
		case "--only":
			i++
			only = args[i]
		case "-v":
			verbose = true
		case "--build-only":
			buildOnly = true
		default:
			die(2, "unknown argument %q", args[i])
		}
	}
	if tier == "" {
		tier = "quick"
	}
	seed := int64(1)
	if s := os.Getenv("VERIF_SEED"); s != "" {
		if v, err := strconv.ParseInt(s, 10, 64); err == nil {
			seed = v
		}
	}
	t0 := time.Now()
	checkDir := filepath.Join(verifDir, "checks", strings.ToLower(id))
	var cfg checkCfg
	b, err := os.ReadFile(filepath.Join(checkDir, "check.json"))
	if err != nil {
		die(2, "%v", err)
	}
	if err := json.Unmarshal(b, &cfg); err != nil {
		die(2, "check.json: %v", err)
	}
	if cfg.Property == "" {
		cfg.Property = id
	}
	work := filepath.Join(verifDir, ".work", strings.ToLower(id))
	os.RemoveAll(work)
	if err := os.MkdirAll(work, 0o755); err != nil {
		die(2, "%v", err)
	}

	// 1. overlay
	ov := map[string]string{}
	addDir := func(srcDir, dstDir string) {
		ents, err := os.ReadDir(srcDir)
		if err != nil {
			die(2, "%v", err)
		}
		for _, e := range ents {
			if e.IsDir() || !strings.HasSuffix(e.Name(), ".go") {
				continue
			}
			ov[filepath.Join(dstDir, e.Name())] = filepath.Join(srcDir, e.Name())
		}
	}
	engRoot := filepath.Join(verifDir, "engine")
	filepath.WalkDir(engRoot, func(p string, d os.DirEntry, err error) error {
		if err == nil && d.IsDir() {
			rel, _ := filepath.Rel(engRoot, p)
			if rel != "." {
				addDir(p, filepath.Join(repoDir, "internal/zzverif", rel))
			}
		}
		return nil
	})
	if cfg.TestPkg == "" && cfg.BuildPkg == "" {
		addDir(checkDir, filepath.Join(repoDir, "internal/zzverif", cfg.Main))
	}
	for _, x := range cfg.ExtraHarness {
		addDir(filepath.Join(verifDir, "checks", x), filepath.Join(repoDir, "internal/zzverif", x))
	}
	for _, ip := range cfg.InPkg {
		addDir(filepath.Join(checkDir, ip.Dir), filepath.Join(repoDir, ip.Pkg))
	}
	for _, is := range cfg.Instrument {
		outDir := filepath.Join(work, "instr", is.Pkg)
		os.MkdirAll(outDir, 0o755)
		if err := instrumentPkg(repoDir, is, outDir); err != nil {
			fmt.Fprintf(os.Stderr, "vcheck: instrumentation of %s failed (machinery, not a violation): %v\n", is.Pkg, err)
			os.Exit(2)
		}
		for _, f := range is.Files {
			ov[filepath.Join(repoDir, is.Pkg, f)] = filepath.Join(outDir, f)
		}
	}
	ovb, _ := json.MarshalIndent(map[string]any{"Replace": ov}, "", " ")
	ovPath := filepath.Join(work, "overlay.json")
	os.WriteFile(ovPath, ovb, 0o644)

	// 2. build
	bin := filepath.Join(work, "harness")
	var cmd *exec.Cmd
	if cfg.TestPkg != "" {
		cmd = exec.Command("go", "test", "-c", "-vet=off", "-overlay", ovPath, "-tags", "verif", "-o", bin, "./"+cfg.TestPkg)
	} else if cfg.BuildPkg != "" {
		cmd = exec.Command("go", "build", "-overlay", ovPath, "-tags", "verif", "-o", bin, cfg.BuildPkg)
	} else {
		cmd = exec.Command("go", "build", "-overlay", ovPath, "-tags", "verif", "-o", bin, "./internal/zzverif/"+cfg.Main)
	}
	cmd.Dir = repoDir
	cmd.Env = goEnv()
	out, err := cmd.CombinedOutput()
	if err != nil {
		// An in-package accessor that calls private code directly may stop
		// compiling when that code is renamed or reshaped.  Every such file has
		// a "<file>.stub" next to it with the same API reporting "unavailable":
		// swap in the stubs of the files the compiler complains about and build
		// once more (the harness then decides with its black-box oracles).
		swapped := 0
		for dst, src := range ov {
			if !strings.Contains(string(out), dst) && !strings.Contains(string(out), src) {
				continue
			}
			if _, e := os.Stat(src + ".stub"); e == nil {
				ov[dst] = src + ".stub"
				swapped++
				fmt.Fprintf(os.Stderr, "vcheck: %s no longer compiles against the tree; using its stub (state-based oracles of this accessor are skipped)\n", filepath.Base(src))
			}
		}
		if swapped > 0 {
			ovb, _ := json.MarshalIndent(map[string]any{"Replace": ov}, "", " ")
			os.WriteFile(ovPath, ovb, 0o644)
			cmd2 := exec.Command(cmd.Args[0], cmd.Args[1:]...)
			cmd2.Dir = repoDir
			cmd2.Env = goEnv()
			out, err = cmd2.CombinedOutput()
		}
	}
	if err != nil {
		fmt.Fprintf(os.Stderr, "vcheck: harness build failed (machinery, not a violation):\n%s\n", out)
		os.Exit(2)
	}
	if buildOnly {
		fmt.Println(bin)
		return
	}

	budget := cfg.BudgetQuick
	extra := cfg.QuickArgs
	if tier == "thorough" {
		budget = cfg.BudgetThor
		extra = cfg.ThoroughArgs
	}
	if v := os.Getenv("VERIF_BUDGET"); v != "" {
		budget = v
	}
	common := []string{"-tier", tier, "-seed", strconv.FormatInt(seed, 10)}
	if budget != "" {
		common = append(common, "-budget", budget)
	}
	common = append(common, extra...)
	runEnv := append(os.Environ(), "VERIF_WORK="+work, "VERIF_DIR="+verifDir, "VERIF_REPO="+repoDir)
	gmp := cfg.GoMaxProcs
	if gmp == 0 {
		gmp = 1
	}
	runEnv = append(runEnv, "GOMAXPROCS="+strconv.Itoa(gmp))
	for k, v := range cfg.Env {
		runEnv = append(runEnv, k+"="+v)
	}

	if replay != "" {
		c := exec.Command(bin, append(common, "-replay", replay)...)
		c.Env = runEnv
		c.Stdout, c.Stderr = os.Stdout, os.Stderr
		err := c.Run()
		if ee, ok := err.(*exec.ExitError); ok {
			os.Exit(ee.ExitCode())
		} else if err != nil {
			die(2, "%v", err)
		}
		return
	}

	// 3. shards
	n := cfg.Shards
	if n <= 0 {
		n = runtime.NumCPU()
	}
	if v := os.Getenv("VERIF_SHARDS"); v != "" {
		n, _ = strconv.Atoi(v)
	}
	type res struct {
		st   map[string]any
		raw  []byte
		code int
		err  string
	}
	results := make([]res, n)
	var wg sync.WaitGroup
	for i := 0; i < n; i++ {
		wg.Add(1)
		go func(i int) {
			defer wg.Done()
			outf := filepath.Join(work, fmt.Sprintf("shard%d.json", i))
			a := append(append([]string{}, common...), "-shard", strconv.Itoa(i), "-nshards", strconv.Itoa(n), "-out", outf)
			if only != "" {
				a = append(a, "-only", only)
			}
			if verbose {
				a = append(a, "-v")
			}
			var c *exec.Cmd
			if cfg.MemLimitMB > 0 {
				c = exec.Command("bash", "-c", fmt.Sprintf("ulimit -v %d; exec \"$0\" \"$@\"", cfg.MemLimitMB*1024), bin)
				c.Args = append(c.Args, a...)
			} else {
				c = exec.Command(bin, a...)
			}
			c.Env = runEnv
			var eb bytes.Buffer
			c.Stderr = &eb
			c.Stdout = &eb
			err := c.Run()
			// a shard that could not be started at all (process or memory limits
			// of a busy machine) is started again, a few times, before it counts
			// as a machinery failure
			for attempt := 0; attempt < 3 && err != nil; attempt++ {
				if _, ok := err.(*exec.ExitError); ok {
					break
				}
				time.Sleep(time.Duration(2+attempt*3) * time.Second)
				c2 := exec.Command(c.Args[0], c.Args[1:]...)
				c2.Env = runEnv
				eb.Reset()
				c2.Stderr, c2.Stdout = &eb, &eb
				err = c2.Run()
			}
			r := res{}
			if ee, ok := err.(*exec.ExitError); ok {
				r.code = ee.ExitCode()
			} else if err != nil {
				r.code = 3
				eb.WriteString("vcheck: shard could not be run: " + err.Error() + "\n")
			}
			r.err = eb.String()
			if verbose && r.err != "" {
				fmt.Fprint(os.Stderr, r.err)
			}
			if raw, e := os.ReadFile(outf); e == nil {
				r.raw = raw
				json.Unmarshal(raw, &r.st)
			}
			results[i] = r
		}(i)
	}
	wg.Wait()

	// 4. merge
	machinery := false
	aborted := false // a shard stopped at a non-terminating execution (reported as a violation)
	var tot struct {
		scen, execs, cps, states, trans, distinct, distinctNT, selfchk int64
		restarts, diverged                                             int64
		maxDepth                                                       int
		boundCompleted, boundMax                                       int
		exhaustive                                                     bool
	}
	tot.exhaustive = true
	tot.boundCompleted = 1 << 30
	counters := map[string]int64{}
	var samples []any
	var viols []map[string]any
	var incomplete []string
	for i, r := range results {
		if r.code != 0 && r.code != 1 || r.st == nil {
			machinery = true
			fmt.Fprintf(os.Stderr, "vcheck: shard %d exit %d (machinery):\n%s\n", i, r.code, tail(r.err, 6000))
			continue
		}
		if r.code == 1 && !verbose && r.err != "" {
			fmt.Fprint(os.Stderr, tail(r.err, 2000))
		}
		g := func(k string) int64 {
			f, _ := r.st[k].(float64)
			return int64(f)
		}
		if g("scenarios") == 0 {
			continue
		}
		tot.scen += g("scenarios")
		tot.execs += g("executions")
		tot.cps += g("choice_points")
		tot.states += g("states")
		tot.trans += g("transitions")
		tot.distinct += g("distinct")
		tot.distinctNT += g("distinct_nontrivial")
		tot.selfchk += g("determinism_selfchecks")
		tot.restarts += g("restarts_after_warm_up")
		tot.diverged += g("diverged_executions")
		if int(g("max_depth")) > tot.maxDepth {
			tot.maxDepth = int(g("max_depth"))
		}
		if g("bound_max") > 0 && int(g("bound_completed")) < tot.boundCompleted {
			tot.boundCompleted = int(g("bound_completed"))
		}
		if int(g("bound_max")) > tot.boundMax {
			tot.boundMax = int(g("bound_max"))
		}
		if ex, _ := r.st["exhaustive"].(bool); !ex {
			tot.exhaustive = false
		}
		if ab, _ := r.st["aborted"].(bool); ab {
			aborted = true
		}
		if cm, ok := r.st["counters"].(map[string]any); ok {
			for k, v := range cm {
				f, _ := v.(float64)
				if strings.HasPrefix(k, "max_") {
					if int64(f) > counters[k] {
						counters[k] = int64(f)
					}
				} else if strings.HasPrefix(k, "min_") {
					if cur, ok := counters[k]; !ok || int64(f) < cur {
						counters[k] = int64(f)
					}
				} else {
					counters[k] += int64(f)
				}
			}
		}
		if sm, ok := r.st["samples"].([]any); ok && len(samples) < 6 {
			for _, s := range sm {
				if len(samples) < 6 {
					samples = append(samples, s)
				}
			}
		}
		if vs, ok := r.st["violations"].([]any); ok {
			for _, v := range vs {
				viols = append(viols, v.(map[string]any))
			}
		}
		if inc, ok := r.st["incomplete"].([]any); ok {
			for _, s := range inc {
				incomplete = append(incomplete, fmt.Sprint(s))
			}
		}
	}
	if tot.boundCompleted == 1<<30 {
		tot.boundCompleted = 0
	}
	if machinery {
		fmt.Fprintln(os.Stderr, "vcheck: machinery failure; no verdict")
		os.Exit(2)
	}
	// every scenario must have been run by exactly one shard
	if only == "" && !aborted {
		lc := exec.Command(bin, append(append([]string{}, common...), "-list")...)
		lc.Env = runEnv
		if lo, err := lc.Output(); err == nil {
			want := int64(len(strings.Split(strings.TrimSpace(string(lo)), "\n")))
			if strings.TrimSpace(string(lo)) == "" {
				want = 0
			}
			if want != tot.scen {
				fmt.Fprintf(os.Stderr, "vcheck: %d scenarios are defined but the shards ran %d (sharding inconsistency); no verdict\n", want, tot.scen)
				os.Exit(2)
			}
		}
	}

	// 4b. free-running race pass (supplementary; only for whole runs)
	var raceInfo map[string]any
	if len(cfg.Race) > 0 && only == "" && os.Getenv("VERIF_NO_RACE") == "" {
		rv, info := racePass(cfg, checkDir, work, tier, ov)
		raceInfo = info
		viols = append(viols, rv...)
	}

	// 5. known findings
	known, fixed := loadKnown(cfg.Property)
	exit := 0
	sort.SliceStable(viols, func(i, j int) bool {
		ci, _ := viols[i]["choices"].([]any)
		cj, _ := viols[j]["choices"].([]any)
		return len(ci) < len(cj)
	})
	seenKey := map[string]bool{}
	nViol := 0
	os.MkdirAll(filepath.Join(verifDir, "replays", cfg.Property), 0o755)
	for _, v := range viols {
		f := v["failure"].(map[string]any)
		key := fmt.Sprint(f["key"])
		if nd, _ := v["harness_nondeterminism"].(bool); nd {
			fmt.Fprintf(os.Stderr, "vcheck: failure %s did not reproduce 5/5 (%v): harness nondeterminism, no verdict\n", key, v["reproduced_of_5"])
			os.Exit(2)
		}
		if seenKey[key] {
			continue
		}
		seenKey[key] = true
		vb, _ := json.MarshalIndent(v, "", " ")
		h := sha256.Sum256([]byte(key))
		rp := filepath.Join(verifDir, "replays", cfg.Property, hex.EncodeToString(h[:6])+".json")
		os.WriteFile(rp, vb, 0o644)
		if txt, ok := known[key]; ok {
			fmt.Printf("KNOWN-FINDING: property=%s key=%s %s (replay=%s)\n", cfg.Property, key, txt, rp)
			continue
		}
		_ = fixed
		nViol++
		exit = 1
		fmt.Printf("VIOLATION property=%s replay=%s\n", cfg.Property, rp)
		fmt.Printf("  key=%s scenario=%v\n  %s\n", key, v["scenario"], firstLines(fmt.Sprint(f["msg"]), 12))
	}

	// 6. evidence
	rule := cfg.Rule
	if rule == "" {
		rule = "executions are enumerated by deviation-bounded DFS over harness choice points; distinct = distinct (scenario, observation-log) fingerprints; non-trivial = the execution produced at least one oracle observation and was not marked trivial by the harness"
	}
	if tot.states < 1 {
		tot.states = 1
	}
	if tot.trans < 1 {
		tot.trans = 1
	}
	cov := map[string]any{
		"evaluations":                   tot.execs,
		"distinct_nontrivial":           tot.distinctNT,
		"distinct_outcomes":             tot.distinct,
		"rule":                          rule,
		"samples":                       samples,
		"states":                        tot.states,
		"transitions":                   tot.trans,
		"traces_validated_against_impl": tot.execs,
		"scenarios":                     tot.scen,
		"choice_points":                 tot.cps,
		"max_depth":                     tot.maxDepth,
		"deviation_bound_completed":     tot.boundCompleted,
		"deviation_bound_max":           tot.boundMax,
		"exhaustive":                    tot.exhaustive,
		"counters":                      counters,
		"determinism_selfchecks":        tot.selfchk,
		"restarts_after_warm_up":        tot.restarts,
		"diverged_executions":           tot.diverged,
		"shards":                        n,
		"explanation":                   "stateless exploration of the real implementation: every explored trace is an implementation trace",
	}
	if raceInfo != nil {
		cov["race_pass"] = raceInfo
	}
	if len(incomplete) > 0 {
		if len(incomplete) > 20 {
			incomplete = append(incomplete[:20], fmt.Sprintf("... and %d more", len(incomplete)-20))
		}
		cov["incomplete"] = incomplete
	}
	if cfg.NotExhaustive != "" {
		cov["exhaustive_note"] = cfg.NotExhaustive
	}
	ev := map[string]any{
		"property_id": cfg.Property,
		"tier":        tier,
		"seed":        seed,
		"level":       cfg.Level,
		"coverage":    cov,
		"assumptions": cfg.Assumptions,
		"wall_s":      time.Since(t0).Seconds(),
		"violations":  nViol,
	}
	evb, _ := json.MarshalIndent(ev, "", " ")
	os.MkdirAll(filepath.Join(verifDir, "evidence"), 0o755)
	if err := os.WriteFile(filepath.Join(verifDir, "evidence", cfg.Property+".json"), evb, 0o644); err != nil {
		die(2, "%v", err)
	}
	fmt.Printf("%s %s: scenarios=%d executions=%d states=%d transitions=%d distinct=%d nontrivial=%d bound=%d/%d exhaustive=%v violations=%d wall=%.1fs\n",
		cfg.Property, tier, tot.scen, tot.execs, tot.states, tot.trans, tot.distinct, tot.distinctNT, tot.boundCompleted, tot.boundMax, tot.exhaustive, nViol, time.Since(t0).Seconds())
	if len(counters) > 0 {
		keys := make([]string, 0, len(counters))
		for k := range counters {
			keys = append(keys, k)
		}
		sort.Strings(keys)
		var sb strings.Builder
		for _, k := range keys {
			fmt.Fprintf(&sb, " %s=%d", k, counters[k])
		}
		fmt.Println("  counters:" + sb.String())
	}
	os.Exit(exit)
}

func tail(s string, n int) string {
	if len(s) > n {
		return "..." + s[len(s)-n:]
	}
	return s
}

func firstLines(s string, n int) string {
	l := strings.Split(s, "\n")
	if len(l) > n {
		l = l[:n]
	}
	return strings.Join(l, "\n  ")
}

// loadKnown parses KNOWN_FINDINGS.txt:
//
//	known: property=<ID> key=<key> <text>
//	fixed: property=<ID> <commit> <text>
func loadKnown(prop string) (known map[string]string, fixed []string) {
	known = map[string]string{}
	f, err := os.Open(filepath.Join(verifDir, "KNOWN_FINDINGS.txt"))
	if err != nil {
		return
	}
	defer f.Close()
	sc := bufio.NewScanner(f)
	for sc.Scan() {
		l := strings.TrimSpace(sc.Text())
		if strings.HasPrefix(l, "known:") {
			fs := strings.Fields(l)
			if len(fs) >= 3 && fs[1] == "property="+prop && strings.HasPrefix(fs[2], "key=") {
				known[strings.TrimPrefix(fs[2], "key=")] = strings.Join(fs[3:], " ")
			}
		} else if strings.HasPrefix(l, "fixed:") {
			fixed = append(fixed, l)
		}
	}
	return
}

// racePass builds and runs the free-running -race bodies and turns every
// distinct data-race report into a violation record.
func racePass(cfg checkCfg, checkDir, work, tier string, instrOv map[string]string) ([]map[string]any, map[string]any) {
	info := map[string]any{"note": "supplementary free-running pass under the Go race detector (sampling of real schedules, not part of the exhaustive claim): the same operations as the explored scenarios on real goroutines, uninstrumented"}
	var viols []map[string]any
	var pkgs []any
	totalReports := 0
	for i, rc := range cfg.Race {
		// overlay: engines + in-package accessors + the race bodies, no instrumentation
		ov := map[string]string{}
		for k, v := range instrOv {
			if strings.HasPrefix(v, filepath.Join(work, "instr")) {
				continue
			}
			ov[k] = v
		}
		ents, err := os.ReadDir(filepath.Join(checkDir, rc.Dir))
		if err != nil {
			die(2, "%v", err)
		}
		for _, e := range ents {
			if strings.HasSuffix(e.Name(), ".go") {
				ov[filepath.Join(repoDir, rc.Pkg, e.Name())] = filepath.Join(checkDir, rc.Dir, e.Name())
			}
		}
		ovb, _ := json.MarshalIndent(map[string]any{"Replace": ov}, "", " ")
		ovPath := filepath.Join(work, fmt.Sprintf("overlay-race%d.json", i))
		os.WriteFile(ovPath, ovb, 0o644)
		bin := filepath.Join(work, fmt.Sprintf("race%d.test", i))
		cmd := exec.Command("go", "test", "-c", "-race", "-vet=off", "-overlay", ovPath, "-tags", "verif", "-o", bin, "./"+rc.Pkg)
		cmd.Dir = repoDir
		cmd.Env = goEnv()
		if out, err := cmd.CombinedOutput(); err != nil {
			// the bodies are compiled against private names of the package; when
			// those change the supplementary pass is skipped (and says so) rather
			// than taking the exhaustive verdict down with it
			fmt.Fprintf(os.Stderr, "vcheck: race-pass bodies of %s no longer compile against the tree; the supplementary race pass is skipped:\n%s\n", rc.Pkg, firstLines(string(out), 6))
			pkgs = append(pkgs, map[string]any{"pkg": rc.Pkg, "skipped": "bodies do not compile against the current tree", "build_output": firstLines(string(out), 6)})
			continue
		}
		iters := rc.ItersQuick
		if tier == "thorough" {
			iters = rc.ItersThor
		}
		if iters <= 0 {
			iters = 1
		}
		run := rc.Run
		if run == "" {
			run = "VerifRace"
		}
		to := rc.Timeout
		if to == "" {
			// the bodies take about a second per iteration on the unchanged
			// tree; a body that hangs on changed code gives no verdict anyway
			to = "3m"
			if tier == "thorough" {
				to = "15m"
			}
		}
		logBase := filepath.Join(work, fmt.Sprintf("race%d.log", i))
		tmpDir := filepath.Join(work, fmt.Sprintf("race%d.tmp", i))
		os.MkdirAll(tmpDir, 0o755)
		c := exec.Command(bin, "-test.run", run, "-test.count=1", "-test.timeout", to, "-test.v")
		c.Dir = filepath.Join(repoDir, rc.Pkg)
		c.Env = append(os.Environ(), "GORACE=halt_on_error=0 exitcode=0 history_size=5 log_path="+logBase,
			"VERIF_RACE_ITERS="+strconv.Itoa(iters), "VERIF_WORK="+work, "TMPDIR="+tmpDir)
		t0 := time.Now()
		out, runErr := c.CombinedOutput()
		bodies := strings.Count(string(out), "=== RUN")
		failed := strings.Count(string(out), "--- FAIL")
		// collect reports
		var reports []string
		logs, _ := filepath.Glob(logBase + ".*")
		for _, lf := range logs {
			b, _ := os.ReadFile(lf)
			for _, blk := range strings.Split(string(b), "==================") {
				if strings.Contains(blk, "WARNING: DATA RACE") {
					reports = append(reports, strings.TrimSpace(blk))
				}
			}
		}
		totalReports += len(reports)
		pi := map[string]any{"pkg": rc.Pkg, "bodies": bodies, "iterations": iters, "race_reports": len(reports), "bodies_failed": failed, "wall_s": time.Since(t0).Seconds()}
		if runErr != nil {
			// a body that fails or hangs is not a verdict of this pass (the
			// explored scenarios own behaviour); it is recorded
			pi["run_error"] = runErr.Error()
			pi["output_tail"] = tail(string(out), 1500)
			if os.Getenv("VERIF_RACE_VERBOSE") != "" {
				fmt.Fprintf(os.Stderr, "race pass %s: %v\n%s\n", rc.Pkg, runErr, tail(string(out), 4000))
			}
		}
		pkgs = append(pkgs, pi)
		seen := map[string]bool{}
		for _, r := range reports {
			key := cfg.Property + "/race/" + raceKey(r)
			if seen[key] {
				continue
			}
			seen[key] = true
			viols = append(viols, map[string]any{
				"scenario":   "race-pass/" + rc.Pkg,
				"choices":    []any{},
				"failure":    map[string]any{"oracle": "race-free", "key": key, "msg": "data race reported by the free-running -race pass (unsynchronised access: behaviour is undefined for some schedule)\n" + firstLines(r, 40)},
				"report":     r,
				"replay_cmd": fmt.Sprintf("VERIF_RACE_VERBOSE=1 bin/check %s %s   # re-runs the race pass; reports are in .work/%s/race%d.log.*", cfg.Property, tier, strings.ToLower(cfg.Property), i),
			})
		}
	}
	info["packages"] = pkgs
	info["race_reports"] = totalReports
	return viols, info
}

// raceKey names a race by the innermost repository function of each of the two
// accesses (order-independent).
func raceKey(report string) string {
	var fns []string
	lines := strings.Split(report, "\n")
	for i, l := range lines {
		t := strings.TrimSpace(l)
		if (strings.HasPrefix(t, "Write at") || strings.HasPrefix(t, "Read at") || strings.HasPrefix(t, "Previous write at") || strings.HasPrefix(t, "Previous read at") || strings.HasPrefix(t, "Atomic")) && strings.Contains(t, "by ") {
			fn := "?"
			for j := i + 1; j < len(lines) && strings.TrimSpace(lines[j]) != ""; j += 2 {
				f := strings.TrimSpace(lines[j])
				if strings.Contains(f, modPath) && !strings.Contains(strings.ToLower(f), "verif") {
					if k := strings.LastIndex(f, "("); k > 0 {
						f = f[:k]
					}
					fn = strings.TrimPrefix(f, modPath+"/")
					break
				}
			}
			fns = append(fns, fn)
		}
	}
	sort.Strings(fns)
	return strings.Join(fns, "|")
}
