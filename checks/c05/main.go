//go:build verif

// C05: obfs4 never delivers bytes the peer did not send, however ciphertext is altered.
package main

import (
	"bytes"
	"fmt"
	"net"
	"strings"

	"gitlab.com/yawning/obfs4.git/internal/zzverif/mc"
	"gitlab.com/yawning/obfs4.git/internal/zzverif/o4h"
	"gitlab.com/yawning/obfs4.git/internal/zzverif/ref"
	"gitlab.com/yawning/obfs4.git/internal/zzverif/rnd"
	"gitlab.com/yawning/obfs4.git/internal/zzverif/sched"
	"gitlab.com/yawning/obfs4.git/internal/zzverif/wire"
)

func fail(c *mc.Ctx, oracle, key, format string, a ...any) {
	c.Fail(oracle, "C05/"+key, format, a...)
}

// frame classes: payload length, padding
type fclass struct {
	name     string
	pay, pad int
}

var (
	fPad  = fclass{"pad-only", 0, 0}
	fOne  = fclass{"1-byte", 1, 0}
	fMid  = fclass{"mid", 150, 50}
	fFull = fclass{"full", 1427, 0}
)

type tamper struct {
	// script8: scripted 8-byte draws for the victim's random source (the
	// random-length countermeasure draws its length with one Int63)
	script8 [][]byte
	desc    string
	stream  []byte // what the victim receives before EOF
	intact  int    // number of leading frames that are intact (their payload may be delivered)
	cutAt   int    // interesting split offset
	// certain: the damage is in the body/tag of a complete frame: it is detected
	// as soon as that frame is decoded, without any further data or the end of
	// the stream (a damaged length field may make the decoder wait for more)
	certain bool
}

// buildCases enumerates the tamperings of a frame sequence.
func buildCases(frames [][]byte, family string, thorough bool, r *rnd.Stream) []tamper {
	var starts []int
	off := 0
	for _, f := range frames {
		starts = append(starts, off)
		off += len(f)
	}
	all := bytes.Join(frames, nil)
	var out []tamper
	cp := func() []byte { return append([]byte{}, all...) }
	switch family {
	case "bitflip":
		for j, f := range frames {
			var offs []int
			if len(f) <= 300 || thorough {
				for i := range f {
					offs = append(offs, i)
				}
			} else {
				for i := 0; i < 2+16+64; i++ {
					offs = append(offs, i)
				}
				for i := len(f) - 64; i < len(f); i++ {
					offs = append(offs, i)
				}
			}
			for _, i := range offs {
				for b := uint(0); b < 8; b++ {
					s := cp()
					s[starts[j]+i] ^= 1 << b
					out = append(out, tamper{desc: fmt.Sprintf("flip frame %d byte %d bit %d", j, i, b), stream: s, intact: j, cutAt: starts[j] + i, certain: i >= 2})
					if i < 2 {
						// length field: also let the out-of-range countermeasure draw
						// exactly the true box length, with the read split right
						// behind the length field
						out = append(out, tamper{desc: fmt.Sprintf("flip frame %d byte %d bit %d, countermeasure scripted to the true length", j, i, b), stream: s, intact: j, cutAt: starts[j] + 2,
							script8: [][]byte{rnd.ScriptIntn(len(f) - 2 - 16)}})
						if i == 0 && b == 7 {
							// the top bit makes the length out of range for certain: let the
							// countermeasure draw every extreme residue of its range (a residue
							// beyond the range wraps around, harmlessly, in correct code)
							for _, res := range []int{0, 1, 1428, 1429, 1430, 1431, 1432, 1433, 1445, 1446, 1447, 1448, 1449, 1<<31 - 1} {
								out = append(out, tamper{desc: fmt.Sprintf("flip frame %d byte 0 bit 7, countermeasure draw scripted to residue %d", j, res), stream: s, intact: j, cutAt: starts[j] + 2,
									script8: [][]byte{rnd.ScriptIntn(res)}})
							}
						}
					}
				}
			}
		}
	case "truncate":
		for cut := 0; cut < len(all); cut++ {
			if !thorough && len(all) > 400 {
				// every cut inside headers and around boundaries, every 97th elsewhere
				near := false
				for _, st := range starts {
					if cut >= st-2 && cut <= st+20 {
						near = true
					}
				}
				if !near && cut%97 != 0 && cut != len(all)-1 {
					continue
				}
			}
			j := 0
			for j < len(frames) && starts[j]+len(frames[j]) <= cut {
				j++
			}
			out = append(out, tamper{desc: fmt.Sprintf("truncate at %d", cut), stream: cp()[:cut], intact: j, cutAt: cut})
		}
	case "delete":
		for j := range frames {
			if j == len(frames)-1 {
				continue // deleting the last frame before EOF is a truncation at a boundary
			}
			s := append(append([]byte{}, all[:starts[j]]...), all[starts[j]+len(frames[j]):]...)
			out = append(out, tamper{desc: fmt.Sprintf("delete frame %d", j), stream: s, intact: j, cutAt: starts[j]})
		}
	case "duplicate":
		for j := range frames {
			end := starts[j] + len(frames[j])
			s := append(append(append([]byte{}, all[:end]...), frames[j]...), all[end:]...)
			out = append(out, tamper{desc: fmt.Sprintf("duplicate frame %d", j), stream: s, intact: j + 1, cutAt: end})
		}
	case "swap":
		for j := 0; j+1 < len(frames); j++ {
			s := append([]byte{}, all[:starts[j]]...)
			s = append(s, frames[j+1]...)
			s = append(s, frames[j]...)
			s = append(s, all[starts[j+1]+len(frames[j+1]):]...)
			out = append(out, tamper{desc: fmt.Sprintf("swap frames %d,%d", j, j+1), stream: s, intact: j, cutAt: starts[j]})
		}
	case "replay":
		for j := 1; j <= len(frames); j++ {
			for i := 0; i < j; i++ {
				at := len(all)
				if j < len(frames) {
					at = starts[j]
				}
				s := append(append(append([]byte{}, all[:at]...), frames[i]...), all[at:]...)
				out = append(out, tamper{desc: fmt.Sprintf("replay frame %d before position %d", i, j), stream: s, intact: j, cutAt: at})
			}
		}
	case "insert":
		for j := 0; j <= len(frames); j++ {
			at := len(all)
			if j < len(frames) {
				at = starts[j]
			}
			for _, n := range []int{1, 21} {
				s := append(append(append([]byte{}, all[:at]...), r.Bytes(n)...), all[at:]...)
				out = append(out, tamper{desc: fmt.Sprintf("insert %d bytes before frame %d", n, j), stream: s, intact: j, cutAt: at})
			}
		}
	}
	return out
}

type chunking struct {
	name string
	f    func(cut int) func(*wire.Conn, int, int) []int
}

func chunkings(small bool) []chunking {
	cs := []chunking{
		{"whole", func(int) func(*wire.Conn, int, int) []int { return nil }},
		{"split-at-damage", func(cut int) func(*wire.Conn, int, int) []int {
			return func(c *wire.Conn, avail, want int) []int {
				// deterministic: first read ends at the damage offset (relative to the post-handshake stream start)
				d := cut - int(c.In.Read-c.In.Marks[0])
				if d >= 1 && d < avail {
					return []int{d}
				}
				return []int{avail}
			}
		}},
	}
	// the whole tampered stream arrives in the same segment as the server's
	// handshake response (client role only; skipped for the server)
	cs = append(cs, chunking{"coalesced-with-handshake", func(int) func(*wire.Conn, int, int) []int { return nil }})
	// the application reads with a buffer much smaller than a frame's payload:
	// decoded data is left over when the error is first known
	cs = append(cs, chunking{"whole/small-read-buffer", func(int) func(*wire.Conn, int, int) []int { return nil }})
	cs = append(cs, chunking{"whole/small-read-buffer/peer-stays-silent", func(int) func(*wire.Conn, int, int) []int { return nil }})
	// the attacker goes silent instead of ending the stream: only for damage
	// that is certain to be detected without more data
	cs = append(cs, chunking{"whole/peer-stays-silent", func(int) func(*wire.Conn, int, int) []int { return nil }})
	cs = append(cs, chunking{"coalesced-with-handshake/peer-stays-silent", func(int) func(*wire.Conn, int, int) []int { return nil }})
	if small {
		cs = append(cs, chunking{"dribble", func(int) func(*wire.Conn, int, int) []int { return wire.Dribble }})
	}
	return cs
}

func family(role string, seq []fclass, fam string, seed int64, thorough bool) mc.Scenario {
	return familyPart(role, seq, fam, seed, thorough, 0, 1)
}

// familyPart runs the cases ci with ci % parts == part of a family (large
// families are split so that they shard over the processes).
func familyPart(role string, seq []fclass, fam string, seed int64, thorough bool, part, parts int) mc.Scenario {
	var names []string
	size := 0
	for _, f := range seq {
		names = append(names, f.name)
		size += 21 + f.pay + f.pad
	}
	name := fmt.Sprintf("%s/%v/%s", role, names, fam)
	scenName := name
	if parts > 1 {
		scenName = fmt.Sprintf("%s/part%02d-of-%d", name, part, parts)
	}
	var cached []tamper
	var cachedFrames []byte
	return mc.Scenario{
		Name:   scenName,
		Params: map[string]any{"role": role, "frames": names, "family": fam},
		Weight: 1 + size/50,
		Run: func(c *mc.Ctx) {
			br := o4h.NewBridge(seed, "c05", 0, false)
			caseRnd := rnd.New(seed, "c05-cases-"+name)
			// the plaintext and the cases are the same for every run of the family
			var payloads [][]byte
			for i, f := range seq {
				payloads = append(payloads, o4h.Pattern(byte('a'+i), i*7, f.pay))
			}
			tail := [][]byte{o4h.Pattern('y', 0, 5), o4h.Pattern('z', 0, 9)} // two further valid frames
			nCases := -1
			outcomes := map[string]int{}
			for ci := part; nCases < 0 || ci < nCases; ci += parts {
				if c.NumFailures() >= 1 {
					break // (a broken tree: the first failing case of this part is the report: the execution is run again five times)
				}
				if c.Expired() {
					c.Incomplete(fmt.Sprintf("%s: budget expired at case %d of %d", scenName, ci, nCases))
					break
				}
				for _, ch := range chunkings(size <= 300) {
					smallBuf := strings.Contains(ch.name, "/small-read-buffer")
					coalesce := strings.HasPrefix(ch.name, "coalesced-with-handshake")
					silent := strings.HasSuffix(ch.name, "/peer-stays-silent")
					if coalesce && (role != "client" || size > 6000) {
						continue
					}
					if silent && (fam != "bitflip" || (cached != nil && ci < len(cached) && !cached[ci].certain)) {
						continue
					}
					realStream := rnd.New(seed, "c05-real-"+name)
					rnd.Install(realStream)
					refRnd := rnd.New(seed, "c05-ref-"+name)
					cw, sw := wire.Pipe("client", "server")
					var victimWire, attackerWire *wire.Conn
					if role == "client" {
						victimWire, attackerWire = cw, sw
					} else {
						victimWire, attackerWire = sw, cw
					}
					var got []byte
					var firstErr error
					var afterErr int
					var hsErr error
					var tc tamper
					sf, err := br.ServerFactory()
					if err != nil {
						fail(c, "setup", "setup", "%v", err)
						return
					}
					res := sched.Run(c, sched.Options{NoPreempt: true, NoEarlyTimers: true, MaxSteps: 3_000_000}, func() {
						s := sched.Cur()
						var prepare func(rs *o4h.RefSession) bool
						attacker := func() {
							var rs *o4h.RefSession
							var err error
							if role == "client" && coalesce {
								rs, err = o4h.RefServer(sw, br.ID, o4h.ServerOpts{PadLen: 3, LenSeed: br.Seed, Tail: func(rs *o4h.RefSession) []byte {
									if !prepare(rs) {
										return nil
									}
									return tc.stream
								}}, refRnd)
								if err != nil {
									hsErr = err
								}
								if !silent {
									attackerWire.CloseWrite()
								}
								return
							} else if role == "client" {
								rs, err = o4h.RefServer(sw, br.ID, o4h.ServerOpts{PadLen: 3, LenSeed: br.Seed}, refRnd)
							} else {
								rs, _, err = o4h.RefClient(cw, br.ID.Pub[:], br.ID.NodeID[:], o4h.ClientOpts{PadLen: 80}, refRnd)
							}
							if err != nil {
								hsErr = err
								attackerWire.Close()
								return
							}
							if !prepare(rs) {
								attackerWire.Close()
								return
							}
							// offsets of the post-handshake stream start for the split chunker
							attackerWire.Out.Marks = []int64{attackerWire.Out.Total}
							victimWire.Chunker = ch.f(tc.cutAt)
							attackerWire.Write(tc.stream)
							if !silent {
								attackerWire.CloseWrite()
							}
						}
						prepare = func(rs *o4h.RefSession) bool {
							var frames [][]byte
							for i, f := range seq {
								frames = append(frames, rs.Tx.Seal(ref.Packet(ref.PktPayload, payloads[i], f.pad)))
							}
							for _, p := range tail {
								frames = append(frames, rs.Tx.Seal(ref.Packet(ref.PktPayload, p, 0)))
							}
							// the ciphertext is the same in every run of the family
							// (same scripted randomness): build the case list once
							if joined := bytes.Join(frames, nil); cached == nil || !bytes.Equal(joined, cachedFrames) {
								cached, cachedFrames = buildCases(frames, fam, thorough, caseRnd), joined
							}
							cases := cached
							nCases = len(cases)
							if ci >= nCases {
								return false
							}
							tc = cases[ci]
							realStream.Script8 = tc.script8
							return true
						}
						s.Spawn("attacker", attacker)
						var conn net.Conn
						var err error
						if role == "client" {
							conn, err = o4h.Dial(br.ClientArgs("cert", nil), cw)
						} else {
							conn, err = sf.WrapConn(sw)
						}
						if err != nil {
							hsErr = err
							return
						}
						buf := make([]byte, 4096)
						if smallBuf {
							buf = make([]byte, 61)
						}
						for k := 0; k < 100000; k++ {
							n, err := conn.Read(buf)
							got = append(got, buf[:n]...)
							if err != nil {
								if firstErr == nil {
									firstErr = err
								} else {
									afterErr++
								}
								if afterErr >= 3 || silent {
									break
								}
							} else if n == 0 {
								firstErr = fmt.Errorf("Read returned 0, nil")
								break
							}
						}
					})
					if nCases >= 0 && ci >= nCases {
						break
					}
					c.AddExecutions(1)
					c.Count("tamper_cases", 1)
					if len(res.Panics) > 0 {
						fail(c, "no-panic", "panic/"+fam, "%s [%s, %s]: %s", tc.desc, ch.name, role, res.Panics[0])
						continue
					}
					if hsErr != nil {
						fail(c, "setup", "handshake", "handshake failed: %v", hsErr)
						return
					}
					var allowed []byte
					for i := 0; i < tc.intact && i < len(seq)+len(tail); i++ {
						if i < len(seq) {
							allowed = append(allowed, payloads[i]...)
						} else {
							allowed = append(allowed, tail[i-len(seq)]...)
						}
					}
					if silent && !tc.certain {
						continue // (only reachable before the case list exists)
					}
					oc := fmt.Sprintf("delivered=%d/%d err=%v", len(got), len(allowed), firstErr != nil)
					outcomes[oc]++
					c.Case(tc.desc+"/"+ch.name, oc)
					if !bytes.HasPrefix(allowed, got) {
						fail(c, "prefix", "forged-bytes/"+fam, "%s [%s, %s reads]: delivered %d bytes that are not a prefix of the %d intact bytes preceding the damage (first difference at %d)", tc.desc, ch.name, role, len(got), len(allowed), firstDiff(allowed, got))
						continue
					}
					if firstErr == nil {
						fail(c, "error-reported", "no-error/"+fam, "%s [%s, %s reads]: Read never reported an error (delivered %d bytes; blocked: %+v)", tc.desc, ch.name, role, len(got), res.Blocked)
						continue
					}
					if res.Livelock {
						fail(c, "error-reported", "livelock/"+fam, "%s [%s]: reader spins", tc.desc, ch.name)
					}
				}
			}
			c.Observe("outcomes", fmt.Sprint(outcomes))
		},
	}
}

// otherConnection: the attacker is not on the victim's path but has a
// connection of its own to the same process and chooses what it carries; both
// are read concurrently.  The victim's delivered bytes must stay a prefix of
// what the victim's peer wrote.
// spliceEarlierSession: the attacker recorded the ciphertext of an earlier
// session of the same client with the same bridge and inserts it into a later
// session.  The later session belongs to a client that dials again with the
// arguments it parsed once -- a stock obfs4 client then presents the same
// ephemeral public key (it is generated when the bridge line is parsed), so
// only the bridge's fresh ephemeral key separates the two sessions' frame keys.
func spliceEarlierSession(seed int64) mc.Scenario {
	return mc.Scenario{Name: "splice-earlier-session/server", Weight: 30, Run: func(c *mc.Ctx) {
		br := o4h.NewBridge(seed, "c05", 0, false)
		rnd.Install(rnd.New(seed, "c05-real-splice"))
		refRnd := rnd.New(seed, "c05-ref-splice")
		eph := ref.NewEphemeral(refRnd)
		forged := bytes.Repeat([]byte("ATTACKER-CHOSEN."), 8)
		var hsErr, rfErr [2]error
		var got [2][]byte
		var rdErr [2]error
		var recorded []byte
		sched.Run(c, sched.Options{NoPreempt: true, NoEarlyTimers: true, MaxSteps: 3_000_000}, func() {
			s := sched.Cur()
			sf, err := br.ServerFactory()
			if err != nil {
				hsErr[0] = err
				return
			}
			for i := 0; i < 2; i++ {
				i := i
				cw, sw := wire.Pipe(fmt.Sprintf("client%d", i), fmt.Sprintf("server%d", i))
				done := false
				s.Spawn(fmt.Sprintf("peer%d", i), func() {
					defer func() { done = true }()
					e := *eph
					rs, _, err := o4h.RefClient(cw, br.ID.Pub[:], br.ID.NodeID[:], o4h.ClientOpts{PadLen: 80 + 7*i, Eph: &e}, refRnd)
					if err != nil {
						rfErr[i] = err
						cw.Close()
						return
					}
					if i == 0 {
						// the earlier session: the client really sends these bytes
						recorded = rs.BuildFrames(forged, 0)
						rs.SendRaw(recorded)
					} else {
						// the later session: the client sends nothing; the attacker
						// inserts the recorded ciphertext
						rs.SendRaw(recorded)
					}
					cw.CloseWrite()
				})
				conn, err := sf.WrapConn(sw)
				if err != nil {
					hsErr[i] = err
					return
				}
				b := make([]byte, 256)
				for {
					n, err := conn.Read(b)
					got[i] = append(got[i], b[:n]...)
					if err != nil {
						rdErr[i] = err
						break
					}
				}
				conn.Close()
				s.Point("peer-done", func() bool { return done })
			}
		})
		if hsErr[0] != nil || hsErr[1] != nil || rfErr[0] != nil || rfErr[1] != nil {
			fail(c, "setup", "handshake", "handshakes failed: %v %v", hsErr, rfErr)
			return
		}
		c.Observe("out", fmt.Sprintf("first=%d later=%d err=%v", len(got[0]), len(got[1]), rdErr[1]))
		if !bytes.Equal(got[0], forged) {
			fail(c, "setup", "splice/first-session", "the earlier session did not deliver its own %d bytes (%d delivered, %v)", len(forged), len(got[0]), rdErr[0])
			return
		}
		if len(got[1]) > 0 {
			fail(c, "prefix", "forged-bytes/earlier-session", "ciphertext recorded in an earlier session of the same client (same client ephemeral key, as a stock client presents when it dials again with the same parsed bridge line) was inserted into a later session in which the client wrote nothing: the server delivered %d bytes", len(got[1]))
		}
	}}
}

func otherConnection(role string, seed int64) mc.Scenario {
	return mc.Scenario{Name: "other-connection/" + role, Bound: 1, Weight: 300, Run: func(c *mc.Ctx) {
		br := o4h.NewBridge(seed, "c05", 0, false)
		rnd.Install(rnd.New(seed, "c05-real-other-"+role))
		type cn struct {
			cw, sw *wire.Conn
			conn   net.Conn
			in     []byte
			got    []byte
			hsErr  error
			rfErr  error
			rdErr  error
			rdone  bool
		}
		cs := []*cn{{in: o4h.Pattern('V', 0, 120)}, {in: bytes.Repeat([]byte("ATTACKER-CHOSEN."), 8)}}
		res := sched.Run(c, sched.Options{PreemptKinds: []string{"stmt"}, NoEarlyTimers: true, MaxSteps: 3_000_000}, func() {
			s := sched.Cur()
			sf, err := br.ServerFactory()
			if err != nil {
				cs[0].hsErr = err
				return
			}
			for i, x := range cs {
				i, x := i, x
				x.cw, x.sw = wire.Pipe(fmt.Sprintf("client%d", i), fmt.Sprintf("server%d", i))
				refRnd := rnd.New(seed, fmt.Sprint("c05-ref-other-", role, i))
				s.Spawn(fmt.Sprintf("peer%d", i), func() {
					var rs *o4h.RefSession
					if role == "client" {
						rs, x.rfErr = o4h.RefServer(x.sw, br.ID, o4h.ServerOpts{PadLen: 3, LenSeed: br.Seed}, refRnd)
					} else {
						rs, _, x.rfErr = o4h.RefClient(x.cw, br.ID.Pub[:], br.ID.NodeID[:], o4h.ClientOpts{PadLen: 80}, refRnd)
					}
					if x.rfErr == nil {
						rs.Send(x.in[:len(x.in)/2], 2)
						rs.Send(x.in[len(x.in)/2:], 0)
					}
				})
				if role == "client" {
					x.conn, x.hsErr = o4h.Dial(br.ClientArgs("cert", nil), x.cw)
				} else {
					x.conn, x.hsErr = sf.WrapConn(x.sw)
				}
				if x.hsErr != nil {
					return
				}
			}
			for i, x := range cs {
				x := x
				s.Spawn(fmt.Sprintf("reader%d", i), func() {
					b := make([]byte, 64)
					for len(x.got) < len(x.in) {
						n, err := x.conn.Read(b)
						x.got = append(x.got, b[:n]...)
						if err != nil {
							x.rdErr = err
							break
						}
					}
					x.rdone = true
				})
			}
			s.Point("join", func() bool { return cs[0].rdone && cs[1].rdone })
		})
		if len(res.Panics) > 0 {
			fail(c, "no-panic", "panic/other-connection", "%s", res.Panics[0])
			return
		}
		for i, x := range cs {
			if x.hsErr != nil || x.rfErr != nil {
				fail(c, "setup", "handshake", "connection %d handshake failed: %v %v", i, x.hsErr, x.rfErr)
				return
			}
			if !bytes.HasPrefix(x.in, x.got) {
				fail(c, "prefix", "forged-bytes/other-connection", "connection %d delivered %d bytes that are not a prefix of what its own peer wrote (first difference at %d): bytes of another connection of the same process surfaced", i, len(x.got), firstDiff(x.in, x.got))
				return
			}
			if len(x.got) != len(x.in) || x.rdErr != nil {
				fail(c, "prefix", "other-connection/disturbed", "connection %d (untampered) delivered %d of %d bytes, error %v: connections influence each other", i, len(x.got), len(x.in), x.rdErr)
				return
			}
		}
		c.Observe("ok", 2)
	}}
}

func firstDiff(a, b []byte) int {
	for i := 0; i < len(a) && i < len(b); i++ {
		if a[i] != b[i] {
			return i
		}
	}
	if len(a) < len(b) {
		return len(a)
	}
	return len(b)
}

func main() {
	mc.Main("C05", func(cfg *mc.Config, emit func(mc.Scenario)) {
		seqsBits := [][]fclass{{fPad}, {fOne}, {fMid}, {fOne, fPad, fOne}, {fFull}}
		seqsOps := [][]fclass{{fOne, fOne, fOne, fOne}, {fOne, fPad, fMid}, {fMid, fFull, fOne}, {fFull, fFull}}
		for _, role := range []string{"client", "server"} {
			emit(otherConnection(role, cfg.Seed))
			if role == "server" {
				emit(spliceEarlierSession(cfg.Seed))
			}
			for _, sq := range seqsBits {
				if len(sq) == 1 && sq[0].pay+sq[0].pad > 30 {
					// (in eight parts: an execution is a whole part, and a failing
					// execution is run again five times)
					for k := 0; k < 8; k++ {
						emit(familyPart(role, sq, "bitflip", cfg.Seed, cfg.Thorough(), k, 8))
					}
				} else {
					emit(family(role, sq, "bitflip", cfg.Seed, cfg.Thorough()))
				}
				emit(family(role, sq, "truncate", cfg.Seed, cfg.Thorough()))
			}
			for _, sq := range seqsOps {
				for _, fam := range []string{"delete", "duplicate", "swap", "replay", "insert", "truncate"} {
					emit(family(role, sq, fam, cfg.Seed, cfg.Thorough()))
				}
				if cfg.Thorough() {
					for k := 0; k < 8; k++ {
						emit(familyPart(role, sq, "bitflip", cfg.Seed, true, k, 8))
					}
				}
			}
		}
	})
}
