//go:build verif

// C03: the obfs4 server is silent to anyone who cannot prove knowledge of the bridge line.
package main

import (
	"encoding/binary"
	"fmt"
	"gitlab.com/yawning/obfs4.git/transports/obfs4"
	"io"
	"os"
	"math/big"
	"strings"
	"time"

	"gitlab.com/yawning/obfs4.git/internal/zzverif/mc"
	"gitlab.com/yawning/obfs4.git/internal/zzverif/o4h"
	"gitlab.com/yawning/obfs4.git/internal/zzverif/ref"
	"gitlab.com/yawning/obfs4.git/internal/zzverif/rnd"
	"gitlab.com/yawning/obfs4.git/internal/zzverif/sched"
	"gitlab.com/yawning/obfs4.git/internal/zzverif/wire"
	"gitlab.com/yawning/obfs4.git/transports/base"
)

func fail(c *mc.Ctx, oracle, key, format string, a ...any) {
	c.Fail(oracle, "C03/"+key, format, a...)
}

type probe struct {
	name  string
	build func(br *o4h.Bridge, r io.Reader) []byte
	// pre: a handshake to be accepted first on another connection (replay probes)
	replay bool
	// busy: (replay probes) the bridge remembers 102399 other handshakes when
	// the genuine one arrives, and accepts one more fresh handshake before the
	// replay: the filter is full and evicts its oldest entry, not this one
	busy bool
	// forged: (replay probes) the genuine handshake is the OLDEST entry of a
	// filter one short of full (102398 newer ones), and before the replay arrives the bridge
	// drops one more probe with a valid mark but a random MAC -- which must not
	// cost the genuine handshake its place
	forged bool
	// traffic: (replay probes) the genuine session is used before it ends -- the
	// client sends exactly as many bytes again as its handshake had, which the
	// server reads into the buffers the handshake was parsed from
	traffic bool
	// validLen: for "extended" probes, the length of the embedded valid handshake
	validLen int
}

func validHello(br *o4h.Bridge, r io.Reader, pad int, hourDelta int64) []byte {
	o := o4h.ClientOpts{PadLen: pad, HourDelta: hourDelta}
	return o4h.HelloOf(br.ID.Pub[:], br.ID.NodeID[:], &o, r)
}

func helloWithRepr(br *o4h.Bridge, r io.Reader, repr []byte, pad int) []byte {
	p := make([]byte, pad)
	io.ReadFull(r, p)
	return ref.ClientHello(br.ID.Pub[:], br.ID.NodeID[:], repr, p, o4h.Hour())
}

func probes(thorough bool) []probe {
	var ps []probe
	add := func(name string, f func(br *o4h.Bridge, r io.Reader) []byte) {
		ps = append(ps, probe{name: name, build: f})
	}
	add("empty", func(br *o4h.Bridge, r io.Reader) []byte { return nil })
	lens := []int{1, 63, 64, 140, 141, 4096, 8191, 8192, 8193}
	if thorough {
		lens = append(lens, 20000)
	}
	for _, n := range lens {
		n := n
		add(fmt.Sprintf("random/%d", n), func(br *o4h.Bridge, r io.Reader) []byte { b := make([]byte, n); io.ReadFull(r, b); return b })
	}
	const pad = 85
	// field boundaries of a valid handshake: repr 0..32, pad ..32+pad, mark +16, mac +16
	bounds := []int{0, 32, 32 + pad, 32 + pad + 16, 32 + pad + 32}
	for _, b := range bounds {
		for _, d := range []int{-1, 0, 1} {
			cut := b + d
			if cut <= 0 || cut >= 32+pad+32 {
				continue
			}
			add(fmt.Sprintf("truncated/%d", cut), func(br *o4h.Bridge, r io.Reader) []byte { return validHello(br, r, pad, 0)[:cut] })
		}
	}
	for _, ext := range []int{1, 100} {
		ext := ext
		add(fmt.Sprintf("extended/+%d", ext), func(br *o4h.Bridge, r io.Reader) []byte {
			h := validHello(br, r, pad, 0)
			x := make([]byte, ext)
			io.ReadFull(r, x)
			return append(h, x...)
		})
	}
	// the same with a handshake of the maximum length (8192 bytes): the
	// server's mark search window is clamped to exactly that length
	for _, ext := range []int{1, 100} {
		ext := ext
		add(fmt.Sprintf("extended-max/+%d", ext), func(br *o4h.Bridge, r io.Reader) []byte {
			h := validHello(br, r, 8128, 0)
			x := make([]byte, ext)
			io.ReadFull(r, x)
			return append(h, x...)
		})
		ps[len(ps)-1].validLen = 8192
	}
	flipAt := map[string][]int{"repr": {0, 31}, "pad": {32, 32 + pad - 1}, "mark": {32 + pad, 32 + pad + 15}, "mac": {32 + pad + 16, 32 + pad + 31}}
	{
		flipAt = map[string][]int{}
		for i := 0; i < 32; i++ {
			flipAt["repr"] = append(flipAt["repr"], i)
		}
		for i := 0; i < 16; i++ {
			flipAt["mark"] = append(flipAt["mark"], 32+pad+i)
			flipAt["mac"] = append(flipAt["mac"], 32+pad+16+i)
		}
		flipAt["pad"] = []int{32, 32 + pad - 1}
	}
	for _, field := range []string{"repr", "pad", "mark", "mac"} {
		for _, off := range flipAt[field] {
			bits := []uint{0, 7}
			if thorough {
				bits = []uint{0, 1, 2, 3, 4, 5, 6, 7}
			}
			for _, bit := range bits {
				off, bit := off, bit
				add(fmt.Sprintf("bitflip/%s/byte%d/bit%d", field, off, bit), func(br *o4h.Bridge, r io.Reader) []byte {
					h := validHello(br, r, pad, 0)
					h[off] ^= 1 << bit
					return h
				})
			}
		}
	}
	for _, hd := range []int64{-3, -2, 2, 3} {
		hd := hd
		add(fmt.Sprintf("wrong-hour/%+d", hd), func(br *o4h.Bridge, r io.Reader) []byte { return validHello(br, r, pad, hd) })
	}
	add("wrong-identity-key", func(br *o4h.Bridge, r io.Reader) []byte {
		other := o4h.NewBridge(99, "other", 0, false)
		other.ID.NodeID = br.ID.NodeID
		return validHello(other, r, pad, 0)
	})
	add("wrong-node-id", func(br *o4h.Bridge, r io.Reader) []byte {
		cp := *br
		id := *br.ID
		id.NodeID[0] ^= 1
		cp.ID = &id
		return validHello(&cp, r, pad, 0)
	})
	add("pad-too-short/76", func(br *o4h.Bridge, r io.Reader) []byte { return validHello(br, r, 76, 0) })
	add("pad-too-long/8129", func(br *o4h.Bridge, r io.Reader) []byte { return validHello(br, r, 8129, 0) })
	// representatives that decode to low-order points, computed by the
	// reference inverse map, plus all-zero / all-ones
	for i, u := range ref.LowOrderU() {
		um := new(big.Int).Mod(u, ref.P)
		pre := ref.Preimages(um)
		for j, p := range pre {
			rep := ref.ToLE(p)
			add(fmt.Sprintf("low-order-repr/u%d/pre%d", i, j), func(br *o4h.Bridge, r io.Reader) []byte { return helloWithRepr(br, r, rep, pad) })
		}
	}
	add("repr-all-zero", func(br *o4h.Bridge, r io.Reader) []byte { return helloWithRepr(br, r, make([]byte, 32), pad) })
	// (an all-ones representative decodes to an ordinary public key: a
	// handshake built around it with the right MAC is simply valid)
	ps = append(ps, probe{name: "replay", replay: true})
	ps = append(ps, probe{name: "replay/busy-bridge", replay: true, busy: true})
	ps = append(ps, probe{name: "replay/after-session-traffic", replay: true, traffic: true})
	ps = append(ps, probe{name: "replay/nearly-full-bridge-after-a-forged-probe", replay: true, forged: true})
	return ps
}

type delivery struct {
	name   string
	splits func(n int) []int // cut points
	pause  time.Duration
	leave  bool // peer disconnects after the last chunk (+pause)
}

func deliveries(thorough bool) []delivery {
	var ds []delivery
	whole := func(n int) []int { return nil }
	for _, leave := range []bool{false, true} {
		ds = append(ds, delivery{fmt.Sprintf("whole/leave=%v", leave), whole, 0, leave})
	}
	pauses := []time.Duration{0, 10 * time.Second, 29 * time.Second, 31 * time.Second}
	cuts := map[string]func(n int) []int{
		"half":      func(n int) []int { return []int{n / 2} },
		"after-32":  func(n int) []int { return []int{32} },
		"before-32": func(n int) []int { return []int{n - 32} },
		"last-byte": func(n int) []int { return []int{n - 1} },
		"thirds":    func(n int) []int { return []int{n / 3, 2 * n / 3} },
	}
	for _, cn := range []string{"half", "after-32", "before-32", "last-byte", "thirds"} {
		for _, p := range pauses {
			for _, leave := range []bool{false, true} {
				if !thorough && leave && p != 10*time.Second {
					continue
				}
				ds = append(ds, delivery{fmt.Sprintf("%s/pause=%v/leave=%v", cn, p, leave), cuts[cn], p, leave})
			}
		}
	}
	ds = append(ds, delivery{"dribble/leave=false", func(n int) []int {
		if n > 200 {
			return nil
		}
		var c []int
		for i := 1; i < n; i++ {
			c = append(c, i)
		}
		return c
	}, 0, false})
	return ds
}

type trace struct {
	leftAt    time.Duration // when the prober disconnected (-1: it stayed)
	wrote     int64
	closeAt   time.Duration
	closed    bool
	consumed  int64
	sent      int64
	wrapErr   bool
	panics    string
	readEnds  []int64 // stream offsets at which the server's reads ended
	readSizes []int   // and their sizes
	readCaps  []int   // and the sizes asked for
}

func (t trace) String() string {
	return fmt.Sprintf("wrote=%d closed=%v closeAt=%v consumed=%d/%d wrapErr=%v", t.wrote, t.closed, t.closeAt, t.consumed, t.sent, t.wrapErr)
}

// runProbe executes one probe against a fresh factory and returns the trace
// the prober can observe.
// busyUnavailable: the last runProbe could not set up the busy-bridge probe.
var busyUnavailable bool

// preTraffic: see probe.traffic.
var preTraffic bool

func runProbe(c *mc.Ctx, br *o4h.Bridge, sf base.ServerFactory, blob []byte, d delivery, pre []byte, pre2 []byte, forged []byte) trace {
	var tr trace
	tr.leftAt = -1
	start := time.Unix(1_700_000_000, 0).Add(13 * time.Minute)
	pw, sw := wire.Pipe("prober", "server")
	var sentBeforeClose int64
	res := sched.Run(c, sched.Options{NoPreempt: true, NoEarlyTimers: true, Start: start, MaxSteps: 3_000_000}, func() {
		s := sched.Cur()
		if pre2 != nil {
			// busy bridge: 102399 other handshakes are being remembered
			f := obfs4.VerifReplayFilter(sf)
			if f == nil {
				// (the factory's filter is not reachable the way the accessor knows:
				// the busy-bridge probe cannot be set up)
				busyUnavailable = true
				return
			}
			var v [16]byte
			for i := 0; i < 102400-1; i++ {
				binary.BigEndian.PutUint64(v[:], uint64(i)+1)
				f.TestAndSet(s.Now(), v[:])
			}
		}
		for k, blobK := range [][]byte{pre, pre2} {
			if blobK == nil {
				continue
			}
			blobK := blobK
			// a genuine client gets this handshake accepted first
			cw2, sw2 := wire.Pipe(fmt.Sprintf("client%d", k), fmt.Sprintf("server%d", k))
			s.Spawn(fmt.Sprintf("client%d", k), func() {
				cw2.Write(blobK)
				buf := make([]byte, 9000)
				cw2.Read(buf)
				if preTraffic {
					junk := make([]byte, len(blobK))
					for i := range junk {
						junk[i] = byte(i*11 + 3)
					}
					cw2.Write(junk)
					cw2.CloseWrite()
					for {
						if _, err := cw2.Read(buf); err != nil {
							break
						}
					}
				}
				cw2.Close()
			})
			conn, err := sf.WrapConn(sw2)
			if err != nil {
				fail(c, "setup", "replay-setup", "the genuine handshake was not accepted: %v", err)
				return
			}
			if preTraffic {
				// (not valid frames: Read consumes them and reports an error or the end)
				buf := make([]byte, 4096)
				for {
					if _, err := conn.Read(buf); err != nil {
						break
					}
				}
			}
			conn.Close()
		}
		if forged != nil {
			f := obfs4.VerifReplayFilter(sf)
			if f == nil {
				busyUnavailable = true
				return
			}
			// one short of full (the genuine handshake + 102398 newer ones): a full
			// filter forgets its oldest entry with the next query, by design
			var v [16]byte
			for i := 0; i < 102400-2; i++ {
				binary.BigEndian.PutUint64(v[:], uint64(i)+1)
				f.TestAndSet(s.Now(), v[:])
			}
			cw3, sw3 := wire.Pipe("forger", "server-forged")
			s.Spawn("forger", func() {
				cw3.Write(forged)
				cw3.Close()
			})
			conn3, err3 := sf.WrapConn(sw3)
			if err3 == nil {
				conn3.Close()
				fail(c, "silent", "accepted/forged-mac", "a handshake with a random MAC was accepted")
				return
			}
		}
		if pre != nil {
			// the replay arrives a second later; "accept" is now
			s.Advance(time.Second)
			start = s.Now()
		}
		s.Spawn("prober", func() {
			cuts := append(d.splits(len(blob)), len(blob))
			prev := 0
			for i, cut := range cuts {
				if cut < prev || cut > len(blob) {
					continue
				}
				if cut > prev || (i == 0 && len(blob) == 0) {
					if _, err := pw.Write(blob[prev:cut]); err == nil {
						tr.sent += int64(cut - prev)
					}
				}
				prev = cut
				if i < len(cuts)-1 && d.pause > 0 {
					sched.Sleep(d.pause)
				}
			}
			if d.leave {
				if d.pause > 0 {
					sched.Sleep(d.pause)
				}
				tr.leftAt = s.Now().Sub(start)
				pw.Close()
			}
		})
		_, err := sf.WrapConn(sw)
		tr.wrapErr = err != nil
	})
	if len(res.Panics) > 0 {
		tr.panics = res.Panics[0]
	}
	tr.wrote = sw.Out.Total
	if t, ok := sw.CloseTime(); ok {
		tr.closed = true
		tr.closeAt = t.Sub(start)
	}
	tr.consumed = sw.In.Read
	var off int64
	for _, n := range sw.ReadSizes {
		off += int64(n)
		tr.readEnds = append(tr.readEnds, off)
		tr.readSizes = append(tr.readSizes, n)
		tr.readCaps = append(tr.readCaps, sw.ReadCaps[len(tr.readSizes)-1])
	}
	_ = sentBeforeClose
	return tr
}

func findDelaySeeds(seed int64) map[string]*o4h.Bridge {
	out := map[string]*o4h.Bridge{}
	for i := 0; i < 5000 && len(out) < 3; i++ {
		b := o4h.NewBridge(seed, fmt.Sprint("c03/", i), 0, false)
		switch d := ref.CloseDelay(b.Seed); {
		case d == 0 && out["delay0"] == nil:
			out["delay0"] = b
		case d == 59 && out["delay59"] == nil:
			out["delay59"] = b
		case d > 5 && d < 50 && out["delayMid"] == nil:
			out["delayMid"] = b
		}
	}
	return out
}

func main() {
	mc.Main("C03", func(cfg *mc.Config, emit func(mc.Scenario)) {
		ps := probes(cfg.Thorough())
		ds := deliveries(cfg.Thorough())
		seeds := findDelaySeeds(cfg.Seed)
		for sname, br := range seeds {
			sname, br := sname, br
			for di, d := range ds {
				for _, shared := range []bool{false, true} {
					d, shared := d, shared
					// one scenario per (seed, delivery): all probe classes are run and
					// compared with the reference trace and with each other.  The
					// "one-bridge" variant sends every probe to the same server factory,
					// one connection after the other (what a running bridge sees); the
					// plain variant gives each probe a bridge that has seen nothing.
					name := fmt.Sprintf("%s/%s", sname, d.name)
					if shared {
						if !cfg.Thorough() && di%3 != 0 {
							continue
						}
						name += "/one-bridge"
					}
					emit(mc.Scenario{
						Name:   name,
						Params: map[string]any{"seed": sname, "delivery": d.name, "probes": len(ps), "one_bridge_for_all_probes": shared},
						Weight: 5,
						Run: func(c *mc.Ctx) {
							delay := time.Duration(30+ref.CloseDelay(br.Seed)) * time.Second
							var firstTrace map[string]string = map[string]string{}
							var sharedSf base.ServerFactory
							for _, p := range ps {
								rnd.Install(rnd.New(cfg.Seed, "c03-real-"+sname))
								pr := rnd.New(cfg.Seed, "c03-probe-"+p.name)
								sf := sharedSf
								if sf == nil {
									var err error
									sf, err = br.ServerFactory()
									if err != nil {
										fail(c, "setup", "setup", "%v", err)
										return
									}
									if shared {
										sharedSf = sf
									}
								}
								var blob, pre, pre2, forged []byte
								var tr trace
								// the probe bytes are built inside a scheduler run (they need the model hour)
								sched.Run(c, sched.Options{NoPreempt: true, Start: time.Unix(1_700_000_000, 0).Add(13 * time.Minute)}, func() {
									if p.replay {
										blob = validHello(br, pr, 85, 0)
										pre = blob
										if p.busy {
											pre2 = validHello(br, pr, 90, 0)
										}
										if p.forged {
											forged = validHello(br, pr, 95, 0)
											copy(forged[len(forged)-16:], pr.Bytes(16))
										}
									} else {
										blob = p.build(br, pr)
									}
								})
								if strings.HasPrefix(p.name, "extended") {
									vl := p.validLen
									if vl == 0 {
										vl = 32 + 85 + 32
									}
									// a chunk boundary exactly at the end of the embedded valid
									// handshake presents a valid handshake first: legitimately accepted
									skip := false
									for _, cut := range d.splits(len(blob)) {
										if cut == vl {
											skip = true
										}
									}
									if skip {
										continue
									}
								}
								busyUnavailable = false
								preTraffic = p.traffic
								tr = runProbe(c, br, sf, blob, d, pre, pre2, forged)
								preTraffic = false
								if busyUnavailable {
									c.Count("busy_bridge_probes_not_set_up", 1)
									continue
								}
								c.Count("probes", 1)
								c.AddExecutions(1)
								if tr.panics != "" {
									fail(c, "no-panic", "panic", "probe %s: %s", p.name, tr.panics)
									continue
								}
								if os.Getenv("VERIF_C03_DEBUG") != "" && p.forged {
								fmt.Fprintf(os.Stderr, "DEBUG %s %s: %s\n", p.name, d.name, tr.String())
							}
							c.Observe(p.name, tr.String())
								c.Case(p.name, tr.String())
								if strings.HasPrefix(p.name, "extended") {
									// one of the server's reads ended exactly at the end of the
									// embedded valid handshake (e.g. its 8192-byte buffer was
									// full): it was presented a valid handshake first
									vl, legit := int64(p.validLen), false
									if vl == 0 {
										vl = 32 + 85 + 32
									}
									// (only a read that FILLED the buffer the server reads its
									// handshakes with: a read that stops there because the
									// server asked for less than that is the server's own
									// doing, not a presentation of the valid handshake alone)
									for k, e := range tr.readEnds {
										if e == vl && tr.readSizes[k] == tr.readCaps[k] && tr.readCaps[k] == tr.readCaps[0] {
											legit = true
										}
									}
									if legit {
										c.Count("extended_probes_read_boundary_at_valid_length", 1)
										continue
									}
								}
								if tr.wrote != 0 {
									fail(c, "silent", "wrote/"+class(p.name), "probe %s (%s): the server wrote %d bytes", p.name, d.name, tr.wrote)
									continue
								}
								if !tr.wrapErr {
									fail(c, "silent", "accepted/"+class(p.name), "probe %s (%s): WrapConn accepted the connection", p.name, d.name)
									continue
								}
								if !tr.closed {
									fail(c, "close-time", "never-closed/"+class(p.name), "probe %s (%s): the server never closed the connection", p.name, d.name)
									continue
								}
								// expected close instant
								want := delay
								leaveAt := tr.leftAt
								if leaveAt >= 0 && leaveAt < want {
									want = leaveAt
								}
								if tr.closeAt != want {
									fail(c, "close-time", "close-time/"+class(p.name), "probe %s (%s): connection closed at accept+%v, want accept+%v (30s + closeDelay %ds%s)", p.name, d.name, tr.closeAt, want, ref.CloseDelay(br.Seed), leaveNote(leaveAt))
									continue
								}
								// everything delivered before the close was consumed
								if tr.consumed != tr.sent {
									fail(c, "drain", "drain/"+class(p.name), "probe %s (%s): %d of %d delivered bytes were consumed", p.name, d.name, tr.consumed, tr.sent)
								}
								// indistinguishability across classes: same schedule, same lengths => same trace
								k := fmt.Sprintf("len=%d", len(blob))
								sig := fmt.Sprintf("closeAt=%v wrote=%d consumed=%d", tr.closeAt, tr.wrote, tr.consumed)
								if prev, ok := firstTrace[k]; ok && prev != sig {
									fail(c, "indistinguishable", "distinguishable/"+class(p.name), "probe %s (%s) has trace %q, another invalid probe of the same length had %q", p.name, d.name, sig, prev)
								} else {
									firstTrace[k] = sig
								}
							}
						},
					})
				}
			}
		}
	})
}

func leaveNote(l time.Duration) string {
	if l < 0 {
		return ""
	}
	return fmt.Sprintf(", peer leaves at %v", l)
}

func class(name string) string {
	for i := 0; i < len(name); i++ {
		if name[i] == '/' {
			return name[:i]
		}
	}
	return name
}
