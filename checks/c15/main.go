//go:build verif

// C15: ScrambleSuit client: handshake, stream and tickets work for every segmentation.
package main

import (
	"bytes"
	"encoding/base32"
	"errors"
	"fmt"
	"io"
	"net"
	"os"
	"path/filepath"
	"time"

	pt "gitlab.torproject.org/tpo/anti-censorship/pluggable-transports/goptlib"

	"gitlab.com/yawning/obfs4.git/internal/zzverif/mc"
	"gitlab.com/yawning/obfs4.git/internal/zzverif/o4h"
	"gitlab.com/yawning/obfs4.git/internal/zzverif/ref"
	"gitlab.com/yawning/obfs4.git/internal/zzverif/rnd"
	"gitlab.com/yawning/obfs4.git/internal/zzverif/sched"
	"gitlab.com/yawning/obfs4.git/internal/zzverif/wire"
	"gitlab.com/yawning/obfs4.git/transports/base"
	"gitlab.com/yawning/obfs4.git/transports/scramblesuit"
)

func fail(c *mc.Ctx, oracle, key, format string, a ...any) {
	c.Fail(oracle, "C15/"+key, format, a...)
}

var start = time.Unix(1_700_000_000, 0).Truncate(time.Hour).Add(17 * time.Minute)

var kB = bytes.Repeat([]byte{0x42}, 20)

func clientArgs(secret []byte) *pt.Args {
	a := pt.Args{}
	a.Add("password", base32.StdEncoding.EncodeToString(secret))
	return &a
}

func freshDir(tag string) string {
	d := filepath.Join(o4h.StateDir(), "ss-"+tag)
	os.RemoveAll(d)
	os.MkdirAll(d, 0o700)
	return d
}

func factory(dir string) (base.ClientFactory, error) {
	return (&scramblesuit.Transport{}).ClientFactory(dir)
}

// sharedParsed, when non-nil, makes dial parse the bridge arguments once per
// factory and use the same parsed object for every later Dial (what a caller
// that keeps a bridge's parsed arguments around does); nil: parse per dial
// (what obfs4proxy's SOCKS handler does).
var sharedParsed map[base.ClientFactory]any

func dial(cf base.ClientFactory, args *pt.Args, w *wire.Conn) (net.Conn, error) {
	var pa any
	var err error
	if sharedParsed != nil && sharedParsed[cf] != nil {
		pa = sharedParsed[cf]
	} else {
		pa, err = cf.ParseArgs(args)
		if err != nil {
			return nil, fmt.Errorf("ParseArgs: %w", err)
		}
		if sharedParsed != nil {
			sharedParsed[cf] = pa
		}
	}
	return cf.Dial("tcp", dialAddr, func(string, string) (net.Conn, error) { return w, nil }, pa)
}

// dialAddr is the bridge address of the next dial (the ticket store is keyed by it).
var dialAddr = defaultDialAddr

const defaultDialAddr = "192.0.2.7:443"

func hour() int64 { return sched.Cur().Now().Unix() / 3600 }

type sessResult struct {
	dialErr, srvErr, rdErr, wrErr error
	got                           []byte
	rs                            *ref.SSSession
	panics                        []string
	quiescent                     bool
	blocked                       []sched.Blocked
	reads                         []int
}

type sessOpts struct {
	so       ref.SSServerOpts
	chunker  func(*wire.Conn, int, int) []int
	clientW  []int
	serverW  []int // sent after the handshake in separate writes
	secret   []byte
	rbuf     int
	cf       base.ClientFactory
	keepOpen bool
	marks    bool
	// endStream: the server closes right after its last write (the property
	// promises an error for a modified packet given the stream continues or ends)
	endStream bool
}

func total(xs []int) int {
	t := 0
	for _, x := range xs {
		t += x
	}
	return t
}

// session runs one connection (inside or outside an existing scheduler run).
func sessionBody(so sessOpts, refRnd *rnd.Stream, r *sessResult) {
	s := sched.Cur()
	cw, sw := wire.Pipe("client", "server")
	if dialAddr != defaultDialAddr {
		// (the ticket store is keyed by the address of the connection the dial function returns)
		if ta, err := net.ResolveTCPAddr("tcp", dialAddr); err == nil {
			cw.Remote = ta
		}
	}
	cw.Chunker = so.chunker
	wantC := o4h.Pattern('S', 0, len(so.so.Data)+total(so.serverW))
	wantS := o4h.Pattern('C', 0, total(so.clientW))
	if so.so.Data != nil {
		so.so.Data = wantC[:len(so.so.Data)]
	}
	so.so.Hour = hour()
	so.so.Now = s.Now().Unix()
	if so.so.KB == nil {
		so.so.KB = kB
	}
	if so.so.Priv == nil {
		so.so.Priv = refRnd.Bytes(192)
	}
	done := false
	s.Spawn("ref-server", func() {
		defer func() { done = true }()
		rs, err := ref.SSServe(sw, so.so, refRnd)
		r.rs = rs
		if err != nil {
			r.srvErr = err
			buf := make([]byte, 4096)
			for {
				if _, e := sw.Read(buf); e != nil {
					break
				}
			}
			sw.Close()
			return
		}
		if so.marks {
			for _, e := range rs.PktEnds {
				sw.Mark(e)
				sw.Mark(e + 16)
				sw.Mark(e + 21)
			}
		}
		if err := rs.RecvUntil(len(wantS)); err != nil {
			r.srvErr = fmt.Errorf("receiving client payload: %w", err)
			sw.Close()
			return
		}
		off := len(so.so.Data)
		for _, n := range so.serverW {
			base := sw.Out.Total
			rs.Send(wantC[off:off+n], 3)
			if so.marks {
				sw.Mark(base + 16)
				sw.Mark(sw.Out.Total)
			}
			off += n
		}
		if so.endStream {
			sw.Close()
			return
		}
		for {
			if _, err := rs.RecvOnce(); err != nil {
				break
			}
		}
		sw.Close()
	})
	secret := so.secret
	if secret == nil {
		secret = kB
	}
	conn, err := dial(so.cf, clientArgs(secret), cw)
	r.dialErr = err
	if err == nil {
		off := 0
		for _, n := range so.clientW {
			k, err := wire.WriteOwned(conn, wantS[off : off+n])
			if err != nil || k != n {
				r.wrErr = fmt.Errorf("Write(%d) = %d, %v", n, k, err)
				break
			}
			off += n
		}
		rbuf := so.rbuf
		if rbuf == 0 {
			rbuf = 4096
		}
		b := make([]byte, rbuf)
		for r.wrErr == nil && len(r.got) < len(wantC) {
			n, err := conn.Read(b)
			r.got = append(r.got, b[:n]...)
			if err != nil {
				r.rdErr = err
				break
			}
		}
		conn.Close()
	} else {
		cw.Close()
	}
	s.Point("wait-server", func() bool { return done })
	r.reads = cw.ReadSizes
}

func session(c *mc.Ctx, so sessOpts, seed int64, label string) sessResult {
	var r sessResult
	rnd.Install(rnd.New(seed, "c15-real-"+label))
	refRnd := rnd.New(seed, "c15-ref-"+label)
	if so.cf == nil {
		cf, err := factory(freshDir("one"))
		if err != nil {
			r.dialErr = err
			return r
		}
		so.cf = cf
	}
	res := sched.Run(c, sched.Options{NoPreempt: true, NoEarlyTimers: true, Start: start, MaxSteps: 3_000_000}, func() {
		sessionBody(so, refRnd, &r)
	})
	r.panics = res.Panics
	r.quiescent = res.Quiescent
	r.blocked = res.Blocked
	return r
}

func trunc(x []int) []int {
	if len(x) > 30 {
		return x[:30]
	}
	return x
}

func mustWork(c *mc.Ctx, r sessResult, so sessOpts, what, fam string) bool {
	c.Case(fam+"/"+what, fmt.Sprint(r.dialErr != nil, r.srvErr != nil, r.rdErr != nil, len(r.got)))
	if len(r.panics) > 0 {
		fail(c, "no-panic", "panic/"+fam, "%s: %s", what, r.panics[0])
		return false
	}
	if r.dialErr != nil {
		fail(c, "handshake", "dial-fails/"+fam, "%s: Dial failed against a conforming server: %v (client wire reads %v; server: %v)", what, r.dialErr, trunc(r.reads), r.srvErr)
		return false
	}
	if r.srvErr != nil {
		fail(c, "handshake", "server-rejects/"+fam, "%s: the reference server cannot follow the client: %v", what, r.srvErr)
		return false
	}
	if r.wrErr != nil || r.rdErr != nil {
		fail(c, "stream", "io-error/"+fam, "%s: write=%v read=%v after %d bytes (client wire reads %v)", what, r.wrErr, r.rdErr, len(r.got), trunc(r.reads))
		return false
	}
	wantC := o4h.Pattern('S', 0, len(so.so.Data)+total(so.serverW))
	wantS := o4h.Pattern('C', 0, total(so.clientW))
	if !bytes.Equal(r.got, wantC) {
		fail(c, "stream", "stream-in/"+fam, "%s: the client read %d bytes, the server sent %d (quiescent=%v; client wire reads %v)", what, len(r.got), len(wantC), r.quiescent, trunc(r.reads))
		return false
	}
	if !bytes.Equal(r.rs.Payload, wantS) {
		fail(c, "stream", "stream-out/"+fam, "%s: the server decoded %d bytes, the client wrote %d", what, len(r.rs.Payload), len(wantS))
		return false
	}
	for _, p := range r.rs.Packets {
		if p.Len > 1448 {
			fail(c, "stream", "packet-size/"+fam, "%s: packet of %d bytes", what, p.Len)
		}
	}
	return true
}

func mustFail(c *mc.Ctx, r sessResult, what, fam string) {
	c.Case(fam+"/"+what, fmt.Sprint(r.dialErr != nil, r.rdErr != nil, len(r.got)))
	if len(r.panics) > 0 {
		fail(c, "no-panic", "panic/"+fam, "%s: %s", what, r.panics[0])
		return
	}
	if r.dialErr == nil && r.rdErr == nil && r.wrErr == nil {
		fail(c, "must-fail", "accepted/"+fam, "%s: the connection worked (%d bytes delivered)", what, len(r.got))
		return
	}
	if len(r.got) != 0 {
		fail(c, "must-fail", "delivered/"+fam, "%s: %d bytes were delivered", what, len(r.got))
	}
}

func splitAt(cut int) func(*wire.Conn, int, int) []int {
	return func(c *wire.Conn, avail, want int) []int {
		d := cut - int(c.In.Read)
		if d >= 1 && d < avail {
			return []int{d}
		}
		return []int{avail}
	}
}

var sessionPauses = []time.Duration{time.Second, 29 * time.Second, 2 * time.Second, 61 * time.Second, 10 * time.Minute, 25 * time.Hour}

const pblk = 300

func scenarios(cfg *mc.Config, emit func(mc.Scenario)) {
	seed := cfg.Seed
	thorough := cfg.Thorough()
	seed32 := bytes.Repeat([]byte{9}, 32)
	// (1) every two-chunk split of the response
	pads := []int{0, 1, 40, 654, 1307, 1308}
	for _, pad := range pads {
		L := 192 + pad + 32
		const per = 64
		for lo := 1; lo < L; lo += per {
			pad, lo := pad, lo
			hi := lo + per
			if hi > L {
				hi = L
			}
			emit(mc.Scenario{Name: fmt.Sprintf("response-split/pad=%d/cut=%d..%d", pad, lo, hi-1), Weight: 40, Run: func(c *mc.Ctx) {
				for cut := lo; cut < hi; cut++ {
					so := sessOpts{so: ref.SSServerOpts{PadLen: pad, Seed: seed32, Separate: true}, chunker: splitAt(cut), clientW: []int{10}, serverW: []int{5}}
					r := session(c, so, seed, fmt.Sprint("split", pad))
					c.AddExecutions(1)
					region := "Y|P_S"
					switch {
					case cut > L-16:
						region = "MAC_S"
					case cut > L-32:
						region = "M_S"
					case cut == L-32:
						region = "before-M_S"
					}
					if !mustWork(c, r, so, fmt.Sprintf("server padding %d, response split after byte %d of %d (%s)", pad, cut, L, region), "response-split/"+region) {
						continue
					}
				}
				c.Observe("done", hi-lo)
			}})
		}
	}
	if thorough {
		for p0 := 0; p0 <= 1308; p0 += 32 {
			p0 := p0
			emit(mc.Scenario{Name: fmt.Sprintf("response-tail/pad=%d..", p0), Weight: 300, Run: func(c *mc.Ctx) {
				for pad := p0; pad < p0+32 && pad <= 1308; pad++ {
					L := 192 + pad + 32
					for cut := L - 48; cut < L; cut++ {
						so := sessOpts{so: ref.SSServerOpts{PadLen: pad, Seed: seed32, Separate: true}, chunker: splitAt(cut), clientW: []int{10}, serverW: []int{5}}
						r := session(c, so, seed, fmt.Sprint("tail", pad))
						c.AddExecutions(1)
						mustWork(c, r, so, fmt.Sprintf("server padding %d, response split after byte %d of %d", pad, cut, L), "response-tail")
					}
					dr := func(cw *wire.Conn, avail, want int) []int {
						if int(cw.In.Read) >= L-32 && int(cw.In.Read) < L {
							return []int{1}
						}
						d := L - 32 - int(cw.In.Read)
						if d >= 1 && d < avail {
							return []int{d}
						}
						return []int{avail}
					}
					so := sessOpts{so: ref.SSServerOpts{PadLen: pad, Seed: seed32, Separate: true}, chunker: dr, clientW: []int{10}, serverW: []int{5}}
					r := session(c, so, seed, fmt.Sprint("taildribble", pad))
					c.AddExecutions(1)
					mustWork(c, r, so, fmt.Sprintf("server padding %d, trailing 32 bytes one byte per read", pad), "response-tail")
				}
			}})
		}
	}
	// (2) coalescing, write scripts, chunkings at packet boundaries
	emit(mc.Scenario{Name: "streams", Weight: 80, Run: func(c *mc.Ctx) {
		scripts := [][2][]int{{{1}, {1}}, {{0, 1427}, {1428}}, {{5000}, {1, 5000}}, {{1428, 1}, {0, 3}}}
		n := 0
		for _, pad := range []int{0, 33, 1308} {
			for si, sc := range scripts {
				for _, coal := range []int{0, 1, 700} {
					for _, sep := range []bool{false, true} {
						chs := map[string]func(*wire.Conn, int, int) []int{"whole": nil, "pieces1448": func(_ *wire.Conn, avail, _ int) []int {
							if avail > 1448 {
								return []int{1448}
							}
							return []int{avail}
						}, "pieces100": func(_ *wire.Conn, avail, _ int) []int {
							if avail > 100 {
								return []int{100}
							}
							return []int{avail}
						}}
						if pad <= 33 && total(sc[1]) < 2000 {
							chs["dribble"] = wire.Dribble
						}
						for cn, ch := range chs {
							so := sessOpts{so: ref.SSServerOpts{PadLen: pad, Seed: seed32, Issue: bytes.Repeat([]byte{7}, 144), Separate: sep}, chunker: ch, clientW: sc[0], serverW: sc[1], rbuf: 1000}
							if coal > 0 {
								so.so.Data = make([]byte, coal)
							}
							// data coalesced with the handshake is only guaranteed to be
							// delivered once more traffic follows: every script sends more
							r := session(c, so, seed, fmt.Sprint("streams", pad, si))
							c.AddExecutions(1)
							mustWork(c, r, so, fmt.Sprintf("pad %d script %d coalesced-data %d separate=%v %s", pad, si, coal, sep, cn), "streams")
							n++
							if c.Failed() {
								return
							}
						}
					}
				}
			}
		}
		c.Count("stream_cases", int64(n))
		c.Observe("n", n)
	}})
	// packet-boundary splits under the explorer (deviation-bounded choices)
	emit(mc.Scenario{Name: "packet-boundary-splits", Bound: 2, Weight: 300, Run: func(c *mc.Ctx) {
		so := sessOpts{so: ref.SSServerOpts{PadLen: 5, Seed: seed32, Issue: bytes.Repeat([]byte{7}, 144), Data: make([]byte, 50)}, chunker: wire.ChunkMarks, clientW: []int{10}, serverW: []int{1, 1500}, rbuf: 700, marks: true}
		r := session(c, so, seed, "pbs")
		c.Observe("reads", fmt.Sprint(trunc(r.reads)))
		mustWork(c, r, so, "packet boundary splits", "packet-splits")
	}})
	// (3) single-bit modifications
	emit(mc.Scenario{Name: "tamper/response", Weight: 100, Run: func(c *mc.Ctx) {
		const pad = 3
		L := 192 + pad + 32
		n := 0
		for i := 0; i < L; i++ {
			bits := []uint{0, 7}
			if thorough || i >= 192 {
				bits = []uint{0, 1, 2, 3, 4, 5, 6, 7}
			}
			if !thorough && i < 192 && i%8 != 0 {
				continue
			}
			for _, b := range bits {
				i, b := i, b
				so := sessOpts{so: ref.SSServerOpts{PadLen: pad, Seed: seed32, MutateResp: func(p []byte) []byte { p[i] ^= 1 << b; return p }}, clientW: []int{10}, serverW: []int{5}}
				r := session(c, so, seed, "tamper-resp")
				c.AddExecutions(1)
				mustFail(c, r, fmt.Sprintf("response byte %d bit %d flipped", i, b), "tamper-response")
				n++
			}
		}
		c.Count("tamper_response_cases", int64(n))
		c.Observe("n", n)
	}})
	emit(mc.Scenario{Name: "tamper/packets", Weight: 100, Run: func(c *mc.Ctx) {
		n := 0
		// packets behind the response: ticket(21+144) | seed(21+32) | data(21+20+7)
		plen := 21 + 144 + 21 + 32 + 21 + 20 + 7
		for i := 0; i < plen; i++ {
			if !thorough && i >= 40 && i < 21+144 {
				continue
			}
			for b := uint(0); b < 8; b++ {
				if !thorough && b != 0 && b != 7 && i%3 != 0 {
					continue
				}
				i, b := i, b
				so := sessOpts{so: ref.SSServerOpts{PadLen: 2, Seed: seed32, Issue: bytes.Repeat([]byte{7}, 144), Data: make([]byte, 20), Separate: true,
					MutatePackets: func(p []byte) []byte { p[i] ^= 1 << b; return p }}, clientW: []int{10}, serverW: []int{5, 3000}, endStream: true}
				r := session(c, so, seed, "tamper-pkt")
				c.AddExecutions(1)
				what := fmt.Sprintf("post-handshake byte %d bit %d flipped", i, b)
				if len(r.panics) > 0 {
					fail(c, "no-panic", "panic/tamper-packets", "%s: %s", what, r.panics[0])
					continue
				}
				// the error must be reported and no altered data may be delivered:
				// delivered bytes must be a prefix of what the server sent
				want := o4h.Pattern('S', 0, 20+5+3000)
				if !bytes.HasPrefix(want, r.got) {
					fail(c, "tamper", "altered-data/tamper-packets", "%s: delivered bytes differ from what the server sent", what)
				}
				if r.rdErr == nil && r.dialErr == nil {
					fail(c, "tamper", "no-error/tamper-packets", "%s: no error was reported (delivered %d bytes)", what, len(r.got))
				}
				if i >= 21+144+21+32 && len(r.got) != 0 {
					fail(c, "tamper", "altered-data/tamper-packets", "%s: the damaged data packet was delivered (%d bytes)", what, len(r.got))
				}
				n++
			}
		}
		c.Count("tamper_packet_cases", int64(n))
		c.Observe("n", n)
	}})
	// (4) wrong shared secret
	emit(mc.Scenario{Name: "wrong-secret", Weight: 10, Run: func(c *mc.Ctx) {
		other := bytes.Repeat([]byte{0x43}, 20)
		so := sessOpts{so: ref.SSServerOpts{PadLen: 2, Seed: seed32}, secret: other, clientW: []int{10}, serverW: []int{5}}
		r := session(c, so, seed, "ws1")
		mustFail(c, r, "client configured with a different password", "wrong-secret")
		so = sessOpts{so: ref.SSServerOpts{PadLen: 2, Seed: seed32, KB: other, MutateResp: nil}, clientW: []int{10}, serverW: []int{5}}
		r = session(c, so, seed, "ws2")
		mustFail(c, r, "server holding a different password", "wrong-secret")
		c.AddExecutions(2)
		c.Observe("done", 2)
	}})
	// concurrent Dials from one factory that holds a ticket
	emit(mc.Scenario{Name: "tickets/concurrent-dials", Bound: 2, Weight: 300, Run: func(c *mc.Ctx) {
		dir := freshDir("conc")
		rnd.Install(rnd.New(seed, "c15-real-conc"))
		refRnd := rnd.New(seed, "c15-ref-conc")
		cf, err := factory(dir)
		if err != nil {
			fail(c, "startup", "startup/factory", "%v", err)
			return
		}
		newT := rnd.New(seed, "c15-conc-ticket").Bytes(144)
		tickets := map[string][]byte{}
		used := map[string]int{}
		var errs []string
		res := sched.Run(c, sched.Options{PreemptKinds: []string{"write", "read"}, NoEarlyTimers: true, Start: start, MaxSteps: 3_000_000}, func() {
			s := sched.Cur()
			// first connection: the server issues a ticket
			var r sessResult
			so := sessOpts{so: ref.SSServerOpts{PadLen: 7, Seed: seed32, Issue: newT, Tickets: tickets, Separate: true}, cf: cf, clientW: []int{10}, serverW: []int{5}}
			sessionBody(so, refRnd, &r)
			if r.dialErr != nil || r.srvErr != nil {
				errs = append(errs, fmt.Sprint("first connection: ", r.dialErr, r.srvErr))
				return
			}
			tickets[string(newT[32:])] = newT[:32]
			// two overlapping Dials
			finished := 0
			for i := 0; i < 2; i++ {
				i := i
				s.Spawn(fmt.Sprintf("dialer%d", i), func() {
					defer func() { finished++ }()
					cw, sw := wire.Pipe(fmt.Sprintf("client%d", i), fmt.Sprintf("server%d", i))
					sdone := false
					s.Spawn(fmt.Sprintf("ref-server%d", i), func() {
						defer func() { sdone = true }()
						rs, err := ref.SSServe(sw, ref.SSServerOpts{KB: kB, Priv: rnd.New(seed, fmt.Sprint("c15-conc-priv-", i)).Bytes(192), PadLen: 7, Hour: hour(), Tickets: tickets, Separate: true}, rnd.New(seed, fmt.Sprint("c15-conc-srv-", i)))
						if err != nil {
							errs = append(errs, fmt.Sprintf("server %d: %v", i, err))
							sw.Close()
							return
						}
						if rs.Kind == "ticket" {
							used[rs.Ticket]++
						}
						if err := rs.RecvUntil(4); err == nil {
							rs.Send([]byte("pong"), 0)
						}
						for {
							if _, err := rs.RecvOnce(); err != nil {
								break
							}
						}
						sw.Close()
					})
					conn, err := dial(cf, clientArgs(kB), cw)
					if err != nil {
						errs = append(errs, fmt.Sprintf("dial %d: %v", i, err))
						cw.Close()
					} else {
						wire.WriteOwned(conn, []byte("ping"))
						buf := make([]byte, 8)
						got := 0
						for got < 4 {
							n, err := conn.Read(buf)
							got += n
							if err != nil {
								errs = append(errs, fmt.Sprintf("read %d: %v", i, err))
								break
							}
						}
						conn.Close()
					}
					s.Point("wait-server", func() bool { return sdone })
				})
			}
			s.Point("join", func() bool { return finished == 2 })
		})
		if len(res.Panics) > 0 {
			fail(c, "no-panic", "panic/concurrent-dials", "%s", res.Panics[0])
			return
		}
		c.Observe("used", fmt.Sprint(used, len(errs)))
		if len(errs) > 0 {
			fail(c, "handshake", "concurrent-dials/error", "%v", errs)
			return
		}
		if res.Quiescent || res.Livelock {
			fail(c, "handshake", "concurrent-dials/stuck", "%+v", res.Blocked)
			return
		}
		for _, n := range used {
			if n > 1 {
				fail(c, "one-shot", "ticket-reused/concurrent", "two overlapping Dials presented the same ticket (%d handshakes)", n)
			}
		}
	}})
	// two Dials of one process, interleaved at every statement of the handshake
	// and packet functions: connections share no state.  Both server responses
	// are on the wire before either client parses (a barrier in front of the
	// reference servers' first write), so one preemption overlaps two calls of
	// the same function.
	emit(mc.Scenario{Name: "two-dials-stmt", Bound: 1, Weight: 300, Run: func(c *mc.Ctx) {
		dir := freshDir("two")
		rnd.Install(rnd.New(seed, "c15-real-two"))
		cf, err := factory(dir)
		if err != nil {
			fail(c, "startup", "startup/factory", "%v", err)
			return
		}
		type dl struct {
			err   error
			echo  []byte
			sgot  []byte
			sdone bool
			done  bool
		}
		ds := []*dl{{}, {}}
		arrived := 0
		res := sched.Run(c, sched.Options{PreemptKinds: []string{"stmt"}, NoEarlyTimers: true, Start: start, MaxSteps: 3_000_000}, func() {
			s := sched.Cur()
			for i := range ds {
				i := i
				d := ds[i]
				cw, sw := wire.Pipe(fmt.Sprintf("client%d", i), fmt.Sprintf("server%d", i))
				s.Spawn(fmt.Sprintf("ref-server%d", i), func() {
					defer func() { d.sdone = true }()
					bc := &barrierConn{Conn: sw, before: func() {
						arrived++
						s.Point("both-requests", func() bool { return arrived >= len(ds) })
					}}
					rs, err := ref.SSServe(bc, ref.SSServerOpts{KB: kB, Priv: rnd.New(seed, fmt.Sprint("c15-two-priv-", i)).Bytes(192), PadLen: 5 + i, Hour: hour(), Separate: true}, rnd.New(seed, fmt.Sprint("c15-two-srv-", i)))
					if err != nil {
						d.err = fmt.Errorf("reference server: %w", err)
						sw.Close()
						return
					}
					if err := rs.RecvUntil(10); err == nil {
						d.sgot = append([]byte{}, rs.Payload...)
						rs.Send([]byte(fmt.Sprintf("pong%d", i)), 3)
					}
					for {
						if _, err := rs.RecvOnce(); err != nil {
							break
						}
					}
					sw.Close()
				})
				s.Spawn(fmt.Sprintf("dialer%d", i), func() {
					defer func() { d.done = true }()
					conn, err := dial(cf, clientArgs(kB), cw)
					if err != nil {
						d.err = fmt.Errorf("Dial: %w", err)
						cw.Close()
						return
					}
					if _, err := wire.WriteOwned(conn, []byte(fmt.Sprintf("ping-%04d!", i))); err != nil {
						d.err = fmt.Errorf("Write: %w", err)
					}
					buf := make([]byte, 8)
					for len(d.echo) < 5 && d.err == nil {
						n, err := conn.Read(buf)
						d.echo = append(d.echo, buf[:n]...)
						if err != nil {
							d.err = fmt.Errorf("Read: %w", err)
						}
					}
					conn.Close()
				})
			}
			s.Point("join", func() bool { return ds[0].done && ds[1].done && ds[0].sdone && ds[1].sdone })
		})
		if len(res.Panics) > 0 {
			fail(c, "no-panic", "panic/two-dials", "%s", res.Panics[0])
			return
		}
		for i, d := range ds {
			if d.err != nil {
				fail(c, "handshake", "two-dials/error", "connection %d: %v (quiescent=%v): connections influence each other", i, d.err, res.Quiescent)
				return
			}
			if string(d.echo) != fmt.Sprintf("pong%d", i) || string(d.sgot) != fmt.Sprintf("ping-%04d!", i) {
				fail(c, "stream", "two-dials/stream", "connection %d: client read %q, server read %q", i, d.echo, d.sgot)
				return
			}
		}
		c.Observe("ok", 2)
	}})
	// boundary coincidences and end-of-stream paths of one connection:
	//   exact-segment/<k>: the server's burst is exactly k maximum packets
	//       (1448 bytes each = the client's per-read buffer), then silence;
	//   close-with-data/<end>: the server writes and ends; its last bytes
	//       arrive in the same Read as the end of the stream
	type edgeT struct {
		kind string
		arg  int
	}
	for _, e := range []edgeT{{"exact-segment", 1}, {"exact-segment", 2}, {"exact-segment", 16}, {"exact-segment", 17}, {"close-with-data", 0}, {"close-with-data", 1}, {"paused-session", 0}, {"paused-session", 1}} {
		e := e
		emit(mc.Scenario{Name: fmt.Sprintf("edge/%s/%d", e.kind, e.arg), Weight: 20, Run: func(c *mc.Ctx) {
			dir := freshDir("edge")
			rnd.Install(rnd.New(seed, "c15-real-edge"))
			cf, err := factory(dir)
			if err != nil {
				fail(c, "startup", "startup/factory", "%v", err)
				return
			}
			var inbound, outbound, got, srvGot []byte
			var dialErr, srvErr, rdErr, wrErr error
			finished, srvDone := false, false
			pausedRound := 0
			res := sched.Run(c, sched.Options{NoPreempt: true, NoEarlyTimers: true, Start: start, MaxSteps: 3_000_000}, func() {
				s := sched.Cur()
				cw, sw := wire.Pipe("client", "server")
				if e.kind == "exact-segment" {
					inbound = o4h.Pattern('I', 0, e.arg*1427)
				} else if e.kind == "paused-session" {
					inbound, outbound = o4h.Pattern('I', 0, pblk*len(sessionPauses)), o4h.Pattern('O', 0, pblk*len(sessionPauses))
				} else {
					inbound = o4h.Pattern('I', 0, 100+2*1427)
				}
				s.Spawn("ref-server", func() {
					rs, err := ref.SSServe(sw, ref.SSServerOpts{KB: kB, Priv: rnd.New(seed, "c15-edge-priv").Bytes(192), PadLen: 11, Hour: hour(), Separate: true}, rnd.New(seed, "c15-edge-srv"))
					if err != nil {
						srvErr = err
						sw.Close()
						return
					}
					if e.kind == "exact-segment" {
						rs.Send(inbound, 0)
						return // silence
					}
					if e.kind == "paused-session" {
						// rounds of traffic in both directions separated by idle
						// periods longer than every handshake timeout; arg 0: the
						// client pauses before it writes, arg 1: the server pauses
						// while the client waits in Read
						defer func() { srvGot, srvDone = rs.Payload, true }()
						for r := range sessionPauses {
							if rs.RecvUntil((r+1)*pblk) != nil {
								return
							}
							if e.arg == 1 {
								sched.Sleep(sessionPauses[r])
							}
							rs.Send(inbound[r*pblk:(r+1)*pblk], 0)
						}
						return
					}
					rs.Send(inbound[:100], 7)
					rs.Send(inbound[100:], 0)
					if e.arg == 0 {
						sw.CloseWrite()
					} else {
						sw.Out.Err = errors.New("connection reset by peer")
					}
				})
				conn, err := dial(cf, clientArgs(kB), cw)
				if err != nil {
					dialErr = err
					return
				}
				if e.kind == "close-with-data" {
					cw.CoalesceEnd = true
				}
				if e.kind == "paused-session" {
					rb := make([]byte, pblk)
					for r := range sessionPauses {
						if e.arg == 0 {
							sched.Sleep(sessionPauses[r])
						}
						pausedRound = r
						if _, wrErr = wire.WriteOwned(conn, outbound[r*pblk : (r+1)*pblk]); wrErr != nil {
							return
						}
						n, err := io.ReadFull(conn, rb)
						got = append(got, rb[:n]...)
						if err != nil {
							rdErr = err
							return
						}
					}
					s.Point("server-done", func() bool { return srvDone })
					finished = true
					return
				}
				b := make([]byte, 4096)
				for {
					n, err := conn.Read(b)
					got = append(got, b[:n]...)
					if err != nil {
						rdErr = err
						break
					}
					if e.kind == "exact-segment" && len(got) >= len(inbound) {
						break
					}
				}
				finished = true
			})
			if len(res.Panics) > 0 {
				fail(c, "no-panic", "panic/edge", "%s", res.Panics[0])
				return
			}
			if dialErr != nil || srvErr != nil {
				fail(c, "handshake", "dial-fails/edge", "Dial=%v server=%v", dialErr, srvErr)
				return
			}
			c.Observe("out", fmt.Sprintf("got=%d rd=%v finished=%v", len(got), rdErr, finished))
			if !bytes.HasPrefix(inbound, got) {
				fail(c, "stream", "edge/altered", "delivered bytes are not a prefix of what the server wrote")
				return
			}
			if e.kind == "paused-session" {
				var sofar time.Duration
				for r := 0; r <= pausedRound; r++ {
					sofar += sessionPauses[r]
				}
				who := []string{"the client", "the server"}[e.arg]
				if wrErr != nil {
					fail(c, "stream", "edge/paused-session/write", "established connection, %s idle for %v (%v of pauses since the handshake): Write failed with %v", who, sessionPauses[pausedRound], sofar, wrErr)
				} else if rdErr != nil {
					fail(c, "stream", "edge/paused-session/read", "established connection, %s idle for %v (%v of pauses since the handshake): Read failed with %v", who, sessionPauses[pausedRound], sofar, rdErr)
				} else if !finished || !bytes.Equal(got, inbound) {
					fail(c, "stream", "edge/paused-session/inbound", "over a session with pauses the server wrote %d bytes, the client delivered %d (finished=%v, blocked %+v)", len(inbound), len(got), finished, res.Blocked)
				} else if !bytes.Equal(srvGot, outbound) {
					fail(c, "stream", "edge/paused-session/outbound", "over a session with pauses the client wrote %d bytes, the server decoded %d", len(outbound), len(srvGot))
				}
			} else if e.kind == "exact-segment" {
				if !finished || len(got) != len(inbound) {
					fail(c, "stream", "edge/exact-segment/stuck", "the server wrote %d bytes as exactly %d maximum packets (%d bytes on the wire) and went silent: the client delivered %d (read error %v; blocked %+v)", len(inbound), e.arg, e.arg*1448, len(got), rdErr, res.Blocked)
				}
			} else if len(got) != len(inbound) {
				fail(c, "stream", "edge/close-with-data/lost", "the server wrote %d bytes and ended, its last bytes arriving together with the end of the stream: the client delivered only %d (then %v)", len(inbound), len(got), rdErr)
			} else if rdErr == nil {
				fail(c, "stream", "edge/close-with-data/no-end", "the stream ended but Read never reported it")
			}
		}})
	}
	// (5) histories
	depth := 4
	if thorough {
		depth = 5
	}
	for d := 1; d <= depth; d++ {
		emit(historyScenario(d, seed, false))
		if d == 1 {
			for _, order := range []string{"AB", "BA"} {
				for _, restart := range []bool{false, true} {
					emit(twoBridges(seed, order, restart))
				}
			}
		}
		if d >= 2 && (thorough || d <= 3) {
			emit(historyScenario(d, seed, true))
		}
	}
}

// barrierConn runs `before` in front of the first Write.
type barrierConn struct {
	net.Conn
	before func()
	done   bool
}

func (b *barrierConn) Write(p []byte) (int, error) {
	if !b.done {
		b.done = true
		b.before()
	}
	return b.Conn.Write(p)
}

// ---- histories -------------------------------------------------------------------------

var histOps = []string{"connect", "connect+issue", "restart", "advance-1h", "advance-7d+1s", "delete-ticket-file", "connect-write-error"}

func historyScenario(depth int, seed int64, shareArgs bool) mc.Scenario {
	name := fmt.Sprintf("histories/depth=%d", depth)
	if shareArgs {
		name = fmt.Sprintf("histories-one-parsed-args/depth=%d", depth)
	}
	return mc.Scenario{Name: name, Params: map[string]any{"depth": depth, "ops": histOps, "parsed_args_reused_across_dials": shareArgs}, Weight: 200 * depth, Run: func(c *mc.Ctx) {
		sharedParsed = nil
		if shareArgs {
			sharedParsed = map[base.ClientFactory]any{}
		}
		defer func() { sharedParsed = nil }()
		dir := freshDir("hist")
		rnd.Install(rnd.New(seed, "c15-real-hist"))
		refRnd := rnd.New(seed, "c15-ref-hist")
		cf, err := factory(dir)
		if err != nil {
			fail(c, "startup", "startup/factory", "ClientFactory on an empty directory: %v", err)
			return
		}
		tickets := map[string][]byte{} // issued ticket -> master key
		issuedAt := map[string]int64{} // server-side issue time
		used := map[string]int{}       // ticket -> number of ticket handshakes seen
		var clientHas string           // ticket the client should hold ("" none), by the reference model
		var clientHasAt int64
		nIssued := 0
		var hist []string
		stepsDone := 0
		res := sched.Run(c, sched.Options{NoPreempt: true, NoEarlyTimers: true, Start: start, MaxSteps: 5_000_000}, func() {
			s := sched.Cur()
			for step := 0; step < depth; step++ {
				op := histOps[c.ChooseFree("op", len(histOps))]
				hist = append(hist, op)
				switch op {
				case "restart":
					cf, err = factory(dir)
					if err != nil {
						fail(c, "startup", "startup/restart", "history %v: ClientFactory failed: %v", hist, err)
						return
					}
				case "advance-1h":
					s.Advance(time.Hour)
				case "advance-7d+1s":
					s.Advance(7*24*time.Hour + time.Second)
				case "delete-ticket-file":
					os.Remove(filepath.Join(dir, "scramblesuit_tickets.json"))
				case "connect-write-error":
					// the client's handshake write reaches the server but is reported as
					// failed (connection reset right behind it): whatever was presented
					// counts as used
					cw, sw := wire.Pipe("client", "server")
					cw.WriteFaultAfter = func(n int, _ []byte) error {
						if n == 0 {
							return wire.ErrReset
						}
						return nil
					}
					var kind, tk string
					done := false
					s.Spawn("ref-server", func() {
						defer func() { done = true }()
						rs, err := ref.SSServe(sw, ref.SSServerOpts{KB: kB, Priv: refRnd.Bytes(192), PadLen: 7, Hour: hour(), Tickets: tickets, Separate: true}, refRnd)
						if err == nil {
							kind, tk = rs.Kind, rs.Ticket
						}
						sw.Close()
					})
					if conn, err := dial(cf, clientArgs(kB), cw); err == nil {
						conn.Close()
					} else {
						cw.Close()
					}
					s.Point("wait-server", func() bool { return done })
					if kind == "ticket" {
						used[tk]++
						if used[tk] > 1 {
							fail(c, "one-shot", "ticket-reused", "history %v: ticket presented in %d handshakes", hist, used[tk])
							return
						}
					}
					clientHas = ""
				case "connect", "connect+issue":
					var r sessResult
					so := sessOpts{so: ref.SSServerOpts{PadLen: 7, Seed: bytes.Repeat([]byte{9}, 32), Tickets: tickets, IssuedAt: issuedAt, Separate: true}, cf: cf, clientW: []int{10}, serverW: []int{5}}
					var newT []byte
					if op == "connect+issue" {
						nIssued++
						newT = rnd.New(seed, fmt.Sprint("c15-ticket-", nIssued, "-", len(hist))).Bytes(144)
						so.so.Issue = newT
					}
					sessionBody(so, refRnd, &r)
					if len(r.panics) > 0 {
						return
					}
					what := fmt.Sprintf("history %v", hist)
					if !mustWork(c, r, so, what, "history") {
						return
					}
					// which handshake did the server see?
					now := s.Now().Unix()
					expectTicket := clientHas != "" && clientHasAt+7*24*3600 > now
					if r.rs.Kind == "ticket" {
						used[r.rs.Ticket]++
						if used[r.rs.Ticket] > 1 {
							fail(c, "one-shot", "ticket-reused", "%s: ticket presented in %d handshakes", what, used[r.rs.Ticket])
							return
						}
						if issuedAt[r.rs.Ticket]+7*24*3600 <= now {
							fail(c, "expiry", "expired-ticket-used", "%s: a ticket issued %ds ago (lifetime 7 days) was presented", what, now-issuedAt[r.rs.Ticket])
							return
						}
						if !expectTicket || r.rs.Ticket != clientHas {
							fail(c, "one-shot", "unexpected-ticket", "%s: the client presented a ticket the model says it should not hold", what)
							return
						}
					} else if expectTicket {
						// falling back to UniformDH although a valid ticket was held is allowed
						// only if the ticket was lost legitimately; the model tracks deletions
						fail(c, "ticket-use", "ticket-not-used", "%s: the client holds an unexpired ticket but performed a UniformDH handshake", what)
						return
					}
					// a ticket is consumed by any connect
					clientHas = ""
					if newT != nil {
						tickets[string(newT[32:])] = newT[:32]
						issuedAt[string(newT[32:])] = now
						clientHas = string(newT[32:])
						clientHasAt = now
					}
				}
				if op == "delete-ticket-file" {
					// the in-memory store still holds the ticket until a restart;
					// after a restart it is gone
					hist[len(hist)-1] = "delete-ticket-file"
				}
				if op == "restart" {
					// a restart re-reads the file: if the file was deleted the ticket is gone
					if _, err := os.Stat(filepath.Join(dir, "scramblesuit_tickets.json")); err != nil {
						clientHas = ""
					}
				}
				stepsDone = step + 1
			}
		})
		if len(res.Panics) > 0 {
			fail(c, "no-panic", "panic/history", "history %v: %s", hist, res.Panics[0])
		} else if stepsDone < len(hist) && !c.Failed() {
			// the step never came back: every thread is blocked for good
			fail(c, "liveness", "history/stuck/"+hist[len(hist)-1], "history %v: the last step never returned (blocked: %+v)", hist, res.Blocked)
		}
		c.Observe("history", fmt.Sprint(hist, used))
	}}
}

// twoBridges: a client that uses two bridges (own address, own shared secret,
// own ticket table) holds a ticket of each; across a restart each bridge is
// presented its own ticket (or none), never the other bridge's.
func twoBridges(seed int64, order string, restart bool) mc.Scenario {
	name := "two-bridges/" + order
	if restart {
		name += "/restart"
	}
	return mc.Scenario{Name: name, Weight: 50, Run: func(c *mc.Ctx) {
		defer func() { dialAddr = defaultDialAddr }()
		dir := freshDir("two")
		rnd.Install(rnd.New(seed, "c15-real-two"))
		refRnd := rnd.New(seed, "c15-ref-two")
		cf, err := factory(dir)
		if err != nil {
			fail(c, "startup", "startup/factory", "ClientFactory on an empty directory: %v", err)
			return
		}
		type bridge struct {
			addr     string
			kB       []byte
			tickets  map[string][]byte
			issuedAt map[string]int64
			holds    string
		}
		bs := map[byte]*bridge{
			'A': {addr: "192.0.2.77:443", kB: kB, tickets: map[string][]byte{}, issuedAt: map[string]int64{}},
			'B': {addr: "198.51.100.9:9001", kB: bytes.Repeat([]byte{0x37}, 20), tickets: map[string][]byte{}, issuedAt: map[string]int64{}},
		}
		var sum []string
		nIssued := 0
		res := sched.Run(c, sched.Options{NoPreempt: true, NoEarlyTimers: true, Start: start, MaxSteps: 5_000_000}, func() {
			s := sched.Cur()
			connect := func(id byte, phase string) bool {
				b := bs[id]
				dialAddr = b.addr
				nIssued++
				newT := rnd.New(seed, fmt.Sprint("c15-two-ticket-", nIssued)).Bytes(144)
				so := sessOpts{so: ref.SSServerOpts{KB: b.kB, PadLen: 7, Seed: bytes.Repeat([]byte{9}, 32), Tickets: b.tickets, IssuedAt: b.issuedAt, Issue: newT, Separate: true}, cf: cf, secret: b.kB, clientW: []int{10}, serverW: []int{5}}
				var r sessResult
				sessionBody(so, refRnd, &r)
				what := fmt.Sprintf("%s connection to bridge %c (order %s, restart=%v)", phase, id, order, restart)
				if !mustWork(c, r, so, what, "two-bridges") {
					return false
				}
				sum = append(sum, fmt.Sprintf("%c:%s", id, r.rs.Kind))
				if r.rs.Kind == "ticket" && r.rs.Ticket != b.holds {
					fail(c, "tickets", "two-bridges/foreign-ticket", "%s: the client presented a ticket this bridge did not issue to it last", what)
					return false
				}
				if r.rs.Kind != "ticket" && b.holds != "" && !restart {
					fail(c, "ticket-use", "two-bridges/ticket-not-used", "%s: the client holds a fresh ticket of this bridge but performed a UniformDH handshake", what)
					return false
				}
				now := s.Now().Unix()
				b.tickets[string(newT[32:])] = newT[:32]
				b.issuedAt[string(newT[32:])] = now
				b.holds = string(newT[32:])
				return true
			}
			for _, id := range []byte(order) {
				if !connect(id, "first") {
					return
				}
			}
			if restart {
				if cf, err = factory(dir); err != nil {
					fail(c, "startup", "startup/restart", "two bridges: ClientFactory failed: %v", err)
					return
				}
			}
			s.Advance(time.Hour)
			for _, id := range []byte(order) {
				if !connect(id, "later") {
					return
				}
			}
			for i := len(order) - 1; i >= 0; i-- {
				if !connect(order[i], "last") {
					return
				}
			}
		})
		if len(res.Panics) > 0 {
			fail(c, "no-panic", "panic/two-bridges", "%s", res.Panics[0])
		}
		c.Observe("two", fmt.Sprint(sum))
	}}
}

func main() { mc.Main("C15", scenarios) }
