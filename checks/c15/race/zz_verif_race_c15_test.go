//go:build verif

package scramblesuit

// Free-running -race body for C15: concurrent Dials of one client factory (one
// shared ticket store) against the reference server, which issues a fresh
// ticket on every connection.

import (
	crand "crypto/rand"
	"encoding/base32"
	"net"
	"os"
	"strconv"
	"sync"
	"testing"
	"time"

	pt "gitlab.torproject.org/tpo/anti-censorship/pluggable-transports/goptlib"

	"gitlab.com/yawning/obfs4.git/internal/zzverif/ref"
)

type verifLazyConn struct {
	net.Conn
	once sync.Once
	fill func()
}

func (c *verifLazyConn) Read(p []byte) (int, error) {
	n, err := c.Conn.Read(p)
	c.once.Do(c.fill)
	return n, err
}

func TestVerifRaceC15Dials(t *testing.T) {
	iters, _ := strconv.Atoi(os.Getenv("VERIF_RACE_ITERS"))
	if iters < 1 {
		iters = 1
	}
	kB := make([]byte, 20)
	crand.Read(kB)
	cf, err := (&Transport{}).ClientFactory(t.TempDir())
	if err != nil {
		t.Fatal(err)
	}
	args := &pt.Args{}
	args.Add("password", base32.StdEncoding.EncodeToString(kB))
	pa, err := cf.ParseArgs(args)
	if err != nil {
		t.Fatal(err)
	}
	ln, err := net.Listen("tcp", "127.0.0.1:0")
	if err != nil {
		t.Fatal(err)
	}
	defer ln.Close()
	var mu sync.Mutex
	tickets := map[string][]byte{}
	go func() {
		for {
			c, err := ln.Accept()
			if err != nil {
				return
			}
			go func() {
				defer c.Close()
				priv := make([]byte, 192)
				crand.Read(priv)
				issue := make([]byte, 144)
				crand.Read(issue)
				mu.Lock()
				tickets[string(issue[32:])] = issue[:32]
				mu.Unlock()
				// the set of valid tickets is sampled when the client's first
				// bytes have arrived (a ticket it presents was stored before)
				snap := map[string][]byte{}
				lc := &verifLazyConn{Conn: c, fill: func() {
					mu.Lock()
					for k, v := range tickets {
						snap[k] = v
					}
					mu.Unlock()
				}}
				rs, err := ref.SSServe(lc, ref.SSServerOpts{KB: kB, Priv: priv, PadLen: 9, Hour: time.Now().Unix() / 3600, Issue: issue, Tickets: snap, Separate: true}, crand.Reader)
				if err != nil {
					return
				}
				if err := rs.RecvUntil(4); err == nil {
					rs.Send([]byte("pong"), 0)
				}
				for {
					if _, err := rs.RecvOnce(); err != nil {
						return
					}
				}
			}()
		}
	}()
	for it := 0; it < iters; it++ {
		var wg sync.WaitGroup
		for g := 0; g < 6; g++ {
			wg.Add(1)
			go func() {
				defer wg.Done()
				for k := 0; k < 3; k++ {
					c, err := cf.Dial("tcp", ln.Addr().String(), net.Dial, pa)
					if err != nil {
						t.Errorf("Dial: %v", err)
						return
					}
					c.Write([]byte("ping"))
					buf := make([]byte, 8)
					got := 0
					for got < 4 {
						n, err := c.Read(buf)
						got += n
						if err != nil {
							t.Errorf("Read: %v", err)
							break
						}
					}
					c.Close()
				}
			}()
		}
		wg.Wait()
	}
}
