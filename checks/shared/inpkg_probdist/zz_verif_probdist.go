//go:build verif

package probdist

import "gitlab.com/yawning/obfs4.git/internal/zzverif/peek"

// The accessors read the private tables by field name at run time; ok=false
// means the representation is no longer what they know (the harness then
// uses its black-box oracles only).

// VerifValues returns the absolute values of the table.
func VerifValues(w *WeightedDist) []int {
	v, _ := VerifValuesOK(w)
	return v
}

// VerifValuesOK is VerifValues with an availability flag.
func VerifValuesOK(w *WeightedDist) ([]int, bool) {
	defer peek.Lock(w)()
	vals, ok1 := peek.Ints(w, "values")
	min, ok2 := peek.Int(w, "minValue")
	if !ok1 || !ok2 {
		return nil, false
	}
	for i := range vals {
		vals[i] += min
	}
	return vals, true
}

// VerifTables returns copies of the four tables (nil slices when unavailable).
func VerifTables(w *WeightedDist) (values []int, weights []float64, alias []int, prob []float64) {
	defer peek.Lock(w)()
	values, _ = peek.Ints(w, "values")
	weights, _ = peek.Floats(w, "weights")
	alias, _ = peek.Ints(w, "alias")
	prob, _ = peek.Floats(w, "prob")
	return
}

// VerifTablesOK reports whether all four tables could be read.
func VerifTablesOK(w *WeightedDist) bool {
	defer peek.Lock(w)()
	_, a := peek.Ints(w, "values")
	_, b := peek.Floats(w, "weights")
	_, c := peek.Ints(w, "alias")
	_, d := peek.Floats(w, "prob")
	return a && b && c && d
}
