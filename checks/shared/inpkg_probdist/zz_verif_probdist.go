//go:build verif

package probdist

// VerifValues returns the absolute values of the table.
func VerifValues(w *WeightedDist) []int {
	w.Lock()
	defer w.Unlock()
	out := make([]int, len(w.values))
	for i, v := range w.values {
		out[i] = w.minValue + v
	}
	return out
}

// VerifTables returns copies of the four tables.
func VerifTables(w *WeightedDist) (values []int, weights []float64, alias []int, prob []float64) {
	w.Lock()
	defer w.Unlock()
	return append([]int{}, w.values...), append([]float64{}, w.weights...), append([]int{}, w.alias...), append([]float64{}, w.prob...)
}
