//go:build verif

package obfs4

import (
	"gitlab.com/yawning/obfs4.git/common/replayfilter"
	"bytes"
	"net"

	"gitlab.com/yawning/obfs4.git/common/probdist"
	"gitlab.com/yawning/obfs4.git/transports/obfs4/framing"
)

// VerifPadBurst runs the real padding routine on a burst that already holds
// tail bytes, with a real encoder keyed by key, and returns what it appended.
func VerifPadBurst(key []byte, tail, target int) (appended []byte, err error) {
	conn := &obfs4Conn{encoder: framing.NewEncoder(key)}
	var burst bytes.Buffer
	burst.Write(make([]byte, tail))
	err = conn.padBurst(&burst, target)
	return burst.Bytes()[tail:], err
}

// VerifDists returns the value tables (absolute values) of a connection's
// length and IAT distributions.
func VerifDists(c net.Conn) (lenVals, iatVals []int, ok bool) {
	oc, isO := c.(*obfs4Conn)
	if !isO {
		return nil, nil, false
	}
	lenVals = probdist.VerifValues(oc.lenDist)
	if oc.iatDist != nil {
		iatVals = probdist.VerifValues(oc.iatDist)
	}
	return lenVals, iatVals, true
}

// VerifBuffered returns the sizes of the per-connection receive buffers.
func VerifBuffered(c net.Conn) (raw, decoded int, ok bool) {
	oc, isO := c.(*obfs4Conn)
	if !isO {
		return 0, 0, false
	}
	return oc.receiveBuffer.Len(), oc.receiveDecodedBuffer.Len(), true
}

// VerifClientArgs exposes what ParseArgs extracted.
func VerifClientArgs(a any) (nodeID, publicKey []byte, iatMode int, ok bool) {
	ca, isCA := a.(*obfs4ClientArgs)
	if !isCA {
		return nil, nil, 0, false
	}
	return ca.nodeID.Bytes()[:], ca.publicKey.Bytes()[:], ca.iatMode, true
}

// VerifCloseDelay exposes the per-bridge close delay (seconds).
func VerifCloseDelay(sf any) (int, bool) {
	f, isF := sf.(*obfs4ServerFactory)
	if !isF {
		return 0, false
	}
	return f.closeDelay, true
}

// VerifLenDist returns the connection's length distribution object.
func VerifLenDist(c net.Conn) *probdist.WeightedDist {
	if oc, ok := c.(*obfs4Conn); ok {
		return oc.lenDist
	}
	return nil
}

// VerifReplayFilter returns the server factory's replay filter.
func VerifReplayFilter(sf any) *replayfilter.ReplayFilter {
	if f, ok := sf.(*obfs4ServerFactory); ok {
		return f.replayFilter
	}
	return nil
}
