//go:build verif

package obfs4

// Accessors to private state, by field NAME at run time (package peek): they
// keep compiling when private fields or types are renamed; ok=false / nil
// means "unavailable" and the harness falls back to its black-box oracles.

import (
	"bytes"
	"net"

	"gitlab.com/yawning/obfs4.git/common/probdist"
	"gitlab.com/yawning/obfs4.git/common/replayfilter"
	"gitlab.com/yawning/obfs4.git/internal/zzverif/peek"
)

func verifDist(c any, name string) *probdist.WeightedDist {
	v, ok := peek.Iface(c, name)
	if !ok {
		return nil
	}
	d, _ := v.(*probdist.WeightedDist)
	return d
}

// VerifDists returns the value tables (absolute values) of a connection's
// length and IAT distributions.
func VerifDists(c net.Conn) (lenVals, iatVals []int, ok bool) {
	ld := verifDist(c, "lenDist")
	if ld == nil {
		return nil, nil, false
	}
	if lenVals, ok = probdist.VerifValuesOK(ld); !ok {
		return nil, nil, false
	}
	if id := verifDist(c, "iatDist"); id != nil {
		iatVals, _ = probdist.VerifValuesOK(id)
	}
	return lenVals, iatVals, true
}

// VerifBuffered returns the sizes of the per-connection receive buffers.
func VerifBuffered(c net.Conn) (raw, decoded int, ok bool) {
	a, ok1 := peek.Iface(c, "receiveBuffer")
	b, ok2 := peek.Iface(c, "receiveDecodedBuffer")
	ba, isA := a.(*bytes.Buffer)
	bb, isB := b.(*bytes.Buffer)
	if !ok1 || !ok2 || !isA || !isB || ba == nil || bb == nil {
		return 0, 0, false
	}
	return ba.Len(), bb.Len(), true
}

type verifBytes32 interface{ Bytes() *[32]byte }
type verifBytes20 interface{ Bytes() *[20]byte }

// VerifClientArgs exposes what ParseArgs extracted.
func VerifClientArgs(a any) (nodeID, publicKey []byte, iatMode int, ok bool) {
	n, ok1 := peek.Iface(a, "nodeID")
	p, ok2 := peek.Iface(a, "publicKey")
	m, ok3 := peek.Int(a, "iatMode")
	nb, isN := n.(verifBytes20)
	pb, isP := p.(verifBytes32)
	if !ok1 || !ok2 || !ok3 || !isN || !isP {
		return nil, nil, 0, false
	}
	return nb.Bytes()[:], pb.Bytes()[:], m, true
}

// VerifCloseDelay exposes the per-bridge close delay (seconds).
func VerifCloseDelay(sf any) (int, bool) { return peek.Int(sf, "closeDelay") }

// VerifLenDist returns the connection's length distribution object.
func VerifLenDist(c net.Conn) *probdist.WeightedDist { return verifDist(c, "lenDist") }

// VerifReplayFilter returns the server factory's replay filter.
func VerifReplayFilter(sf any) *replayfilter.ReplayFilter {
	v, ok := peek.Iface(sf, "replayFilter")
	if !ok {
		return nil
	}
	f, _ := v.(*replayfilter.ReplayFilter)
	return f
}
