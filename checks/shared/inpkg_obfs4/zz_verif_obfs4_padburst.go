//go:build verif

package obfs4

import (
	"bytes"

	"gitlab.com/yawning/obfs4.git/transports/obfs4/framing"
)

// VerifPadBurstAvailable: this file calls the private padding routine
// directly; when it no longer compiles vcheck swaps in the .stub next to it.
const VerifPadBurstAvailable = true

// VerifPadBurst runs the real padding routine on a burst that already holds
// tail bytes, with a real encoder keyed by key, and returns what it appended.
func VerifPadBurst(key []byte, tail, target int) (appended []byte, err error) {
	conn := &obfs4Conn{encoder: framing.NewEncoder(key)}
	var burst bytes.Buffer
	burst.Write(make([]byte, tail))
	err = conn.padBurst(&burst, target)
	return burst.Bytes()[tail:], err
}
