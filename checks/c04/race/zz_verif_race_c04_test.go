//go:build verif

package obfs4

// Free-running -race body for C04: concurrent client handshakes (fresh and
// replayed) against one server factory, i.e. one shared replay filter.

import (
	"net"
	"os"
	"strconv"
	"sync"
	"testing"
	"time"

	pt "gitlab.torproject.org/tpo/anti-censorship/pluggable-transports/goptlib"
)

type verifRecConn struct {
	net.Conn
	mu    sync.Mutex
	first []byte
}

func (c *verifRecConn) Write(b []byte) (int, error) {
	c.mu.Lock()
	if c.first == nil {
		c.first = append([]byte{}, b...)
	}
	c.mu.Unlock()
	return c.Conn.Write(b)
}

func TestVerifRaceC04Handshakes(t *testing.T) {
	iters, _ := strconv.Atoi(os.Getenv("VERIF_RACE_ITERS"))
	if iters < 1 {
		iters = 1
	}
	sf, err := (&Transport{}).ServerFactory(t.TempDir(), &pt.Args{})
	if err != nil {
		t.Fatalf("ServerFactory: %v", err)
	}
	cf, _ := (&Transport{}).ClientFactory(t.TempDir())
	pa, err := cf.ParseArgs(sf.Args())
	if err != nil {
		t.Fatalf("ParseArgs: %v", err)
	}
	ln, err := net.Listen("tcp", "127.0.0.1:0")
	if err != nil {
		t.Fatalf("listen: %v", err)
	}
	defer ln.Close()
	go func() {
		for {
			raw, err := ln.Accept()
			if err != nil {
				return
			}
			go func() {
				c, err := sf.WrapConn(raw)
				if err != nil {
					raw.Close()
					return
				}
				defer c.Close()
				buf := make([]byte, 64)
				for {
					n, err := c.Read(buf)
					if n > 0 {
						if _, werr := c.Write(buf[:n]); werr != nil {
							return
						}
					}
					if err != nil {
						return
					}
				}
			}()
		}
	}()
	for it := 0; it < iters; it++ {
		var wg sync.WaitGroup
		for g := 0; g < 8; g++ {
			wg.Add(1)
			go func() {
				defer wg.Done()
				var rec *verifRecConn
				dialFn := func(network, addr string) (net.Conn, error) {
					c, err := net.Dial(network, addr)
					if err != nil {
						return nil, err
					}
					rec = &verifRecConn{Conn: c}
					return rec, nil
				}
				c, err := cf.Dial("tcp", ln.Addr().String(), dialFn, pa)
				if err != nil {
					t.Errorf("Dial: %v", err)
					return
				}
				c.Write([]byte("ping"))
				buf := make([]byte, 8)
				c.Read(buf)
				c.Close()
				// two concurrent replays of the recorded first flight
				rec.mu.Lock()
				blob := rec.first
				rec.mu.Unlock()
				var rwg sync.WaitGroup
				for r := 0; r < 2; r++ {
					rwg.Add(1)
					go func() {
						defer rwg.Done()
						rc, err := net.Dial("tcp", ln.Addr().String())
						if err != nil {
							return
						}
						defer rc.Close()
						rc.Write(blob)
						rc.SetReadDeadline(time.Now().Add(300 * time.Millisecond))
						rc.Read(make([]byte, 4096))
					}()
				}
				rwg.Wait()
			}()
		}
		wg.Wait()
	}
}
