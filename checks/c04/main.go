//go:build verif

// C04: obfs4 accepts each client handshake once, within +-1 hour of the server clock.
package main

import (
	"bytes"
	"encoding/binary"
	"fmt"
	"time"

	"gitlab.com/yawning/obfs4.git/internal/zzverif/mc"
	"gitlab.com/yawning/obfs4.git/internal/zzverif/o4h"
	"gitlab.com/yawning/obfs4.git/internal/zzverif/ref"
	"gitlab.com/yawning/obfs4.git/internal/zzverif/rnd"
	"gitlab.com/yawning/obfs4.git/internal/zzverif/sched"
	"gitlab.com/yawning/obfs4.git/internal/zzverif/wire"
	"gitlab.com/yawning/obfs4.git/transports/base"
	"gitlab.com/yawning/obfs4.git/transports/obfs4"
)

func fail(c *mc.Ctx, oracle, key, format string, a ...any) {
	c.Fail(oracle, "C04/"+key, format, a...)
}

var start = time.Unix(1_700_000_000, 0).Truncate(time.Hour).Add(13 * time.Minute)

type blob struct {
	bytes    []byte
	eph      *ref.Ephemeral
	hour     int64 // absolute epoch hour the client stamped
	accepted bool  // accepted before (reference model state)
	label    string
}

type verdict struct {
	accepted bool   // WrapConn succeeded
	respOK   bool   // the response verified under the client's hour and AUTH matched
	wrote    int64  // bytes the server wrote
	detail   string // why the response did not verify
}

// submit sends b on a fresh connection to sf and reports what happened.  It
// must be called from a scheduled thread.
func submit(sf base.ServerFactory, br *o4h.Bridge, b *blob, tag string) verdict {
	return submitT(sf, br, b, tag, false)
}

// traffic: an accepted connection is used before it is closed -- the client
// sends exactly as many bytes again as its handshake had (the server reads them into
// the buffers the handshake was parsed from).
var trafficSeen int64

func submitT(sf base.ServerFactory, br *o4h.Bridge, b *blob, tag string, traffic bool) verdict {
	var v verdict
	s := sched.Cur()
	cw, sw := wire.Pipe("client"+tag, "server"+tag)
	done := false
	s.Spawn("server"+tag, func() {
		conn, err := sf.WrapConn(sw)
		v.accepted = err == nil
		if err == nil {
			if traffic {
				// (the bytes are not valid frames: Read consumes them and fails)
				tmp := make([]byte, 4096)
				for {
					if _, rerr := conn.Read(tmp); rerr != nil {
						break
					}
				}
				trafficSeen += sw.In.Read
			}
			conn.Close()
		}
		done = true
	})
	cw.Write(b.bytes)
	// wait (at most 1s of model time) for an answer
	cw.SetReadDeadline(s.Now().Add(time.Second))
	var buf []byte
	tmp := make([]byte, 16384)
	for {
		n, err := cw.Read(tmp)
		buf = append(buf, tmp[:n]...)
		if n > 0 {
			used, yrepr, auth, perr := ref.ParseServerHello(br.ID.Pub[:], br.ID.NodeID[:], buf, b.hour)
			if perr == nil {
				Y := ref.ReprToPub(yrepr)
				ok, _, myAuth := ref.NtorClient(b.eph.Priv[:], b.eph.Pub[:], Y, br.ID.Pub[:], br.ID.NodeID[:])
				v.respOK = ok && bytes.Equal(myAuth, auth)
				if !v.respOK {
					v.detail = "AUTH mismatch"
				}
				_ = used
				if traffic {
					junk := make([]byte, len(b.bytes)) // (no longer: the buffer the handshake sat in is reused as it is)
					for i := range junk {
						junk[i] = byte(i*13 + 5)
					}
					cw.Write(junk)
					cw.CloseWrite()
					cw.SetReadDeadline(time.Time{})
					for {
						if _, rerr := cw.Read(tmp); rerr != nil {
							break
						}
					}
				}
				break
			}
			if perr != ref.ErrNeedMore {
				v.detail = perr.Error()
				break
			}
		}
		if err != nil {
			if len(buf) > 0 && v.detail == "" {
				v.detail = fmt.Sprintf("response of %d bytes never verified under the client's hour %d: %v", len(buf), b.hour, err)
			}
			break
		}
	}
	cw.Close()
	// let the server side finish (it closes at once when the peer has left)
	s.Point("wait-server"+tag, func() bool { return done })
	v.wrote = sw.Out.Total
	return v
}

func newBlob(br *o4h.Bridge, r *rnd.Stream, hourDelta int64, label string) *blob {
	o := o4h.ClientOpts{PadLen: 80, HourDelta: hourDelta}
	bs := o4h.HelloOf(br.ID.Pub[:], br.ID.NodeID[:], &o, r)
	return &blob{bytes: bs, eph: o.Eph, hour: o4h.Hour() + hourDelta, label: label}
}

func check(c *mc.Ctx, b *blob, v verdict, what string, now time.Time) {
	serverHour := now.Unix() / 3600
	inWindow := b.hour >= serverHour-1 && b.hour <= serverHour+1
	want := inWindow && !b.accepted
	switch {
	case v.accepted && !want && b.accepted:
		fail(c, "once", "replay-accepted", "%s: a handshake that was already accepted was accepted again (stamped hour %+d relative to the server)", what, b.hour-serverHour)
	case v.accepted && !want:
		fail(c, "hour-window", fmt.Sprintf("hour-accepted/%+d", b.hour-serverHour), "%s: handshake stamped %+d hours from the server clock was accepted", what, b.hour-serverHour)
	case !v.accepted && want:
		fail(c, "hour-window", fmt.Sprintf("fresh-rejected/%+d", b.hour-serverHour), "%s: fresh handshake stamped %+d hours from the server clock was rejected", what, b.hour-serverHour)
	}
	if v.accepted {
		b.accepted = true
		if !v.respOK {
			fail(c, "reply-hour", fmt.Sprintf("reply-hour/%+d", b.hour-serverHour), "%s: accepted, but the reply does not verify with the hour the client used (%+d): %s", what, b.hour-serverHour, v.detail)
		}
	} else if v.wrote != 0 {
		fail(c, "silent", "rejected-not-silent", "%s: rejected, but the server wrote %d bytes", what, v.wrote)
	}
}

var advances = []time.Duration{59 * time.Minute, time.Hour, 2 * time.Hour, 3*time.Hour + time.Second}

func historyScenario(depth int, seed int64) mc.Scenario { return historyScenarioT(depth, seed, false) }

func historyScenarioT(depth int, seed int64, traffic bool) mc.Scenario {
	name := "histories"
	if traffic {
		name = "histories-with-traffic"
	}
	return mc.Scenario{
		Name:   fmt.Sprintf("%s/depth=%d", name, depth),
		Params: map[string]any{"depth": depth, "alphabet": "fresh(h=-3..+3) | replay(i) | advance(59m,1h,2h,3h+1s)"},
		Weight: 1000,
		Run: func(c *mc.Ctx) {
			br := o4h.NewBridge(seed, "c04", 0, false)
			rnd.Install(rnd.New(seed, "c04-real"))
			r := rnd.New(seed, "c04-ref")
			sf, err := br.ServerFactory()
			if err != nil {
				fail(c, "setup", "setup", "%v", err)
				return
			}
			var blobs []*blob
			var hist []string
			res := sched.Run(c, sched.Options{NoPreempt: true, NoEarlyTimers: true, Start: start, MaxSteps: 3_000_000}, func() {
				s := sched.Cur()
				for step := 0; step < depth; step++ {
					n := 7 + len(advances) + len(blobs)
					op := c.ChooseFree("op", n)
					switch {
					case op < 7:
						h := int64(op - 3)
						b := newBlob(br, r, h, fmt.Sprintf("b%d", len(blobs)))
						blobs = append(blobs, b)
						hist = append(hist, fmt.Sprintf("fresh(%+d)", h))
						v := submitT(sf, br, b, fmt.Sprint(step), traffic)
						check(c, b, v, fmt.Sprintf("step %d of %v", step, hist), s.Now())
					case op < 7+len(advances):
						d := advances[op-7]
						hist = append(hist, fmt.Sprintf("advance(%v)", d))
						s.Advance(d)
					default:
						b := blobs[op-7-len(advances)]
						hist = append(hist, fmt.Sprintf("replay(%s)", b.label))
						v := submitT(sf, br, b, fmt.Sprint(step), traffic)
						check(c, b, v, fmt.Sprintf("step %d of %v", step, hist), s.Now())
					}
					if c.Failed() {
						return
					}
				}
			})
			if len(res.Panics) > 0 {
				fail(c, "no-panic", "panic", "%s", res.Panics[0])
			}
			var acc []bool
			for _, b := range blobs {
				acc = append(acc, b.accepted)
			}
			c.Observe("history", fmt.Sprint(hist, acc))
		},
	}
}

// concurrent submissions
func concScenario(name string, same int, others int, bound int, early bool, seed int64) mc.Scenario {
	// preemption inside the replay filter's test-and-set and at lock operations
	return concScenarioKinds(name, same, others, bound, early, []string{"stmt replay_filter.go", "lock"}, seed)
}

func concScenarioKinds(name string, same int, others int, bound int, early bool, kinds []string, seed int64) mc.Scenario {
	return mc.Scenario{
		Name:   name,
		Params: map[string]any{"threads_same_blob": same, "threads_fresh_blob": others},
		Bound:  bound,
		Weight: 1000,
		Run: func(c *mc.Ctx) {
			br := o4h.NewBridge(seed, "c04", 0, false)
			rnd.Install(rnd.New(seed, "c04-real"))
			r := rnd.New(seed, "c04-ref")
			sf, err := br.ServerFactory()
			if err != nil {
				fail(c, "setup", "setup", "%v", err)
				return
			}
			var shared *blob
			var fresh []*blob
			vs := make([]verdict, same+others)
			var replays []verdict
			// early: the clock is monotone but it moves -- any read of the clock by
			// the code under test may see it 1ns later than the previous read
			res := sched.Run(c, sched.Options{PreemptKinds: kinds, NoEarlyTimers: true, TickOnNow: early, Start: start, MaxSteps: 3_000_000}, func() {
				s := sched.Cur()
				shared = newBlob(br, r, 0, "shared")
				for i := 0; i < others; i++ {
					fresh = append(fresh, newBlob(br, r, 0, fmt.Sprintf("fresh%d", i)))
				}
				finished := 0
				for i := 0; i < same+others; i++ {
					i := i
					s.Spawn(fmt.Sprintf("submitter%d", i), func() {
						b := shared
						if i >= same {
							b = fresh[i-same]
						}
						vs[i] = submit(sf, br, b, fmt.Sprint(i))
						finished++
					})
				}
				s.Point("join", func() bool { return finished == same+others })
				// afterwards every blob is replayed once more, sequentially
				all := append([]*blob{}, fresh...)
				if same > 0 {
					all = append(all, shared)
				}
				for j, b := range all {
					replays = append(replays, submit(sf, br, b, fmt.Sprintf("r%d", j)))
				}
			})
			if len(res.Panics) > 0 {
				fail(c, "no-panic", "panic", "%s", res.Panics[0])
				return
			}
			if res.Quiescent || res.Livelock {
				fail(c, "deadlock", "conc/deadlock", "submissions never finished: %+v", res.Blocked)
				return
			}
			acc := 0
			var sum []bool
			for i := 0; i < same; i++ {
				if vs[i].accepted {
					acc++
				}
			}
			for i := range vs {
				sum = append(sum, vs[i].accepted)
			}
			for _, v := range replays {
				sum = append(sum, v.accepted)
			}
			c.Observe("verdicts", fmt.Sprint(sum))
			if same > 0 && acc != 1 {
				fail(c, "once", "conc/same-blob", "%d concurrent submissions of one handshake: %d were accepted (want exactly 1)", same, acc)
			}
			for i := same; i < same+others; i++ {
				if !vs[i].accepted {
					fail(c, "hour-window", "conc/fresh-rejected", "a fresh handshake submitted concurrently was rejected")
				}
			}
			for j, v := range replays {
				if v.accepted {
					fail(c, "once", "conc/replay-after-concurrent", "replay #%d after the concurrent phase was accepted again (the filter forgot a handshake it had accepted; clock is monotone)", j)
				}
			}
			for i := range vs {
				if vs[i].accepted && !vs[i].respOK {
					fail(c, "reply-hour", "conc/reply", "accepted submission %d: reply did not verify: %s", i, vs[i].detail)
				}
			}
		},
	}
}

// nearlyFullScenario: the bridge remembers 102399 handshakes (fewer than
// 102400, so the statement applies), the oldest being a genuine one; its replay
// is refused, and fresh handshakes keep being accepted.
func nearlyFullScenario(seed int64) mc.Scenario {
	return mc.Scenario{Name: "nearly-full-filter/replay-of-the-oldest", Weight: 50, Run: func(c *mc.Ctx) {
		br := o4h.NewBridge(seed, "c04", 0, false)
		rnd.Install(rnd.New(seed, "c04-real"))
		r := rnd.New(seed, "c04-ref")
		sf, err := br.ServerFactory()
		if err != nil {
			fail(c, "setup", "setup", "%v", err)
			return
		}
		f := obfs4.VerifReplayFilter(sf)
		if f == nil {
			c.Count("filter_not_reachable", 1)
			c.Trivial()
			return
		}
		res := sched.Run(c, sched.Options{NoPreempt: true, NoEarlyTimers: true, Start: start, MaxSteps: 3_000_000}, func() {
			s := sched.Cur()
			b0 := newBlob(br, r, 0, "b0")
			check(c, b0, submit(sf, br, b0, "0"), "first handshake of the bridge", s.Now())
			var v [16]byte
			for i := 0; i < 102400-2; i++ {
				binary.BigEndian.PutUint64(v[:], uint64(i)+1)
				if f.TestAndSet(s.Now(), v[:]) {
					fail(c, "setup", "setup", "filler value %d reported as seen", i)
					return
				}
			}
			s.Advance(time.Second)
			check(c, b0, submit(sf, br, b0, "1"), "replay of the oldest of 102399 remembered handshakes", s.Now())
			b1 := newBlob(br, r, 0, "b1")
			check(c, b1, submit(sf, br, b1, "2"), "fresh handshake on a bridge remembering 102399", s.Now())
		})
		if len(res.Panics) > 0 {
			fail(c, "no-panic", "panic", "%s", res.Panics[0])
		}
	}}
}

func main() {
	mc.Main("C04", func(cfg *mc.Config, emit func(mc.Scenario)) {
		d := 3
		b := 2
		if cfg.Thorough() {
			d = 4
			b = 3
		}
		for k := 1; k <= d; k++ {
			emit(historyScenario(k, cfg.Seed))
		}
		// the same histories with every accepted connection carrying traffic
		// before it is closed (what the server remembers of a handshake must not
		// live in buffers the connection goes on to use)
		for k := 2; k <= d; k++ {
			emit(historyScenarioT(k, cfg.Seed, true))
		}
		emit(nearlyFullScenario(cfg.Seed))
		// preemption at every statement of the server handshake functions as
		// well (state shared between the in-flight handshakes of one factory)
		emit(concScenarioKinds("concurrent-hs-stmt/2-same", 2, 0, 1, false, []string{"stmt", "lock"}, cfg.Seed))
		emit(concScenarioKinds("concurrent-hs-stmt/2-fresh", 0, 2, 1, false, []string{"stmt", "lock"}, cfg.Seed))
		emit(concScenarioKinds("concurrent-hs-stmt/1-same+2-fresh", 1, 2, 1, false, []string{"stmt", "lock"}, cfg.Seed))
		emit(concScenario("concurrent/2-same", 2, 0, b, false, cfg.Seed))
		emit(concScenario("concurrent/3-same", 3, 0, b, false, cfg.Seed))
		emit(concScenario("concurrent/2-same+1-fresh", 2, 1, b, false, cfg.Seed))
		emit(concScenario("concurrent/2-fresh/clock-moves", 0, 2, b, true, cfg.Seed))
		emit(concScenario("concurrent/2-same+1-fresh/clock-moves", 2, 1, b-1, true, cfg.Seed))
	})
}
