//go:build verif

package obfs2

// Free-running -race body for C14: many obfs2 connections (both roles real)
// set up and used concurrently in one process over loopback TCP.

import (
	"bytes"
	"io"
	"net"
	"os"
	"strconv"
	"sync"
	"testing"

	pt "gitlab.torproject.org/tpo/anti-censorship/pluggable-transports/goptlib"
)

func TestVerifRaceC14Connections(t *testing.T) {
	iters, _ := strconv.Atoi(os.Getenv("VERIF_RACE_ITERS"))
	if iters < 1 {
		iters = 1
	}
	tr := &Transport{}
	sf, err := tr.ServerFactory("", &pt.Args{})
	if err != nil {
		t.Fatal(err)
	}
	cf, _ := tr.ClientFactory("")
	pa, _ := cf.ParseArgs(&pt.Args{})
	ln, err := net.Listen("tcp", "127.0.0.1:0")
	if err != nil {
		t.Fatal(err)
	}
	defer ln.Close()
	go func() {
		for {
			raw, err := ln.Accept()
			if err != nil {
				return
			}
			go func() {
				defer raw.Close()
				c, err := sf.WrapConn(raw)
				if err != nil {
					return
				}
				io.Copy(c, c) // echo
			}()
		}
	}()
	for it := 0; it < iters; it++ {
		var wg sync.WaitGroup
		for g := 0; g < 16; g++ {
			wg.Add(1)
			go func(g int) {
				defer wg.Done()
				c, err := cf.Dial("tcp", ln.Addr().String(), net.Dial, pa)
				if err != nil {
					t.Errorf("Dial: %v", err)
					return
				}
				defer c.Close()
				msg := bytes.Repeat([]byte{byte(g)}, 300)
				if _, err := c.Write(msg); err != nil {
					t.Errorf("Write: %v", err)
					return
				}
				got := make([]byte, len(msg))
				if _, err := io.ReadFull(c, got); err != nil || !bytes.Equal(got, msg) {
					t.Errorf("echo mismatch: %v", err)
				}
			}(g)
		}
		wg.Wait()
	}
}
