//go:build verif

// C14: obfs2: stream integrity and spec conformance.
package main

import (
	"bytes"
	"errors"
	"fmt"
	"io"
	"net"
	"strings"
	"time"

	pt "gitlab.torproject.org/tpo/anti-censorship/pluggable-transports/goptlib"

	"gitlab.com/yawning/obfs4.git/internal/zzverif/mc"
	"gitlab.com/yawning/obfs4.git/internal/zzverif/o4h"
	"gitlab.com/yawning/obfs4.git/internal/zzverif/ref"
	"gitlab.com/yawning/obfs4.git/internal/zzverif/rnd"
	"gitlab.com/yawning/obfs4.git/internal/zzverif/sched"
	"gitlab.com/yawning/obfs4.git/internal/zzverif/wire"
	"gitlab.com/yawning/obfs4.git/transports/obfs2"
)

func fail(c *mc.Ctx, oracle, key, format string, a ...any) {
	c.Fail(oracle, "C14/"+key, format, a...)
}

func realConn(role string, w *wire.Conn) (net.Conn, error) {
	t := &obfs2.Transport{}
	if role == "client" {
		cf, _ := t.ClientFactory("")
		a, err := cf.ParseArgs(&pt.Args{})
		if err != nil {
			return nil, err
		}
		return cf.Dial("tcp", "192.0.2.1:1", func(string, string) (net.Conn, error) { return w, nil }, a)
	}
	sf, err := t.ServerFactory("", &pt.Args{})
	if err != nil {
		return nil, err
	}
	return sf.WrapConn(w)
}

type caseT struct {
	desc     string
	role     string // role of the REAL side
	ro       ref.Obfs2Opts
	realPad  int // -1 random, else scripted
	chunker  func(*wire.Conn, int, int) []int
	realW    []int // sizes the real side writes
	refW     []int // sizes the reference writes after the handshake (Data is extra, first)
	reject   bool  // the real side must refuse the handshake
	rbuf     int
	tailData bool
}

func total(xs []int) int {
	t := 0
	for _, x := range xs {
		t += x
	}
	return t
}

func splitAt(cut int) func(*wire.Conn, int, int) []int {
	return func(c *wire.Conn, avail, want int) []int {
		d := cut - int(c.In.Read)
		if d >= 1 && d < avail {
			return []int{d}
		}
		return []int{avail}
	}
}

func runCase(c *mc.Ctx, k caseT, seed int64, fam string) {
	stream := rnd.New(seed, "c14-real-"+k.desc)
	rnd.Install(stream)
	if k.realPad >= 0 {
		stream.Script8 = [][]byte{rnd.ScriptIntn(k.realPad)}
	}
	refRnd := rnd.New(seed, "c14-ref-"+k.desc)
	cw, sw := wire.Pipe("client", "server")
	realWire, refWire := cw, sw
	if k.role == "server" {
		realWire, refWire = sw, cw
	}
	realWire.Chunker = k.chunker
	k.ro.Initiator = k.role == "server" // the reference plays the other role
	if k.ro.Seed == nil {
		k.ro.Seed = refRnd.Bytes(16)
	}
	var realErr, refErr, rdErr error
	var got []byte
	var rs *ref.Obfs2Session
	wantReal := o4h.Pattern('F', 0, len(k.ro.Data)+total(k.refW)) // what the real side must read
	wantRef := o4h.Pattern('R', 0, total(k.realW))
	if k.ro.Data != nil {
		k.ro.Data = wantReal[:len(k.ro.Data)]
	}
	rbuf := k.rbuf
	if rbuf == 0 {
		rbuf = 4096
	}
	wrote := 0
	res := sched.Run(c, sched.Options{NoPreempt: true, NoEarlyTimers: true, MaxSteps: 3_000_000}, func() {
		s := sched.Cur()
		s.Spawn("ref", func() {
			rs, refErr = ref.Obfs2Handshake(refWire, k.ro, refRnd)
			if refErr != nil {
				// keep the connection open: the real side decides on its own
				buf := make([]byte, 4096)
				for {
					if _, err := refWire.Read(buf); err != nil {
						break
					}
				}
				refWire.Close()
				return
			}
			off := len(k.ro.Data)
			for _, n := range k.refW {
				rs.Send(wantReal[off : off+n])
				off += n
			}
			for {
				if _, err := rs.RecvOnce(); err != nil {
					break
				}
			}
			refWire.Close()
		})
		var conn net.Conn
		conn, realErr = realConn(k.role, realWire)
		if realErr != nil {
			return
		}
		off := 0
		for _, n := range k.realW {
			kk, err := wire.WriteOwned(conn, wantRef[off : off+n])
			if err != nil || kk != n {
				realErr = fmt.Errorf("Write(%d) = %d, %v", n, kk, err)
				return
			}
			off += n
			wrote = off
		}
		b := make([]byte, rbuf)
		for len(got) < len(wantReal) {
			n, err := conn.Read(b)
			got = append(got, b[:n]...)
			if err != nil {
				rdErr = err
				break
			}
		}
		conn.Close()
	})
	c.AddExecutions(1)
	what := k.desc
	c.Case(fam+"/"+what, fmt.Sprint(realErr != nil, refErr != nil, rdErr != nil, len(got)))
	if len(res.Panics) > 0 {
		fail(c, "no-panic", "panic/"+fam, "%s: %s", what, res.Panics[0])
		return
	}
	if k.reject {
		if realErr == nil {
			fail(c, "reject", "accepted/"+fam, "%s: the real %s accepted the handshake (delivered %d bytes)", what, k.role, len(got))
		}
		return
	}
	if refErr != nil {
		fail(c, "spec", "ref-rejects/"+fam, "%s: the reference peer cannot follow the real %s: %v (real side: %v)", what, k.role, refErr, realErr)
		return
	}
	if realErr != nil {
		fail(c, "interop", "real-fails/"+fam, "%s: the real %s failed against the reference: %v", what, k.role, realErr)
		return
	}
	if rdErr != nil {
		fail(c, "stream", "read-error/"+fam, "%s: Read failed after %d of %d bytes: %v (reads %v)", what, len(got), len(wantReal), rdErr, trunc(realWire.ReadSizes))
		return
	}
	if res.Quiescent && len(got) < len(wantReal) {
		fail(c, "stream", "stuck/"+fam, "%s: quiescent after %d of %d bytes (reads %v)", what, len(got), len(wantReal), trunc(realWire.ReadSizes))
		return
	}
	if !bytes.Equal(got, wantReal) {
		fail(c, "stream", "stream-in/"+fam, "%s: the real %s read %d bytes that differ from what the reference sent (first difference at %d; reads %v)", what, k.role, len(got), firstDiff(got, wantReal), trunc(realWire.ReadSizes))
		return
	}
	if !bytes.Equal(rs.Got, wantRef[:wrote]) || wrote != len(wantRef) {
		fail(c, "stream", "stream-out/"+fam, "%s: the reference decrypted %d bytes that differ from what the real %s wrote (%d)", what, len(rs.Got), k.role, wrote)
	}
	if k.realPad >= 0 && k.realPad <= 8192 && int(rs.PeerPad) == k.realPad {
		// the scripted draw steered the padding length (how entropy becomes a
		// length is not judged; that the length is legal is, by the reference)
		c.Count("own_padding_draws_steered_by_the_script", 1)
	}
}

func trunc(x []int) []int {
	if len(x) > 40 {
		return x[:40]
	}
	return x
}

func firstDiff(a, b []byte) int {
	for i := 0; i < len(a) && i < len(b); i++ {
		if a[i] != b[i] {
			return i
		}
	}
	if len(a) < len(b) {
		return len(a)
	}
	return len(b)
}

func scenarios(cfg *mc.Config, emit func(mc.Scenario)) {
	seed := cfg.Seed
	thorough := cfg.Thorough()
	pads := []uint32{0, 1, 2, 1023, 1024, 1025, 8191, 8192}
	scripts := [][2][]int{{{1}, {1}}, {{0, 100}, {5000}}, {{5000, 1}, {100, 0, 1}}}
	for _, role := range []string{"client", "server"} {
		role := role
		// paddings x real padding x scripts x data coalescing
		var padList []uint32
		if thorough {
			for p := uint32(0); p <= 8192; p++ {
				padList = append(padList, p)
			}
		} else {
			padList = pads
		}
		const per = 64
		for lo := 0; lo < len(padList); lo += per {
			lo := lo
			hi := lo + per
			if hi > len(padList) {
				hi = len(padList)
			}
			emit(mc.Scenario{Name: fmt.Sprintf("%s/paddings/%d", role, lo), Weight: 30, Run: func(c *mc.Ctx) {
				n := 0
				for _, p := range padList[lo:hi] {
					// (8193, 8194 and 2^31-1 lie beyond the range of the draw: in correct
					// code the residue wraps around to a legal padding length)
					for _, rp := range []int{-1, 0, 8192, 8193, 8194, 1<<31 - 1} {
						if rp > 8192 && p != padList[lo] {
							continue
						}
						for si, sc := range scripts {
							if thorough && lo > 0 && (rp != -1 || si != 1) {
								continue
							}
							for _, coal := range []int{0, 1, 300} {
								k := caseT{desc: fmt.Sprintf("%s pad=%d realpad=%d script=%d coalesced-data=%d", role, p, rp, si, coal), role: role,
									ro: ref.Obfs2Opts{PadLen: p}, realPad: rp, realW: sc[0], refW: sc[1]}
								if coal > 0 {
									k.ro.Data = make([]byte, coal)
								}
								runCase(c, k, seed, "paddings")
								n++
								if c.Failed() {
									return
								}
							}
						}
					}
				}
				c.Count("padding_cases", int64(n))
				c.Observe("n", n)
			}})
		}
		// segmentation of the handshake: every split of the first 26 bytes, around the
		// padding/data boundary, dribble
		emit(mc.Scenario{Name: role + "/segmentation", Weight: 60, Run: func(c *mc.Ctx) {
			n := 0
			for _, p := range []uint32{0, 1, 700, 1024, 2000} {
				var cuts []int
				for k := 1; k <= 26; k++ {
					cuts = append(cuts, k)
				}
				for _, d := range []int{-2, -1, 0, 1, 2} {
					cuts = append(cuts, 24+int(p)+d)
				}
				for _, d := range []int{1023, 1024, 1025, 2047, 2048, 2049} {
					cuts = append(cuts, 24+d)
				}
				chs := map[string]func(*wire.Conn, int, int) []int{"dribble": wire.Dribble, "max1000": func(_ *wire.Conn, avail, _ int) []int {
					if avail > 1000 {
						return []int{1000}
					}
					return []int{avail}
				}}
				for _, cut := range cuts {
					if cut >= 1 {
						chs[fmt.Sprintf("split@%d", cut)] = splitAt(cut)
					}
				}
				for cn, ch := range chs {
					for _, coal := range []int{0, 500} {
						if cn == "dribble" && p > 1024 {
							continue
						}
						k := caseT{desc: fmt.Sprintf("%s pad=%d %s coalesced-data=%d", role, p, cn, coal), role: role,
							ro: ref.Obfs2Opts{PadLen: p}, realPad: -1, chunker: ch, realW: []int{100}, refW: []int{1, 2000}, rbuf: 777}
						if coal > 0 {
							k.ro.Data = make([]byte, coal)
						}
						runCase(c, k, seed, "segmentation")
						n++
						if c.Failed() {
							return
						}
					}
				}
			}
			c.Count("segmentation_cases", int64(n))
			c.Observe("n", n)
		}})
		// header corruption and oversize padding
		emit(mc.Scenario{Name: role + "/header", Weight: 20, Run: func(c *mc.Ctx) {
			n := 0
			const base = 5
			for bit := 0; bit < 64; bit++ {
				x := make([]byte, 8)
				x[bit/8] ^= 0x80 >> uint(bit%8)
				k := caseT{desc: fmt.Sprintf("%s header bit %d flipped", role, bit), role: role, realPad: -1, realW: []int{10}, refW: []int{10}}
				k.ro = ref.Obfs2Opts{PadLen: base, HdrXor: x}
				if bit < 32 {
					k.reject = true
				} else {
					np := uint32(base) ^ (uint32(1) << uint(63-bit))
					if np > 8192 {
						k.reject = true
					} else {
						k.ro.SendPad = int(np)
						if np == 0 {
							k.ro.SendPad = -1
						}
					}
				}
				for _, ch := range []func(*wire.Conn, int, int) []int{nil, wire.Dribble} {
					k.chunker = ch
					runCase(c, k, seed, "header")
					n++
					if c.Failed() {
						return
					}
				}
			}
			for _, big := range []uint32{8193, 8194, 65536, 0x7fffffff, 0x80000000, 0x80000001, 0xfffffffe, 0xffffffff} {
				k := caseT{desc: fmt.Sprintf("%s padlen %#x", role, big), role: role, realPad: -1, realW: []int{10}, refW: []int{10}, reject: true}
				k.ro = ref.Obfs2Opts{PadLen: big, SendPad: 100}
				runCase(c, k, seed, "oversize")
				n++
				k.ro.SendPad = 9000
				runCase(c, k, seed, "oversize")
				n++
				if c.Failed() {
					return
				}
			}
			for _, m := range []uint32{0x2BF5CA7F, 0x7ECAF52B, 1} {
				k := caseT{desc: fmt.Sprintf("%s magic %#x", role, m), role: role, realPad: -1, realW: []int{10}, refW: []int{10}, reject: true}
				k.ro = ref.Obfs2Opts{PadLen: 3, Magic: m}
				runCase(c, k, seed, "magic")
				n++
			}
			c.Count("header_cases", int64(n))
			c.Observe("n", n)
		}})
	}
	// real <-> real with chunk/interleaving choices
	b := 2
	if thorough {
		b = 3
	}
	// (the last script: single very large writes, default chunking only)
	for si, sc := range append(append([][2][]int{}, scripts...), [2][]int{{65536, 65537}, {200000, 1}}) {
		for sd := 0; sd < 3; sd++ {
			si, sc, sd := si, sc, sd
			b := b
			if total(sc[0]) > 100000 {
				if sd > 0 {
					continue
				}
				b = 0
			}
			emit(mc.Scenario{Name: fmt.Sprintf("real-real/script%d/seed%d", si, sd), Bound: b, Weight: 200, Run: func(c *mc.Ctx) {
				rnd.Install(rnd.New(seed, fmt.Sprint("c14-rr-", sd)))
				cw, sw := wire.Pipe("client", "server")
				cw.AutoMark, sw.AutoMark = true, true
				cw.Chunker, sw.Chunker = wire.ChunkMarks, wire.ChunkMarks
				var cErr, sErr error
				var cGot, sGot []byte
				wantC := o4h.Pattern('S', 0, total(sc[1]))
				wantS := o4h.Pattern('C', 0, total(sc[0]))
				res := sched.Run(c, sched.Options{PreemptKinds: []string{"write"}, NoEarlyTimers: true, MaxSteps: 3_000_000}, func() {
					s := sched.Cur()
					side := func(role string, w *wire.Conn, writes []int, out []byte, got *[]byte, want int, errp *error) func() {
						return func() {
							conn, err := realConn(role, w)
							if err != nil {
								*errp = err
								return
							}
							s.Spawn(role+"-reader", func() {
								b := make([]byte, 1000)
								for len(*got) < want {
									n, err := conn.Read(b)
									*got = append(*got, b[:n]...)
									if err != nil {
										*errp = err
										return
									}
								}
							})
							off := 0
							for _, n := range writes {
								if _, err := wire.WriteOwned(conn, out[off : off+n]); err != nil {
									*errp = err
									return
								}
								off += n
							}
						}
					}
					s.Spawn("server", side("server", sw, sc[1], wantC, &sGot, len(wantS), &sErr))
					side("client", cw, sc[0], wantS, &cGot, len(wantC), &cErr)()
				})
				if len(res.Panics) > 0 {
					fail(c, "no-panic", "panic/real-real", "%s", res.Panics[0])
					return
				}
				c.Observe("reads", fmt.Sprint(trunc(cw.ReadSizes), trunc(sw.ReadSizes)))
				if cErr != nil || sErr != nil {
					fail(c, "stream", "real-real/error", "client=%v server=%v", cErr, sErr)
					return
				}
				if !bytes.Equal(cGot, wantC) || !bytes.Equal(sGot, wantS) {
					fail(c, "stream", "real-real/stream", "client read %d/%d, server read %d/%d (quiescent=%v; reads %v %v)", len(cGot), len(wantC), len(sGot), len(wantS), res.Quiescent, trunc(cw.ReadSizes), trunc(sw.ReadSizes))
				}
			}})
		}
	}
}

// twoConnections: two client/server pairs of real endpoints in one process;
// the handshakes interleave at every statement of the key-derivation helpers.
// Connections must not influence each other.
func twoConnections(cfg *mc.Config, emit func(mc.Scenario)) {
	b := 1
	if cfg.Thorough() {
		b = 2
	}
	seed := cfg.Seed
	emit(mc.Scenario{Name: "two-connections", Bound: b, Weight: 200, Run: func(c *mc.Ctx) {
		rnd.Install(rnd.New(seed, "c14-two"))
		type ep struct {
			role string
			w    *wire.Conn
			out  []byte
			want []byte
			got  []byte
			err  error
		}
		var eps []*ep
		for i := 0; i < 2; i++ {
			cw, sw := wire.Pipe(fmt.Sprintf("client%d", i), fmt.Sprintf("server%d", i))
			co, so := o4h.Pattern(byte('C'+i), 0, 40), o4h.Pattern(byte('S'+i), 0, 40)
			eps = append(eps, &ep{role: "client", w: cw, out: co, want: so}, &ep{role: "server", w: sw, out: so, want: co})
		}
		// clients first: both client hellos are on the wire before a server
		// starts, so that one preemption inside a server's key derivation lets
		// the other server run its whole key derivation in between
		eps = []*ep{eps[0], eps[2], eps[1], eps[3]}
		res := sched.Run(c, sched.Options{PreemptKinds: []string{"stmt"}, NoEarlyTimers: true, MaxSteps: 3_000_000}, func() {
			s := sched.Cur()
			for i, e := range eps {
				e := e
				s.Spawn(fmt.Sprintf("%s%d", e.role, i%2), func() {
					conn, err := realConn(e.role, e.w)
					if err != nil {
						e.err = err
						return
					}
					if _, err := wire.WriteOwned(conn, e.out); err != nil {
						e.err = err
						return
					}
					buf := make([]byte, 64)
					for len(e.got) < len(e.want) {
						n, err := conn.Read(buf)
						e.got = append(e.got, buf[:n]...)
						if err != nil {
							e.err = err
							return
						}
					}
				})
			}
		})
		if len(res.Panics) > 0 {
			fail(c, "no-panic", "two-connections/panic", "%s", res.Panics[0])
			return
		}
		for i, e := range eps {
			if e.err != nil || !bytes.Equal(e.got, e.want) {
				fail(c, "stream", "two-connections/stream", "%s of connection %d: read %d/%d bytes (first difference at %d), err=%v, quiescent=%v: concurrent connections influenced each other", e.role, i%2, len(e.got), len(e.want), firstDiff(e.got, e.want), e.err, res.Quiescent)
				return
			}
		}
		c.Observe("ok", len(eps))
	}})
}

// closeWithData: the peer writes and ends (eof / reset); its last bytes arrive
// in the same Read as the end of the stream: every byte must still be
// delivered before the end is reported.
func closeWithData(cfg *mc.Config, emit func(mc.Scenario)) {
	seed := cfg.Seed
	for _, role := range []string{"client", "server"} {
		for end := 0; end <= 1; end++ {
			role, end := role, end
			emit(mc.Scenario{Name: fmt.Sprintf("edge/%s/close-with-data/%s", role, []string{"eof", "reset"}[end]), Weight: 10, Run: func(c *mc.Ctx) {
				rnd.Install(rnd.New(seed, "c14-real-edge"))
				refRnd := rnd.New(seed, "c14-ref-edge")
				cw, sw := wire.Pipe("client", "server")
				realWire, refWire := cw, sw
				if role == "server" {
					realWire, refWire = sw, cw
				}
				inbound := o4h.Pattern('I', 0, 3000)
				var got []byte
				var realErr, refErr, rdErr error
				res := sched.Run(c, sched.Options{NoPreempt: true, NoEarlyTimers: true, MaxSteps: 3_000_000}, func() {
					s := sched.Cur()
					s.Spawn("ref", func() {
						rs, err := ref.Obfs2Handshake(refWire, ref.Obfs2Opts{Initiator: role == "server", Seed: refRnd.Bytes(16), PadLen: 9}, refRnd)
						if err != nil {
							refErr = err
							refWire.Close()
							return
						}
						rs.Send(inbound[:100])
						rs.Send(inbound[100:])
						if end == 0 {
							refWire.CloseWrite()
						} else {
							refWire.Out.Err = errors.New("connection reset by peer")
						}
					})
					conn, err := realConn(role, realWire)
					if err != nil {
						realErr = err
						return
					}
					realWire.CoalesceEnd = true
					b := make([]byte, 700)
					for {
						n, err := conn.Read(b)
						got = append(got, b[:n]...)
						if err != nil {
							rdErr = err
							break
						}
					}
				})
				if len(res.Panics) > 0 {
					fail(c, "no-panic", "panic/edge", "%s", res.Panics[0])
					return
				}
				if realErr != nil || refErr != nil {
					fail(c, "handshake", "edge/handshake", "real=%v ref=%v", realErr, refErr)
					return
				}
				c.Observe("out", fmt.Sprintf("got=%d err=%v", len(got), rdErr))
				if !bytes.HasPrefix(inbound, got) {
					fail(c, "stream", "edge/altered", "delivered bytes are not a prefix of what the peer wrote (first difference at %d)", firstDiff(inbound, got))
				} else if len(got) != len(inbound) {
					fail(c, "stream", "edge/close-with-data/lost", "the peer wrote %d bytes and ended, its last bytes arriving together with the end of the stream: the %s delivered only %d (then %v)", len(inbound), role, len(got), rdErr)
				} else if rdErr == nil {
					fail(c, "stream", "edge/close-with-data/no-end", "the stream ended but Read never reported it")
				}
			}})
		}
	}
}

// pausedSession: "all write sequences" includes their timing -- an established
// connection that stays idle for longer than every timeout constant of the
// handshake (30 s) and then carries data again, the pause being taken by the
// real side before its write, or by the peer while the real side waits in Read.
func pausedSession(cfg *mc.Config, emit func(mc.Scenario)) {
	seed := cfg.Seed
	pauses := []time.Duration{time.Second, 29 * time.Second, 2 * time.Second, 10 * time.Minute, 25 * time.Hour}
	const blk = 300
	for _, role := range []string{"client", "server"} {
		for _, pauser := range []string{"real", "peer"} {
			role, pauser := role, pauser
			emit(mc.Scenario{Name: fmt.Sprintf("edge/%s/paused-session/%s-pauses", role, pauser), Weight: 10, Run: func(c *mc.Ctx) {
				rnd.Install(rnd.New(seed, "c14-real-paused"))
				refRnd := rnd.New(seed, "c14-ref-paused")
				cw, sw := wire.Pipe("client", "server")
				realWire, refWire := cw, sw
				if role == "server" {
					realWire, refWire = sw, cw
				}
				outbound := o4h.Pattern('O', 0, blk*len(pauses))
				inbound := o4h.Pattern('I', 0, blk*len(pauses))
				var got []byte
				var rs *ref.Obfs2Session
				var realErr, refErr error
				failedAt, failedOp := -1, ""
				res := sched.Run(c, sched.Options{NoPreempt: true, NoEarlyTimers: true, MaxSteps: 3_000_000}, func() {
					s := sched.Cur()
					s.Spawn("ref", func() {
						var err error
						rs, err = ref.Obfs2Handshake(refWire, ref.Obfs2Opts{Initiator: role == "server", Seed: refRnd.Bytes(16), PadLen: 9}, refRnd)
						if err != nil {
							refErr = err
							refWire.Close()
							return
						}
						for r := range pauses {
							for len(rs.Got) < (r+1)*blk {
								if _, err := rs.RecvOnce(); err != nil {
									refErr = fmt.Errorf("round %d: %w", r, err)
									return
								}
							}
							if pauser == "peer" {
								sched.Sleep(pauses[r])
							}
							if err := rs.Send(inbound[r*blk : (r+1)*blk]); err != nil {
								refErr = fmt.Errorf("round %d: %w", r, err)
								return
							}
						}
					})
					conn, err := realConn(role, realWire)
					if err != nil {
						realErr = err
						return
					}
					b := make([]byte, blk)
					for r := range pauses {
						if pauser == "real" {
							sched.Sleep(pauses[r])
						}
						if _, err := wire.WriteOwned(conn, outbound[r*blk : (r+1)*blk]); err != nil {
							realErr, failedAt, failedOp = err, r, "Write"
							return
						}
						n, err := io.ReadFull(conn, b)
						got = append(got, b[:n]...)
						if err != nil {
							realErr, failedAt, failedOp = err, r, "Read"
							return
						}
					}
				})
				if len(res.Panics) > 0 {
					fail(c, "no-panic", "panic/edge", "%s", res.Panics[0])
					return
				}
				var sofar time.Duration
				for r := 0; r <= failedAt; r++ {
					sofar += pauses[r]
				}
				if failedAt >= 0 {
					fail(c, "stream", "edge/paused-session/"+strings.ToLower(failedOp), "established %s connection, %s idle for %v (%v since the handshake): %s failed with %v", role, pauser, pauses[failedAt], sofar, failedOp, realErr)
					return
				}
				if realErr != nil || refErr != nil {
					fail(c, "handshake", "edge/handshake", "real=%v ref=%v", realErr, refErr)
					return
				}
				c.Observe("out", fmt.Sprintf("got=%d peer-got=%d", len(got), len(rs.Got)))
				if !bytes.Equal(got, inbound) {
					fail(c, "stream", "edge/paused-session/inbound", "the peer wrote %d bytes over a session with pauses, the %s delivered %d (first difference at %d)", len(inbound), role, len(got), firstDiff(inbound, got))
				}
				if !bytes.Equal(rs.Got, outbound) {
					fail(c, "stream", "edge/paused-session/outbound", "the %s wrote %d bytes over a session with pauses, the peer decoded %d (first difference at %d)", role, len(outbound), len(rs.Got), firstDiff(outbound, rs.Got))
				}
			}})
		}
	}
}

func main() {
	mc.Main("C14", func(cfg *mc.Config, emit func(mc.Scenario)) {
		scenarios(cfg, emit)
		twoConnections(cfg, emit)
		closeWithData(cfg, emit)
		pausedSession(cfg, emit)
	})
}
