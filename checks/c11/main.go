//go:build verif

// C11: the replay filter is a bounded, expiring set for every history.
package main

import (
	"crypto/sha256"
	"fmt"
	"strconv"
	"strings"
	"time"

	"gitlab.com/yawning/obfs4.git/common/replayfilter"
	"gitlab.com/yawning/obfs4.git/internal/zzverif/mc"
	"gitlab.com/yawning/obfs4.git/internal/zzverif/rnd"
)

var t0 = time.Unix(1_600_000_000, 0)

const ttlConc = 3 * time.Hour

// ---- reference model: a list of (value, insert time), spec-level ----------

type mEntry struct {
	val string
	at  time.Time
}

type model struct {
	ttl     time.Duration
	cap     int
	entries []mEntry       // insertion order; in the monotone regime also time order
	idx     map[string]int // value -> number of entries holding it
	mono    bool           // every timestamp since the last full reset was monotone
	last    time.Time
	hasLast bool
}

func (m *model) set(ents []mEntry) {
	m.entries = ents
	m.idx = map[string]int{}
	for _, e := range ents {
		m.idx[e.val]++
	}
}

func (m *model) popFront() {
	m.idx[m.entries[0].val]--
	m.entries = m.entries[1:]
}

// step returns the expected answer; strong==false means the history is in the
// non-monotone regime where the statement promises only the weak oracle.
func (m *model) step(val string, now time.Time) (seen bool, strong bool) {
	if m.idx == nil {
		m.idx = map[string]int{}
	}
	if m.hasLast && now.Before(m.last) && len(m.entries) > 0 {
		// backwards step.  In the monotone regime the oldest entry has the
		// smallest time, so "now precedes every remembered insertion" is a
		// test against entries[0].
		if m.mono && now.Before(m.entries[0].at) {
			m.set(nil) // everything is forgotten
		} else {
			m.mono = false
		}
	}
	m.last, m.hasLast = now, true
	if !m.mono {
		return false, false
	}
	// forget expired entries (ttl <= 0: nothing is ever remembered); they
	// form a prefix because times are monotone.
	for len(m.entries) > 0 && (m.ttl <= 0 || now.Sub(m.entries[0].at) >= m.ttl) {
		m.popFront()
	}
	// full: displace exactly the oldest
	if len(m.entries) >= m.cap {
		m.popFront()
	}
	if m.idx[val] > 0 {
		return true, true
	}
	m.entries = append(m.entries, mEntry{val, now})
	m.idx[val]++
	return false, true
}

// ---- the real object in lockstep with the model ---------------------------

type inst struct {
	f       *replayfilter.ReplayFilter
	m       *model
	now     time.Time
	digests map[uint64]string // digest -> value, learned on insertion
	ofVal   map[string]uint64
	nfresh  int
	avail   bool // the filter's private state can be read (package peek)
}

// stateUnavailable counts operations judged by the black-box oracle only.
var stateUnavailable int64

type opT struct {
	val string // "" = a new distinct value
	dt  time.Duration
}

func (o opT) String() string {
	v := o.val
	if v == "" {
		v = "<new>"
	}
	return fmt.Sprintf("TestAndSet(%s, now%+d)", v, int64(o.dt))
}

// tas submits val the way obfs4 does: in a buffer the caller recycles (the
// handshake buffer), overwritten as soon as TestAndSet has returned.
func tas(f *replayfilter.ReplayFilter, now time.Time, val string) bool {
	b := make([]byte, len(val), len(val)+32)
	copy(b, val)
	r := f.TestAndSet(now, b)
	b = b[:cap(b)]
	for i := range b {
		b[i] = 0xEE
	}
	return r
}

func newInst(ttl time.Duration, seed int64, prefill int) *inst {
	rnd.Install(rnd.New(seed, "c11"))
	f, err := replayfilter.New(ttl)
	if err != nil {
		panic(err)
	}
	in := &inst{f: f, m: &model{ttl: ttl, cap: replayfilter.VerifMaxFilterSize, mono: true}, now: t0,
		digests: map[uint64]string{}, ofVal: map[string]uint64{}}
	if prefill > 0 {
		// the model is pre-filled directly (1 ns apart, far inside the ttl,
		// below capacity: every call is a plain insertion by the statement)
		ents := make([]mEntry, 0, prefill+8)
		for i := 0; i < prefill; i++ {
			v := "pre-" + strconv.Itoa(i)
			in.now = in.now.Add(time.Nanosecond)
			if tas(f, in.now, v) {
				panic("prefill collision")
			}
			ents = append(ents, mEntry{v, in.now})
		}
		in.m.set(ents)
		in.m.last, in.m.hasLast = in.now, true
		if dump, _, ok := replayfilter.VerifDump(f); ok {
			if len(dump) != prefill {
				panic("prefill: unexpected size")
			}
			for i, e := range dump {
				v := ents[i].val
				in.digests[e.Digest] = v
				in.ofVal[v] = e.Digest
			}
		}
	}
	in.avail = replayfilter.VerifAvailable(f)
	return in
}

func fail(oracle, key, format string, a ...any) *mc.Failure {
	return &mc.Failure{Oracle: oracle, Key: "C11/" + key, Msg: fmt.Sprintf(format, a...)}
}

// apply performs one operation on the real filter and compares with the model.
func (in *inst) apply(o opT, light bool) *mc.Failure {
	val := o.val
	if val == "" {
		in.nfresh++
		val = fmt.Sprintf("fresh-%d", in.nfresh)
	}
	in.now = in.now.Add(o.dt)
	if !in.avail {
		// the filter's private representation is not what the accessor knows:
		// black-box oracle only (the answers, while the clock is monotone)
		got := tas(in.f, in.now, val)
		want, strong := in.m.step(val, in.now)
		stateUnavailable++
		if strong && got != want {
			return fail("answer", fmt.Sprintf("answer/got=%v", got), "%v returned %v, reference model says %v (model entries=%d)", o, got, want, len(in.m.entries))
		}
		if !strong {
			// the model cannot be resynchronised from the state: the rest of
			// this history is judged on panics only
			in.m.mono = false
		}
		return nil
	}
	var pre []replayfilter.VerifEntry
	if !light {
		pre, _, _ = replayfilter.VerifDump(in.f)
	}
	got := tas(in.f, in.now, val)
	want, strong := in.m.step(val, in.now)

	ml, fl, _ := replayfilter.VerifLen(in.f)
	if ml != fl {
		return fail("bijection", "bijection", "after %v: map has %d entries, fifo %d", o, ml, fl)
	}
	if fl > replayfilter.VerifMaxFilterSize {
		return fail("capacity", "capacity", "after %v: %d entries > capacity %d", o, fl, replayfilter.VerifMaxFilterSize)
	}
	if strong {
		if got != want {
			return fail("answer", fmt.Sprintf("answer/got=%v", got), "%v returned %v, reference model says %v (model entries=%d)", o, got, want, len(in.m.entries))
		}
		if fl != len(in.m.entries) {
			return fail("contents", "contents/size", "after %v: filter remembers %d entries, model %d", o, fl, len(in.m.entries))
		}
	}
	if light {
		return nil
	}
	post, bij, _ := replayfilter.VerifDump(in.f)
	if !bij {
		return fail("bijection", "bijection", "after %v: map and fifo are not in bijection", o)
	}
	if !got {
		// newly inserted: newest fifo entry is ours
		if len(post) == 0 {
			return fail("insert", "insert/missing", "%v returned false (new) but the filter is empty afterwards", o)
		}
		d := post[len(post)-1].Digest
		if prev, ok := in.digests[d]; ok && prev != val {
			panic("siphash collision inside the alphabet; choose another seed")
		}
		if pd, ok := in.ofVal[val]; ok && pd != d {
			return fail("insert", "insert/digest", "%v inserted a digest that differs from the earlier digest of the same value", o)
		}
		in.digests[d] = val
		in.ofVal[val] = d
		if !post[len(post)-1].FirstSeen.Equal(in.now) {
			return fail("insert", "insert/time", "%v: inserted entry carries time %v, not now", o, post[len(post)-1].FirstSeen)
		}
	}
	if strong {
		// exact contents, in order, with first-insertion times (hits do not refresh)
		for i, e := range post {
			me := in.m.entries[i]
			if in.digests[e.Digest] != me.val || !e.FirstSeen.Equal(me.at) {
				return fail("contents", "contents/entry", "after %v: entry %d is (%s,%v), model has (%s,%v)", o, i, in.digests[e.Digest], e.FirstSeen.Sub(t0), me.val, me.at.Sub(t0))
			}
		}
	} else {
		// weak oracle (non-monotone regime): no false positive, and a miss inserts.
		if got {
			d, ok := in.ofVal[val]
			found := false
			if ok {
				for _, e := range pre {
					if e.Digest == d {
						found = true
					}
				}
			}
			if !found {
				return fail("answer", "answer/false-positive", "%v returned 'seen' for a value that was not remembered before the call", o)
			}
		}
		// resynchronise the model when the implementation is back in a
		// state whose timestamps are monotone in FIFO order.
		monoNow := true
		for i := 1; i < len(post); i++ {
			if post[i].FirstSeen.Before(post[i-1].FirstSeen) {
				monoNow = false
			}
		}
		if monoNow && (len(post) == 0 || !in.now.Before(post[len(post)-1].FirstSeen)) {
			var ne []mEntry
			for _, e := range post {
				ne = append(ne, mEntry{in.digests[e.Digest], e.FirstSeen})
			}
			in.m.set(ne)
			in.m.mono = true
		}
	}
	return nil
}

func (in *inst) canon() string {
	if !in.avail {
		// canonical form from the reference model (the real state is not readable)
		var sb strings.Builder
		fmt.Fprintf(&sb, "model mono=%v n=%d|", in.m.mono, in.nfresh)
		for _, e := range in.m.entries {
			fmt.Fprintf(&sb, "%s@%d,", e.val, int64(in.now.Sub(e.at)))
		}
		return sb.String()
	}
	ents, _, _ := replayfilter.VerifDump(in.f)
	var sb strings.Builder
	fmt.Fprintf(&sb, "mono=%v n=%d|", in.m.mono, in.nfresh)
	for _, e := range ents {
		fmt.Fprintf(&sb, "%s@%d,", in.digests[e.Digest], int64(in.now.Sub(e.FirstSeen)))
	}
	if sb.Len() > 4096 {
		h := sha256.Sum256([]byte(sb.String()))
		return fmt.Sprintf("n=%d sha256=%x", len(ents), h[:16])
	}
	return sb.String()
}

func seqScenario(name string, ttl time.Duration, vals []string, dts []time.Duration, depth, prefill int, light bool, seed int64, weight int) mc.Scenario {
	if dts == nil {
		if ttl > 0 {
			dts = []time.Duration{0, 1, ttl / 2, ttl - 1, ttl, ttl + 1, -1, -ttl / 2, -ttl}
		} else {
			dts = []time.Duration{0, 1, -1}
		}
	}
	var ops []opT
	for _, v := range vals {
		for _, dt := range dts {
			ops = append(ops, opT{v, dt})
		}
	}
	return mc.Scenario{
		Name:   name,
		Params: map[string]any{"ttl_ns": int64(ttl), "values": vals, "dts_ns": dts, "depth": depth, "prefill": prefill},
		Weight: weight,
		Run: func(c *mc.Ctx) {
			mc.BFS(c,
				func() *inst { return newInst(ttl, seed, prefill) },
				len(ops),
				func(in *inst, op int, step int) *mc.Failure { return in.apply(ops[op], light) },
				func(in *inst) string {
					return in.canon()
				},
				depth,
				func(op int) string { return ops[op].String() })
		},
	}
}

func main() {
	mc.WatchdogLimit = 20 * time.Minute
	mc.Main("C11", func(cfg *mc.Config, emit func(mc.Scenario)) {
		const ttl = 3 * time.Hour
		d, dc := 6, 2
		if cfg.Thorough() {
			d, dc = 9, 3
		}
		emit(seqScenario("seq/ttl=3h", ttl, []string{"A", "B", "C"}, nil, d, 0, false, cfg.Seed, 40))
		emit(seqScenario("seq/ttl=1ns", 1, []string{"A", "B"}, nil, d, 0, false, cfg.Seed, 5))
		emit(seqScenario("seq/ttl=0", 0, []string{"A", "B", "C"}, nil, d, 0, false, cfg.Seed, 5))
		cvals, cdts := []string{"pre-0", "A", ""}, []time.Duration{0, 1, ttl, -1}
		if cfg.Thorough() {
			// depth 3 over 3 values x 5 steps (each transition re-fills 102400 entries)
			cdts = []time.Duration{0, 1, ttl, -1, ttl + 1}
		}
		for j := 0; j <= 2; j++ {
			emit(seqScenario(fmt.Sprintf("capacity/prefill=cap-%d", j), ttl, cvals, cdts, dc, replayfilter.VerifMaxFilterSize-j, false, cfg.Seed, 100))
		}
		concScenarios(cfg, emit)
	})
}
