//go:build verif

package replayfilter

// Free-running -race body for C11: concurrent TestAndSet on one filter with
// colliding values, advancing and (occasionally) regressing clocks.

import (
	"os"
	"strconv"
	"sync"
	"testing"
	"time"
)

func TestVerifRaceC11Filter(t *testing.T) {
	iters, _ := strconv.Atoi(os.Getenv("VERIF_RACE_ITERS"))
	if iters < 1 {
		iters = 1
	}
	for it := 0; it < iters; it++ {
		f, err := New(50 * time.Millisecond)
		if err != nil {
			t.Fatal(err)
		}
		base := time.Now()
		var wg sync.WaitGroup
		for g := 0; g < 8; g++ {
			wg.Add(1)
			go func(g int) {
				defer wg.Done()
				for i := 0; i < 3000; i++ {
					now := base.Add(time.Duration(i) * time.Millisecond / 10)
					if g == 7 && i%1000 == 999 {
						now = base.Add(-time.Hour)
					}
					v := []byte{byte(i % 13), byte((i + g) % 3)}
					f.TestAndSet(now, v)
				}
			}(g)
		}
		wg.Wait()
	}
}
