//go:build verif

package main

import "gitlab.com/yawning/obfs4.git/internal/zzverif/mc"

func concScenarios(cfg *mc.Config, emit func(mc.Scenario)) {}
