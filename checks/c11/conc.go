//go:build verif

package main

import (
	"fmt"
	"sort"
	"strings"

	"gitlab.com/yawning/obfs4.git/common/replayfilter"
	"gitlab.com/yawning/obfs4.git/internal/zzverif/mc"
	"gitlab.com/yawning/obfs4.git/internal/zzverif/rnd"
	"gitlab.com/yawning/obfs4.git/internal/zzverif/sched"
)

type opRec struct {
	thread   int
	val      string
	inv, ret int
	res      bool
}

// linearizable: brute force over all orders consistent with real time.
func linearizable(ops []opRec, pre map[string]bool) bool {
	n := len(ops)
	done := make([]bool, n)
	set := map[string]bool{}
	for k := range pre {
		set[k] = true
	}
	var rec func(k int) bool
	rec = func(k int) bool {
		if k == n {
			return true
		}
		for i := 0; i < n; i++ {
			if done[i] {
				continue
			}
			// i may be next only if no other pending op returned before i was invoked
			ok := true
			for j := 0; j < n; j++ {
				if j != i && !done[j] && ops[j].ret < ops[i].inv {
					ok = false
				}
			}
			if !ok {
				continue
			}
			had := set[ops[i].val]
			if had != ops[i].res {
				continue
			}
			done[i] = true
			set[ops[i].val] = true
			if rec(k + 1) {
				return true
			}
			done[i] = false
			if !had {
				delete(set, ops[i].val)
			}
		}
		return false
	}
	return rec(0)
}

func concScenario(name string, scripts [][]string, preload []string, bound int, seed int64) mc.Scenario {
	return mc.Scenario{
		Name:   name,
		Params: map[string]any{"scripts": scripts, "preload": preload},
		Bound:  bound,
		Weight: 60,
		Run: func(c *mc.Ctx) {
			rnd.Install(rnd.New(seed, "c11c"))
			f, err := replayfilter.New(ttlConc)
			if err != nil {
				panic(err)
			}
			pre := map[string]bool{}
			for _, v := range preload {
				tas(f, t0, v)
				pre[v] = true
			}
			var ops []opRec
			tick := 0
			overlap := false
			inside := 0
			res := sched.Run(c, sched.Options{FreeSwitch: true}, func() {
				s := sched.Cur()
				for ti, sc := range scripts {
					ti, sc := ti, sc
					s.Spawn(fmt.Sprintf("caller%d", ti), func() {
						for _, v := range sc {
							tick++
							inv := tick
							inside++
							if inside > 1 {
								overlap = true
							}
							r := tas(f, t0, v)
							inside--
							tick++
							ops = append(ops, opRec{ti, v, inv, tick, r})
						}
					})
				}
			})
			if len(res.Panics) > 0 {
				c.Fail("panic", "C11/conc/panic", "panic under concurrency: %s", res.Panics[0])
				return
			}
			if res.Quiescent || res.Livelock {
				c.Fail("deadlock", "C11/conc/deadlock", "callers never returned: %+v", res.Blocked)
				return
			}
			if overlap {
				c.Count("executions_with_overlapping_calls", 1)
			} else {
				c.Trivial()
			}
			sort.Slice(ops, func(i, j int) bool { return ops[i].inv < ops[j].inv })
			var sb strings.Builder
			for _, o := range ops {
				fmt.Fprintf(&sb, "T%d:%s[%d,%d]=%v ", o.thread, o.val, o.inv, o.ret, o.res)
			}
			c.Observe("history", sb.String())
			if !linearizable(ops, pre) {
				c.Fail("linearizable", "C11/conc/not-linearizable", "history is not a linearizable test-and-set: %s", sb.String())
			}
			// the headline clause: of several submissions of one value exactly one is told "new"
			news := map[string]int{}
			for _, o := range ops {
				if !o.res {
					news[o.val]++
				}
			}
			for v, k := range news {
				if k > 1 {
					c.Fail("exactly-one-new", "C11/conc/two-new", "value %s was reported new %d times: %s", v, k, sb.String())
				}
			}
			for _, o := range ops {
				if pre[o.val] && !o.res {
					c.Fail("exactly-one-new", "C11/conc/preloaded-new", "preloaded value %s reported new: %s", o.val, sb.String())
				}
			}
			ents, bij, avail := replayfilter.VerifDump(f)
			if !avail || !replayfilter.VerifAvailable(f) {
				c.Count("final_states_not_readable", 1)
				return
			}
			if !bij {
				c.Fail("bijection", "C11/conc/bijection", "map and fifo out of bijection after %s", sb.String())
			}
			distinct := map[string]bool{}
			for _, o := range ops {
				distinct[o.val] = true
			}
			for _, v := range preload {
				distinct[v] = true
			}
			if len(ents) != len(distinct) {
				c.Fail("contents", "C11/conc/size", "filter holds %d entries, %d distinct values were submitted: %s", len(ents), len(distinct), sb.String())
			}
		},
	}
}

func concScenarios(cfg *mc.Config, emit func(mc.Scenario)) {
	b := 2
	if cfg.Thorough() {
		b = 3
	}
	emit(concScenario("conc/2x1-same", [][]string{{"A"}, {"A"}}, nil, b+1, cfg.Seed))
	emit(concScenario("conc/2x2-same", [][]string{{"A", "A"}, {"A", "A"}}, nil, b, cfg.Seed))
	emit(concScenario("conc/2x2-cross", [][]string{{"A", "B"}, {"B", "A"}}, nil, b, cfg.Seed))
	emit(concScenario("conc/3x1-same", [][]string{{"A"}, {"A"}, {"A"}}, nil, b, cfg.Seed))
	emit(concScenario("conc/3x1-mixed", [][]string{{"A"}, {"A"}, {"B"}}, []string{"C"}, b, cfg.Seed))
	emit(concScenario("conc/3x2-mixed", [][]string{{"A", "B"}, {"B", "A"}, {"A", "C"}}, nil, b, cfg.Seed))
	emit(concScenario("conc/2x1-preloaded", [][]string{{"A"}, {"A"}}, []string{"A"}, b, cfg.Seed))
}
