//go:build verif

package replayfilter

// Accessors to the filter's private state by field NAME at run time (package
// peek); ok=false means the representation changed and the harness uses its
// black-box oracles (the answers of TestAndSet) only.

import (
	"container/list"
	"reflect"
	"time"

	"gitlab.com/yawning/obfs4.git/internal/zzverif/peek"
)

// VerifMaxFilterSize is the documented capacity (C11: "capacity of 102400").
const VerifMaxFilterSize = 102400

// VerifEntry is one remembered value in FIFO (insertion) order.
type VerifEntry struct {
	Digest    uint64
	FirstSeen time.Time
}

// VerifDump returns the FIFO contents and whether the map and the FIFO are in
// bijection (same size, every FIFO element is the map entry of its digest and
// points back at its own list element).  ok=false: unavailable.
func VerifDump(f *ReplayFilter) (entries []VerifEntry, bijective bool, ok bool) {
	m, okM := peek.Field(f, "filter")
	lv, okL := peek.Iface(f, "fifo")
	l, isL := lv.(*list.List)
	if !okM || !okL || !isL || l == nil || m.Kind() != reflect.Map {
		return nil, false, false
	}
	bijective = m.Len() == l.Len()
	for e := l.Front(); e != nil; e = e.Next() {
		ev := reflect.ValueOf(e.Value)
		d, ok1 := peek.FieldOf(ev, "digest")
		fs, ok2 := peek.FieldOf(ev, "firstSeen")
		if !ok1 || !ok2 || d.Kind() != reflect.Uint64 {
			return nil, false, false
		}
		t, isT := fs.Interface().(time.Time)
		if !isT {
			return nil, false, false
		}
		entries = append(entries, VerifEntry{d.Uint(), t})
		me := m.MapIndex(d)
		if !me.IsValid() || me.Kind() != reflect.Ptr || me.Pointer() != ev.Pointer() {
			bijective = false
		} else if el, ok3 := peek.FieldOf(ev, "element"); ok3 {
			if p, isP := el.Interface().(*list.Element); isP && p != e {
				bijective = false
			}
		}
	}
	return entries, bijective, true
}

// VerifLen returns (len(map), len(fifo)) without walking the list.
func VerifLen(f *ReplayFilter) (int, int, bool) {
	m, okM := peek.Field(f, "filter")
	lv, okL := peek.Iface(f, "fifo")
	l, isL := lv.(*list.List)
	if !okM || !okL || !isL || l == nil || m.Kind() != reflect.Map {
		return 0, 0, false
	}
	return m.Len(), l.Len(), true
}

// VerifAvailable reports (from the types alone, so also for an empty filter)
// whether the representation is the one the accessors know: a map from uint64
// to *struct{digest uint64; firstSeen time.Time; ...} and a *list.List.
func VerifAvailable(f *ReplayFilter) bool {
	m, okM := peek.Field(f, "filter")
	lv, okL := peek.Iface(f, "fifo")
	if _, isL := lv.(*list.List); !okM || !okL || !isL || m.Kind() != reflect.Map {
		return false
	}
	et := m.Type().Elem()
	if et.Kind() != reflect.Ptr || et.Elem().Kind() != reflect.Struct || m.Type().Key().Kind() != reflect.Uint64 {
		return false
	}
	d, ok1 := et.Elem().FieldByName("digest")
	fs, ok2 := et.Elem().FieldByName("firstSeen")
	return ok1 && ok2 && d.Type.Kind() == reflect.Uint64 && fs.Type == reflect.TypeOf(time.Time{})
}
