//go:build verif

package replayfilter

import "time"

// VerifMaxFilterSize exposes the capacity constant to the harness.
const VerifMaxFilterSize = maxFilterSize

// VerifEntry is one remembered value in FIFO (insertion) order.
type VerifEntry struct {
	Digest    uint64
	FirstSeen time.Time
}

// VerifDump returns the FIFO contents and whether the map and the FIFO are in
// bijection (same size, every FIFO element is the map entry of its digest and
// points back at its own list element).
func VerifDump(f *ReplayFilter) (entries []VerifEntry, bijective bool) {
	bijective = len(f.filter) == f.fifo.Len()
	for e := f.fifo.Front(); e != nil; e = e.Next() {
		ent, _ := e.Value.(*entry)
		if ent == nil {
			return entries, false
		}
		entries = append(entries, VerifEntry{ent.digest, ent.firstSeen})
		if f.filter[ent.digest] != ent || ent.element != e {
			bijective = false
		}
	}
	return entries, bijective
}

// VerifLen returns (len(map), len(fifo)) without walking the list.
func VerifLen(f *ReplayFilter) (int, int) { return len(f.filter), f.fifo.Len() }
