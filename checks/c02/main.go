//go:build verif

// C02: the obfs4 client only completes with the holder of the bridge identity key.
package main

import (
	"bytes"
	"encoding/hex"
	"errors"
	"fmt"
	"math/big"
	"net"
	"strconv"
	"strings"
	"time"

	pt "gitlab.torproject.org/tpo/anti-censorship/pluggable-transports/goptlib"

	"gitlab.com/yawning/obfs4.git/internal/zzverif/mc"
	"gitlab.com/yawning/obfs4.git/internal/zzverif/o4h"
	"gitlab.com/yawning/obfs4.git/internal/zzverif/ref"
	"gitlab.com/yawning/obfs4.git/internal/zzverif/rnd"
	"gitlab.com/yawning/obfs4.git/internal/zzverif/sched"
	"gitlab.com/yawning/obfs4.git/internal/zzverif/wire"
	"gitlab.com/yawning/obfs4.git/transports/base"
)

func fail(c *mc.Ctx, oracle, key, format string, a ...any) {
	c.Fail(oracle, "C02/"+key, format, a...)
}

type outcome struct {
	dialErr   error
	delivered []byte // application bytes the client's Read returned
	extra     int64  // bytes the client wrote after its handshake blob
	hello     int
	panics    []string
	helloRepr []byte
	respRepr  []byte
	echoOK    bool
	srvErr    error
}

// runClient runs the real client against a scripted peer function.
func runClient(c *mc.Ctx, args *pt.Args, chunker func(*wire.Conn, int, int) []int, peer func(sw *wire.Conn), wantEcho bool) outcome {
	var o outcome
	cw, sw := wire.Pipe("client", "server")
	cw.Chunker = chunker
	res := sched.Run(c, sched.Options{NoPreempt: true, NoEarlyTimers: true, MaxSteps: 3_000_000}, func() {
		s := sched.Cur()
		s.Spawn("peer", func() { peer(sw) })
		var conn net.Conn
		conn, o.dialErr = o4h.Dial(args, cw)
		if len(cw.Out.Writes) > 0 {
			o.hello = cw.Out.Writes[0].N
		}
		if o.dialErr != nil {
			return
		}
		// a connection was established: try to use it
		msg := []byte("ping-from-client")
		if _, err := conn.Write(msg); err != nil {
			return
		}
		buf := make([]byte, 64)
		for len(o.delivered) < len(msg) {
			n, err := conn.Read(buf)
			o.delivered = append(o.delivered, buf[:n]...)
			if err != nil {
				break
			}
		}
		o.echoOK = bytes.Equal(o.delivered, msg)
		conn.Close()
	})
	o.panics = res.Panics
	o.extra = cw.Out.Total - int64(o.hello)
	_ = wantEcho
	return o
}

// genuinePeer is the reference server holding the real key; it echoes.
func genuinePeer(br *o4h.Bridge, opts o4h.ServerOpts, r *rnd.Stream, srvErr *error) func(sw *wire.Conn) {
	return func(sw *wire.Conn) {
		rs, err := o4h.RefServer(sw, br.ID, opts, r)
		if err != nil {
			*srvErr = err
			// stay connected (like a bridge would) until the client gives up
			buf := make([]byte, 4096)
			for {
				if _, e := sw.Read(buf); e != nil {
					break
				}
			}
			sw.Close()
			return
		}
		for {
			before := len(rs.Payload)
			if _, err := rs.RecvOnce(); err != nil {
				break
			}
			if len(rs.Payload) > before {
				rs.Send(rs.Payload[before:], 0)
			}
		}
		sw.Close()
	}
}

func mustFail(c *mc.Ctx, o outcome, key, what string) {
	c.Case(what, fmt.Sprint(o.dialErr != nil, len(o.delivered), o.extra))
	if len(o.panics) > 0 {
		fail(c, "no-panic", "panic/"+key, "%s: %s", what, o.panics[0])
		return
	}
	if o.dialErr == nil {
		fail(c, "must-fail", "accepted/"+key, "%s: Dial succeeded (echo worked: %v, %d application bytes delivered)", what, o.echoOK, len(o.delivered))
		return
	}
	if len(o.delivered) != 0 {
		fail(c, "must-fail", "delivered/"+key, "%s: %d application bytes were delivered", what, len(o.delivered))
	}
	if o.extra != 0 {
		fail(c, "must-fail", "wrote-after-hello/"+key, "%s: the client wrote %d bytes after its handshake", what, o.extra)
	}
}

func mustSucceed(c *mc.Ctx, o outcome, srvErr error, key, what string) {
	c.Case(what, fmt.Sprint(o.dialErr != nil, srvErr != nil, o.echoOK))
	if len(o.panics) > 0 {
		fail(c, "no-panic", "panic/"+key, "%s: %s", what, o.panics[0])
		return
	}
	if o.dialErr != nil || srvErr != nil {
		fail(c, "must-complete", "rejected/"+key, "%s: handshake with the holder of the identity key failed: Dial=%v server=%v", what, o.dialErr, srvErr)
		return
	}
	if !o.echoOK {
		fail(c, "session-keys", "echo/"+key, "%s: echo through the established connection failed (got %q)", what, o.delivered)
	}
}

func responseBounds(pad int) []int {
	return []int{32, 64, 64 + pad, 64 + pad + 16, 64 + pad + 32}
}

func splitChunker(cut int) func(*wire.Conn, int, int) []int {
	return func(c *wire.Conn, avail, want int) []int {
		d := cut - int(c.In.Read)
		if d >= 1 && d < avail {
			return []int{d}
		}
		return []int{avail}
	}
}

func scenarios(cfg *mc.Config, emit func(mc.Scenario)) {
	seed := cfg.Seed
	thorough := cfg.Thorough()
	newStreams := func(label string) *rnd.Stream {
		rnd.Install(rnd.New(seed, "c02-real-"+label))
		return rnd.New(seed, "c02-ref-"+label)
	}
	// (a) genuine server, paddings x splits
	pads := []int{0, 1, 17, 500, 8051, 8096}
	for idn := 0; idn < 2; idn++ {
		for _, format := range []string{"cert", "legacy"} {
			for _, pad := range pads {
				idn, format, pad := idn, format, pad
				name := fmt.Sprintf("genuine/id%d/%s/pad=%d", idn, format, pad)
				emit(mc.Scenario{Name: name, Params: map[string]any{"pad": pad, "format": format}, Weight: 5, Run: func(c *mc.Ctx) {
					br := o4h.NewBridge(seed, fmt.Sprint("c02/", idn), 0, false)
					var cuts []int
					for _, b := range responseBounds(pad) {
						cuts = append(cuts, b-1, b, b+1)
					}
					cuts = append(cuts, 1, 96+pad+45, 96+pad+45-1)
					if pad <= 17 {
						cuts = nil
						for k := 1; k < 96+pad+45; k++ {
							cuts = append(cuts, k)
						}
					}
					chunkers := map[string]func(*wire.Conn, int, int) []int{"whole": nil}
					if pad <= 500 {
						chunkers["dribble"] = wire.Dribble
					}
					for _, k := range cuts {
						chunkers[fmt.Sprintf("split@%d", k)] = splitChunker(k)
					}
					reprs := map[string]bool{}
					for cn, ch := range chunkers {
						r := newStreams(name + cn)
						var srvErr error
						o := runClient(c, br.ClientArgs(format, nil), ch, genuinePeer(br, o4h.ServerOpts{PadLen: pad, LenSeed: br.Seed}, r, &srvErr), true)
						c.AddExecutions(1)
						c.Count("genuine_handshakes", 1)
						mustSucceed(c, o, srvErr, "genuine", fmt.Sprintf("genuine server, pad %d, %s, %s", pad, format, cn))
						_ = reprs
					}
					c.Observe("done", len(chunkers))
				}})
			}
		}
	}
	// (b) impostors: know the whole public bridge line, not the private key
	emit(mc.Scenario{Name: "impostor", Weight: 5, Run: func(c *mc.Ctx) {
		br := o4h.NewBridge(seed, "c02/0", 0, false)
		other := o4h.NewBridge(seed, "c02/other", 0, false)
		kinds := map[string]o4h.ServerOpts{
			"auth-from-other-key": {PadLen: 10, LenSeed: br.Seed, Priv: other.ID.Priv[:]},
			"auth-random":         {PadLen: 10, LenSeed: br.Seed, ForgeAuth: bytes.Repeat([]byte{0x5a}, 32)},
			"auth-zero":           {PadLen: 10, LenSeed: br.Seed, ForgeAuth: make([]byte, 32)},
		}
		for kn, opts := range kinds {
			for cn, ch := range map[string]func(*wire.Conn, int, int) []int{"whole": nil, "dribble": wire.Dribble, "split@64": splitChunker(64)} {
				r := newStreams("impostor" + kn + cn)
				var srvErr error
				o := runClient(c, br.ClientArgs("cert", nil), ch, genuinePeer(br, opts, r, &srvErr), false)
				c.AddExecutions(1)
				c.Count("impostor_handshakes", 1)
				mustFail(c, o, "impostor/"+kn, fmt.Sprintf("impostor (%s, %s)", kn, cn))
			}
		}
		// a genuine AUTH and Y' recorded from an earlier session, replayed with a fresh MAC
		{
			r := newStreams("impostor-replay-1")
			var recorded []byte
			var srvErr error
			o := runClient(c, br.ClientArgs("cert", nil), nil, genuinePeer(br, o4h.ServerOpts{PadLen: 5, LenSeed: br.Seed, Mutate: func(resp []byte) []byte { recorded = append([]byte{}, resp...); return resp }}, r, &srvErr), true)
			mustSucceed(c, o, srvErr, "genuine", "recording session")
			r2 := newStreams("impostor-replay-2")
			o2 := runClient(c, br.ClientArgs("cert", nil), nil, genuinePeer(br, o4h.ServerOpts{PadLen: 5, LenSeed: br.Seed, Priv: other.ID.Priv[:], Mutate: func(resp []byte) []byte {
				// splice the recorded Y'|AUTH into a response with a valid mark/MAC for them
				fresh := ref.ServerHello(br.ID.Pub[:], br.ID.NodeID[:], recorded[:32], recorded[32:64], make([]byte, 5), o4h.Hour())
				return fresh
			}}, r2, &srvErr), false)
			c.AddExecutions(2)
			mustFail(c, o2, "impostor/replayed-y-auth", "impostor replaying Y'|AUTH of an earlier genuine session with a fresh mark/MAC")
		}
		c.Observe("done", 1)
	}})
	// (c) every single-bit modification of a genuine response
	for _, pad := range []int{0, 9, 40} {
		pad := pad
		total := 96 + pad
		step := 1
		for lo := 0; lo < total; lo += 12 {
			lo := lo
			hi := lo + 12
			if hi > total {
				hi = total
			}
			emit(mc.Scenario{Name: fmt.Sprintf("bitflip/pad=%d/bytes=%d..%d", pad, lo, hi-1), Weight: 20, Run: func(c *mc.Ctx) {
				br := o4h.NewBridge(seed, "c02/0", 0, false)
				for i := lo; i < hi; i += step {
					for b := uint(0); b < 8; b++ {
						chs := map[string]func(*wire.Conn, int, int) []int{"whole": nil, "split-at-flip": splitChunker(i)}
						if thorough || (i%7 == 0 && b == 0) {
							chs["dribble"] = wire.Dribble
						}
						for cn, ch := range chs {
							r := newStreams(fmt.Sprint("flip", pad, i, b, cn))
							var srvErr error
							i, b := i, b
							o := runClient(c, br.ClientArgs("cert", nil), ch, genuinePeer(br, o4h.ServerOpts{PadLen: pad, LenSeed: br.Seed, Mutate: func(resp []byte) []byte { resp[i] ^= 1 << b; return resp }}, r, &srvErr), false)
							c.AddExecutions(1)
							c.Count("bitflip_handshakes", 1)
							mustFail(c, o, "bitflip/"+field(i, pad), fmt.Sprintf("response byte %d bit %d flipped (pad %d, %s)", i, b, pad, cn))
						}
					}
				}
				c.Observe("done", hi-lo)
			}})
		}
	}
	// (d) client configured with a different node ID / public key against the REAL server
	emit(mc.Scenario{Name: "wrong-config", Weight: 10, Run: func(c *mc.Ctx) {
		br := o4h.NewBridge(seed, "c02/0", 0, false)
		type cfgT struct {
			name string
			mut  func(id *ref.Identity)
		}
		var cfgs []cfgT
		for _, bit := range []int{0, 77, 159} {
			bit := bit
			cfgs = append(cfgs, cfgT{fmt.Sprintf("node-id-bit%d", bit), func(id *ref.Identity) { id.NodeID[bit/8] ^= 1 << uint(bit%8) }})
		}
		for _, bit := range []int{0, 100, 254} {
			bit := bit
			cfgs = append(cfgs, cfgT{fmt.Sprintf("public-key-bit%d", bit), func(id *ref.Identity) { id.Pub[bit/8] ^= 1 << uint(bit%8) }})
		}
		cfgs = append(cfgs, cfgT{"other-node-id", func(id *ref.Identity) { copy(id.NodeID[:], bytes.Repeat([]byte{7}, 20)) }})
		cfgs = append(cfgs, cfgT{"other-public-key", func(id *ref.Identity) { id.Pub = o4h.NewBridge(seed, "c02/other", 0, false).ID.Pub }})
		for _, cf := range cfgs {
			for _, format := range []string{"cert", "legacy"} {
				rnd.Install(rnd.New(seed, "c02-real-wrong"+cf.name+format))
				sf, err := br.ServerFactory()
				if err != nil {
					fail(c, "setup", "setup", "%v", err)
					return
				}
				wrong := *br
				id := *br.ID
				cf.mut(&id)
				wrong.ID = &id
				var wrapErr error
				o := runClient(c, wrong.ClientArgs(format, nil), nil, func(sw *wire.Conn) {
					_, wrapErr = sf.WrapConn(sw)
				}, false)
				c.AddExecutions(1)
				c.Count("wrong_config_handshakes", 1)
				mustFail(c, o, "wrong-config/"+cf.name, fmt.Sprintf("client configured with %s (%s) against the real server", cf.name, format))
				if wrapErr == nil {
					fail(c, "must-fail", "server-accepted/wrong-config", "the real server accepted a client configured with %s", cf.name)
				}
			}
		}
		c.Observe("done", len(cfgs))
	}})
	// (e) a bridge line whose public key is a low-order point: nobody holds a
	// private key for it, an impostor who only reads the bridge line must fail
	emit(mc.Scenario{Name: "low-order-identity", Weight: 5, Run: func(c *mc.Ctx) {
		br := o4h.NewBridge(seed, "c02/0", 0, false)
		for i, u := range ref.LowOrderU() {
			pub := ref.ToLE(new(big.Int).Mod(u, new(big.Int).Lsh(big.NewInt(1), 256)))
			a := pt.Args{}
			a.Add("node-id", hex.EncodeToString(br.ID.NodeID[:]))
			a.Add("public-key", hex.EncodeToString(pub))
			a.Add("iat-mode", strconv.Itoa(0))
			r := newStreams(fmt.Sprint("loworder", i))
			// the impostor uses only public information: with B low-order, EXP(B,x) = 0
			imp := *br
			id := *br.ID
			copy(id.Pub[:], pub)
			imp.ID = &id
			o := runClient(c, &a, nil, func(sw *wire.Conn) {
				lowOrderImpostor(sw, &imp, r)
			}, false)
			c.AddExecutions(1)
			c.Count("low_order_identity_handshakes", 1)
			mustFail(c, o, "low-order-identity", fmt.Sprintf("bridge line with low-order public key #%d (impostor computing AUTH from public data)", i))
		}
		c.Observe("done", 1)
	}})
	// (f) concurrent real clients against one real server factory
	b := 2
	if thorough {
		b = 3
	}
	for _, first := range []string{"resp-write-error", "client-leaves", "garbage", "ok"} {
		emit(abortedThenConnect(seed, first))
	}
	emit(twoBridges(seed))
	for _, d := range []time.Duration{0, 2 * time.Second, 20 * time.Second} {
		emit(hourBoundary(seed, d))
	}
	for _, order := range [][]string{{"P0", "P1", "D0", "D1"}, {"P0", "P1", "D1", "D0"}, {"P0", "D0", "P1", "P2", "D2", "D1"}} {
		emit(parseDialOrders(seed, order))
	}
	type concT struct {
		n     int
		kinds []string
		bound int
		name  string
	}
	concs := []concT{{2, []string{"write", "read"}, b, "concurrent/2-clients"}, {3, []string{"write", "read"}, b, "concurrent/3-clients"},
		// statement granularity inside the handshake functions of both roles:
		// state shared between the connections of one factory shows here
		{2, []string{"stmt"}, 1, "concurrent-stmt/2-clients"}}
	if !thorough {
		concs[1].bound = 1
	} else {
		concs[2].bound = 2
	}
	for _, cc := range concs {
		n := cc.n
		bb := cc.bound
		kinds := cc.kinds
		emit(mc.Scenario{Name: cc.name, Bound: bb, Weight: 300, Run: func(c *mc.Ctx) {
			br := o4h.NewBridge(seed, "c02/0", 0, false)
			rnd.Install(rnd.New(seed, "c02-real-conc"))
			sf, err := br.ServerFactory()
			if err != nil {
				fail(c, "setup", "setup", "%v", err)
				return
			}
			type pair struct {
				cw, sw           *wire.Conn
				dialErr, wrapErr error
				echo             []byte
				srvGot           []byte
			}
			ps := make([]*pair, n)
			res := sched.Run(c, sched.Options{PreemptKinds: kinds, NoEarlyTimers: true, MaxSteps: 3_000_000}, func() {
				s := sched.Cur()
				for i := 0; i < n; i++ {
					p := &pair{}
					p.cw, p.sw = wire.Pipe(fmt.Sprintf("client%d", i), fmt.Sprintf("server%d", i))
					ps[i] = p
				}
				// with statement granularity the clients come first: both
				// requests are on the wire when the servers start, so that one
				// preemption inside a handshake function lets the other
				// server run its whole handshake in between
				order := []string{"server", "client"}
				if kinds[0] == "stmt" {
					order = []string{"clients-first"}
				}
				spawnServer := func(i int) {
					p := ps[i]
					s.Spawn(fmt.Sprintf("server%d", i), func() {
						var conn net.Conn
						conn, p.wrapErr = sf.WrapConn(p.sw)
						if p.wrapErr != nil {
							return
						}
						buf := make([]byte, 64)
						nr, err := conn.Read(buf)
						if err != nil {
							return
						}
						p.srvGot = append([]byte{}, buf[:nr]...)
						conn.Write(buf[:nr])
					})
				}
				spawnClient := func(i int) {
					p := ps[i]
					s.Spawn(fmt.Sprintf("client%d", i), func() {
						var conn net.Conn
						conn, p.dialErr = o4h.Dial(br.ClientArgs("cert", sf), p.cw)
						if p.dialErr != nil {
							return
						}
						msg := []byte(fmt.Sprintf("hello-from-client-%d", i))
						conn.Write(msg)
						buf := make([]byte, 64)
						for len(p.echo) < len(msg) {
							nr, err := conn.Read(buf)
							p.echo = append(p.echo, buf[:nr]...)
							if err != nil {
								break
							}
						}
					})
				}
				if order[0] == "clients-first" {
					for i := 0; i < n; i++ {
						spawnClient(i)
					}
					for i := 0; i < n; i++ {
						spawnServer(i)
					}
				} else {
					for i := 0; i < n; i++ {
						spawnServer(i)
						spawnClient(i)
					}
				}
			})
			if len(res.Panics) > 0 {
				fail(c, "no-panic", "panic/concurrent", "%s", res.Panics[0])
				return
			}
			reprs := map[string]string{}
			var sum []string
			for i, p := range ps {
				want := fmt.Sprintf("hello-from-client-%d", i)
				sum = append(sum, fmt.Sprintf("%v/%v/%s", p.dialErr != nil, p.wrapErr != nil, p.echo))
				if p.dialErr != nil || p.wrapErr != nil {
					fail(c, "must-complete", "rejected/concurrent", "client %d of %d concurrent clients: Dial=%v WrapConn=%v", i, n, p.dialErr, p.wrapErr)
					continue
				}
				if string(p.echo) != want || string(p.srvGot) != want {
					fail(c, "session-keys", "echo/concurrent", "client %d: echo %q, server saw %q, want %q (connections crossed or keys differ)", i, p.echo, p.srvGot, want)
				}
				// fresh ephemeral keys on every connection
				if len(p.cw.Out.Writes) > 0 && len(p.sw.Out.Writes) > 0 {
					cr := hex.EncodeToString(p.cw.Out.Buf[:0]) // placeholder, representatives are taken from the write log below
					_ = cr
				}
			}
			for i, p := range ps {
				h := p.sw.In // client -> server direction
				_ = h
				cRepr := firstBytes(p.cw, 32)
				sRepr := firstBytes(p.sw, 32)
				for _, kv := range [][2]string{{"client", cRepr}, {"server", sRepr}} {
					if kv[1] == "" {
						continue
					}
					if prev, dup := reprs[kv[1]]; dup {
						fail(c, "fresh-ephemerals", "ephemeral-reuse", "%s representative of connection %d equals %s", kv[0], i, prev)
					}
					reprs[kv[1]] = fmt.Sprintf("%s representative of connection %d", kv[0], i)
				}
			}
			c.Observe("conc", fmt.Sprint(sum))
		}})
	}
}

// firstBytes returns the hex of the first n bytes an endpoint ever wrote.
// abortedThenConnect: histories of connections of one process in which some
// fail at a chosen point; every server response that reached the wire, whether
// or not its connection survived, carries an ephemeral key no other one has.
//
//	resp-write-error: the server's response reaches the peer but the write
//	    reports an error (the peer reset right behind it);
//	client-leaves: the client disconnects after a valid handshake, before reading;
//	garbage: an invalid handshake (never answered).
// parseDialOrders: tor opens several connections to one bridge at once, so the
// arguments of several connections are parsed before any of them is dialled
// (Pi = ParseArgs for connection i, Di = Dial with the object Pi returned; every
// parsed object is dialled once). Every connection completes with the genuine
// bridge, carries data, and presents an ephemeral key no other connection has.
func parseDialOrders(seed int64, order []string) mc.Scenario {
	return mc.Scenario{Name: "parse-dial-orders/" + strings.Join(order, "-"), Weight: 10, Run: func(c *mc.Ctx) {
		br := o4h.NewBridge(seed, "c02/0", 0, false)
		rnd.Install(rnd.New(seed, "c02-real-orders"))
		sf, err := br.ServerFactory()
		if err != nil {
			fail(c, "setup", "setup", "%v", err)
			return
		}
		parsed := map[string]interface{}{}
		reprs := map[string]string{}
		var sum []string
		res := sched.Run(c, sched.Options{NoPreempt: true, NoEarlyTimers: true, MaxSteps: 3_000_000}, func() {
			s := sched.Cur()
			for _, op := range order {
				i := op[1:]
				if op[0] == 'P' {
					pa, err := o4h.ParseArgs(br.ClientArgs("cert", sf))
					if err != nil {
						fail(c, "setup", "setup", "ParseArgs: %v", err)
						return
					}
					parsed[i] = pa
					continue
				}
				cw, sw := wire.Pipe("client"+i, "server"+i)
				var srvGot []byte
				var wrapErr error
				done := false
				s.Spawn("server"+i, func() {
					defer func() { done = true }()
					var conn net.Conn
					conn, wrapErr = sf.WrapConn(sw)
					if wrapErr != nil {
						return
					}
					buf := make([]byte, 64)
					nr, err := conn.Read(buf)
					if err != nil {
						return
					}
					srvGot = append([]byte{}, buf[:nr]...)
					conn.Write(buf[:nr])
				})
				conn, dialErr := o4h.DialParsed(parsed[i], cw)
				var echo []byte
				msg := []byte("hello-from-connection-" + i)
				if dialErr == nil {
					conn.Write(msg)
					buf := make([]byte, 64)
					for len(echo) < len(msg) {
						nr, err := conn.Read(buf)
						echo = append(echo, buf[:nr]...)
						if err != nil {
							break
						}
					}
					conn.Close()
				} else {
					cw.Close()
				}
				s.Point("server-done"+i, func() bool { return done })
				sum = append(sum, fmt.Sprintf("%s:%v/%v/%s", op, dialErr != nil, wrapErr != nil, echo))
				if dialErr != nil || wrapErr != nil {
					fail(c, "must-complete", "rejected/parse-dial-orders", "connection %s of %v: Dial=%v WrapConn=%v", i, order, dialErr, wrapErr)
					return
				}
				if !bytes.Equal(echo, msg) || !bytes.Equal(srvGot, msg) {
					fail(c, "session-keys", "echo/parse-dial-orders", "connection %s of %v: echo %q, server saw %q, want %q", i, order, echo, srvGot, msg)
					return
				}
				for _, kv := range [][2]string{{"client", firstBytes(cw, 32)}, {"server", firstBytes(sw, 32)}} {
					if prev, dup := reprs[kv[1]]; dup {
						fail(c, "fresh-ephemerals", "ephemeral-reuse/parse-dial-orders", "%v: the %s representative of connection %s equals %s", order, kv[0], i, prev)
						return
					}
					reprs[kv[1]] = fmt.Sprintf("the %s representative of connection %s", kv[0], i)
				}
			}
		})
		if len(res.Panics) > 0 {
			fail(c, "no-panic", "panic/parse-dial-orders", "%s", res.Panics[0])
		}
		c.Observe("orders", fmt.Sprint(sum))
	}}
}

// twoBridges: one client factory (one process) used for two bridges with
// different identities, alternately; every connection completes with its own
// bridge and carries data, and a bridge line of A dialled to B's server fails
// -- also after A and B have both been used (state a factory keeps per bridge).
func twoBridges(seed int64) mc.Scenario {
	return mc.Scenario{Name: "two-bridges/one-factory", Weight: 10, Run: func(c *mc.Ctx) {
		brs := map[byte]*o4h.Bridge{'A': o4h.NewBridge(seed, "c02/A", 0, false), 'B': o4h.NewBridge(seed, "c02/B", 0, false)}
		rnd.Install(rnd.New(seed, "c02-real-two"))
		sfs := map[byte]base.ServerFactory{}
		for k, br := range brs {
			sf, err := br.ServerFactory()
			if err != nil {
				fail(c, "setup", "setup", "%v", err)
				return
			}
			sfs[k] = sf
		}
		var sum []string
		res := sched.Run(c, sched.Options{NoPreempt: true, NoEarlyTimers: true, MaxSteps: 3_000_000}, func() {
			s := sched.Cur()
			// step "XY": the bridge line of X dialled to the server of Y
			for i, step := range []string{"AA", "BB", "AB", "AA", "BA", "BB"} {
				line, srv := step[0], step[1]
				cw, sw := wire.Pipe(fmt.Sprint("client", i), fmt.Sprint("server", i))
				var wrapErr error
				var srvGot []byte
				done := false
				s.Spawn(fmt.Sprint("server", i), func() {
					defer func() { done = true }()
					var conn net.Conn
					conn, wrapErr = sfs[srv].WrapConn(sw)
					if wrapErr != nil {
						return
					}
					buf := make([]byte, 64)
					nr, err := conn.Read(buf)
					if err != nil {
						return
					}
					srvGot = append([]byte{}, buf[:nr]...)
					conn.Write(buf[:nr])
				})
				conn, dialErr := o4h.Dial(brs[line].ClientArgs("cert", sfs[line]), cw)
				msg := []byte(fmt.Sprintf("hello-%d-%s", i, step))
				var echo []byte
				if dialErr == nil {
					conn.Write(msg)
					buf := make([]byte, 64)
					for len(echo) < len(msg) {
						nr, err := conn.Read(buf)
						echo = append(echo, buf[:nr]...)
						if err != nil {
							break
						}
					}
					conn.Close()
				} else {
					cw.Close()
				}
				s.Point(fmt.Sprint("server-done", i), func() bool { return done || line != srv })
				sum = append(sum, fmt.Sprintf("%s:%v/%v/%d", step, dialErr != nil, wrapErr != nil, len(echo)))
				what := fmt.Sprintf("step %d: the bridge line of %c dialled to the server of %c (history AA BB AB AA BA BB, one client factory)", i, line, srv)
				if line == srv {
					if dialErr != nil || wrapErr != nil {
						fail(c, "must-complete", "rejected/two-bridges", "%s: Dial=%v WrapConn=%v", what, dialErr, wrapErr)
						return
					}
					if !bytes.Equal(echo, msg) || !bytes.Equal(srvGot, msg) {
						fail(c, "session-keys", "echo/two-bridges", "%s: echo %q, server saw %q, want %q", what, echo, srvGot, msg)
						return
					}
				} else if dialErr == nil {
					fail(c, "must-fail", "completed/two-bridges", "%s: the handshake completed (echo %q)", what, echo)
					return
				} else if len(srvGot) > 0 {
					fail(c, "must-fail", "data/two-bridges", "%s: the server received application data %q", what, srvGot)
					return
				}
			}
		})
		if len(res.Panics) > 0 {
			fail(c, "no-panic", "panic/two-bridges", "%s", res.Panics[0])
		}
		c.Observe("two", fmt.Sprint(sum))
	}}
}

// hourBoundary: the client's handshake is stamped one second before the top of
// an hour and reaches the bridge (delay) seconds later, in the next hour (or the
// bridge's answer reaches the client in the next hour): the genuine bridge
// still completes and data flows both ways.
func hourBoundary(seed int64, delay time.Duration) mc.Scenario {
	return mc.Scenario{Name: fmt.Sprintf("hour-boundary/delay=%v", delay), Weight: 10, Run: func(c *mc.Ctx) {
		br := o4h.NewBridge(seed, "c02/0", 0, false)
		rnd.Install(rnd.New(seed, "c02-real-hour"))
		sf, err := br.ServerFactory()
		if err != nil {
			fail(c, "setup", "setup", "%v", err)
			return
		}
		var dialErr, wrapErr error
		var echo, srvGot []byte
		msg := []byte("hello-across-the-hour")
		at := time.Unix(1_700_000_000, 0).Truncate(time.Hour).Add(time.Hour - time.Second)
		res := sched.Run(c, sched.Options{NoPreempt: true, NoEarlyTimers: true, Start: at, MaxSteps: 3_000_000}, func() {
			s := sched.Cur()
			cw, sw := wire.Pipe("client", "server")
			done := false
			s.Spawn("server", func() {
				defer func() { done = true }()
				sched.Sleep(delay) // the client's first flight is on its way
				var conn net.Conn
				conn, wrapErr = sf.WrapConn(sw)
				if wrapErr != nil {
					return
				}
				buf := make([]byte, 64)
				nr, err := conn.Read(buf)
				if err != nil {
					return
				}
				srvGot = append([]byte{}, buf[:nr]...)
				conn.Write(buf[:nr])
			})
			var conn net.Conn
			conn, dialErr = o4h.Dial(br.ClientArgs("cert", sf), cw)
			if dialErr == nil {
				conn.Write(msg)
				buf := make([]byte, 64)
				for len(echo) < len(msg) {
					nr, err := conn.Read(buf)
					echo = append(echo, buf[:nr]...)
					if err != nil {
						break
					}
				}
				conn.Close()
			} else {
				cw.Close()
			}
			s.Point("server-done", func() bool { return done })
		})
		if len(res.Panics) > 0 {
			fail(c, "no-panic", "panic/hour-boundary", "%s", res.Panics[0])
			return
		}
		c.Observe("hour", fmt.Sprint(dialErr, wrapErr, len(echo)))
		if dialErr != nil || wrapErr != nil {
			fail(c, "must-complete", "rejected/hour-boundary", "client handshake stamped 1 s before the top of the hour, processed by the genuine bridge %v later: Dial=%v WrapConn=%v", delay, dialErr, wrapErr)
		} else if !bytes.Equal(echo, msg) || !bytes.Equal(srvGot, msg) {
			fail(c, "session-keys", "echo/hour-boundary", "echo %q, server saw %q, want %q", echo, srvGot, msg)
		}
	}}
}

func abortedThenConnect(seed int64, first string) mc.Scenario {
	return mc.Scenario{Name: "aborted-then-connect/" + first, Weight: 20, Run: func(c *mc.Ctx) {
		br := o4h.NewBridge(seed, "c02/0", 0, false)
		rnd.Install(rnd.New(seed, "c02-real-aborted"))
		sf, err := br.ServerFactory()
		if err != nil {
			fail(c, "setup", "setup", "%v", err)
			return
		}
		var resp []string
		var errs []error
		res := sched.Run(c, sched.Options{NoPreempt: true, NoEarlyTimers: true, MaxSteps: 3_000_000}, func() {
			s := sched.Cur()
			for i, kind := range []string{first, first, "ok", "ok"} {
				cw, sw := wire.Pipe(fmt.Sprintf("client%d", i), fmt.Sprintf("server%d", i))
				refRnd := rnd.New(seed, fmt.Sprint("c02-ref-aborted-", i))
				done := false
				switch kind {
				case "resp-write-error":
					sw.WriteFaultAfter = func(n int, _ []byte) error {
						if n == 0 {
							return errors.New("connection reset by peer")
						}
						return nil
					}
				}
				s.Spawn(fmt.Sprintf("client%d", i), func() {
					defer func() { done = true }()
					if kind == "garbage" {
						cw.Write(refRnd.Bytes(300))
						cw.Close()
						return
					}
					if kind == "client-leaves" {
						// a valid request, then gone
						hello := ref.ClientHello(br.ID.Pub[:], br.ID.NodeID[:], ref.NewEphemeral(refRnd).Repr[:], refRnd.Bytes(90), o4h.Hour())
						cw.Write(hello)
						cw.Close()
						return
					}
					rs, _, err := o4h.RefClient(cw, br.ID.Pub[:], br.ID.NodeID[:], o4h.ClientOpts{PadLen: 90}, refRnd)
					if err == nil && kind == "ok" {
						rs.Send([]byte("ping"), 0)
					}
					buf := make([]byte, 4096)
					for {
						if _, err := cw.Read(buf); err != nil {
							break
						}
					}
					cw.Close()
				})
				conn, err := sf.WrapConn(sw)
				errs = append(errs, err)
				if err == nil {
					b := make([]byte, 16)
					conn.Read(b)
					conn.Close()
				} else {
					sw.Close()
				}
				s.Point("client-done", func() bool { return done })
				resp = append(resp, firstBytes(sw, 32))
			}
		})
		if len(res.Panics) > 0 {
			fail(c, "no-panic", "panic/aborted", "%s", res.Panics[0])
			return
		}
		c.Observe("errs", fmt.Sprint(errs))
		if len(errs) == 4 && (errs[2] != nil || errs[3] != nil) {
			fail(c, "must-complete", "rejected/after-aborted", "a genuine client after %q connections was not served: %v", first, errs)
			return
		}
		seen := map[string]int{}
		for i, r := range resp {
			if r == "" {
				continue // nothing reached the wire
			}
			if j, dup := seen[r]; dup {
				fail(c, "fresh-ephemerals", "ephemeral-reuse/after-aborted", "the server response of connection %d carries the same ephemeral representative as that of connection %d (history: %s, %s, ok, ok)", i, j, first, first)
				return
			}
			seen[r] = i
		}
	}}
}

func firstBytes(w *wire.Conn, n int) string {
	if w.First == nil || len(w.First) < n {
		return ""
	}
	return hex.EncodeToString(w.First[:n])
}

func field(i, pad int) string {
	switch {
	case i < 32:
		return "Y"
	case i < 64:
		return "AUTH"
	case i < 64+pad:
		return "P_S"
	case i < 64+pad+16:
		return "M_S"
	}
	return "MAC_S"
}

// lowOrderImpostor answers a client whose configured identity key B is a
// low-order point using public information only: EXP(B,x) is all-zero whatever x is.
func lowOrderImpostor(sw *wire.Conn, br *o4h.Bridge, r *rnd.Stream) {
	B, id := br.ID.Pub[:], br.ID.NodeID[:]
	var buf []byte
	tmp := make([]byte, 16384)
	var xrepr []byte
	var hour int64
	for {
		n, err := sw.Read(tmp)
		buf = append(buf, tmp[:n]...)
		h := o4h.Hour()
		var perr error
		xrepr, hour, perr = ref.ParseClientHello(B, id, buf, []int64{h, h - 1, h + 1})
		if perr == nil {
			break
		}
		if err != nil || perr != ref.ErrNeedMore {
			sw.Close()
			return
		}
	}
	eph := ref.NewEphemeral(r)
	X := ref.ReprToPub(xrepr)
	e1, _ := ref.DH(eph.Priv[:], X)
	e2 := make([]byte, 32) // EXP(B,x) = 0 for a low-order B
	ks, auth := ref.Ntor(e1, e2, B, X, eph.Pub[:], id)
	resp := ref.ServerHello(B, id, eph.Repr[:], auth, nil, hour)
	okm := ref.Kdf(ks, 144)
	tx := ref.NewLinkKey(okm[72:])
	out := append(resp, tx.Seal(ref.Packet(ref.PktSeed, br.Seed, 0))...)
	out = append(out, tx.Seal(ref.Packet(ref.PktPayload, []byte("ping-from-client"), 0))...)
	sw.Write(out)
	b2 := make([]byte, 4096)
	for {
		if _, err := sw.Read(b2); err != nil {
			break
		}
	}
	sw.Close()
}

func main() { mc.Main("C02", scenarios) }
