//go:build verif

// C13: obfs3 and UniformDH: agreement, stream integrity and spec conformance.
package main

import (
	"bytes"
	"errors"
	"fmt"
	"io"
	"math/big"
	"net"
	"strings"
	"time"

	pt "gitlab.torproject.org/tpo/anti-censorship/pluggable-transports/goptlib"

	"gitlab.com/yawning/obfs4.git/common/uniformdh"
	"gitlab.com/yawning/obfs4.git/internal/zzverif/mc"
	"gitlab.com/yawning/obfs4.git/internal/zzverif/o4h"
	"gitlab.com/yawning/obfs4.git/internal/zzverif/ref"
	"gitlab.com/yawning/obfs4.git/internal/zzverif/rnd"
	"gitlab.com/yawning/obfs4.git/internal/zzverif/sched"
	"gitlab.com/yawning/obfs4.git/internal/zzverif/wire"
	"gitlab.com/yawning/obfs4.git/transports/obfs3"
)

func fail(c *mc.Ctx, oracle, key, format string, a ...any) {
	c.Fail(oracle, "C13/"+key, format, a...)
}

// ---- UniformDH ------------------------------------------------------------------------

func be192(x *big.Int) []byte {
	b := make([]byte, 192)
	x.FillBytes(b)
	return b
}

func keyAlphabet(seed int64, thorough bool) map[string][]byte {
	one := big.NewInt(1)
	pow := func(n uint) *big.Int { return new(big.Int).Lsh(one, n) }
	ks := map[string][]byte{
		"0": be192(big.NewInt(0)), "1": be192(one), "2": be192(big.NewInt(2)), "3": be192(big.NewInt(3)),
		"2^1535": be192(pow(1535)), "2^1536-1": be192(new(big.Int).Sub(pow(1536), one)), "2^1536-2": be192(new(big.Int).Sub(pow(1536), big.NewInt(2))),
	}
	step := 24
	if thorough {
		step = 1
	}
	for i := 0; i < 192; i += step {
		ks[fmt.Sprintf("bit%d", i*8)] = be192(pow(uint(i * 8)))
		ks[fmt.Sprintf("bit%d+1", i*8)] = be192(new(big.Int).Add(pow(uint(i*8)), one))
	}
	K := 4
	if thorough {
		K = 12
	}
	for i := 0; i < K; i++ {
		ks[fmt.Sprintf("rnd%d", i)] = rnd.New(seed, fmt.Sprint("c13-key-", i)).Bytes(192)
	}
	// keys whose public key has a leading zero byte (about 1 in 256)
	for i, found := 0, 0; i < 4000 && found < 2; i++ {
		p := rnd.New(seed, fmt.Sprint("c13-small-", i)).Bytes(192)
		if ref.NewDHKey(p).Wire[0] == 0 {
			ks[fmt.Sprintf("small-public-%d", found)] = p
			found++
		}
	}
	return ks
}

func realKey(priv []byte) (*uniformdh.PrivateKey, error) {
	return uniformdh.GenerateKey(bytes.NewReader(priv))
}

func dhPair(c *mc.Ctx, an string, a []byte, bn string, b []byte) {
	ka, err1 := realKey(a)
	kb, err2 := realKey(b)
	if err1 != nil || err2 != nil {
		fail(c, "dh", "dh/generate", "GenerateKey failed: %v %v", err1, err2)
		return
	}
	ra, rb := ref.NewDHKey(a), ref.NewDHKey(b)
	pa, _ := ka.PublicKey.Bytes()
	pb, _ := kb.PublicKey.Bytes()
	if len(pa) != 192 || len(pb) != 192 {
		fail(c, "dh", "dh/public-length", "public key lengths %d, %d (keys %s, %s)", len(pa), len(pb), an, bn)
		return
	}
	if !bytes.Equal(pa, ra.Wire) || !bytes.Equal(pb, rb.Wire) {
		fail(c, "dh", "dh/public-value", "public key of %s or %s differs from the reference (X / p-X, 192 bytes big-endian)", an, bn)
		return
	}
	// exchange through the wire encoding, as a transport does
	var wa, wb uniformdh.PublicKey
	if err := wa.SetBytes(pa); err != nil {
		fail(c, "dh", "dh/setbytes", "%v", err)
		return
	}
	if err := wb.SetBytes(pb); err != nil {
		fail(c, "dh", "dh/setbytes", "%v", err)
		return
	}
	sa, err1 := uniformdh.Handshake(ka, &wb)
	sb, err2 := uniformdh.Handshake(kb, &wa)
	if err1 != nil || err2 != nil {
		fail(c, "dh", "dh/handshake-error", "%v %v", err1, err2)
		return
	}
	if len(sa) != 192 || !bytes.Equal(sa, sb) {
		fail(c, "dh", "dh/agreement", "keys %s and %s derive different shared secrets", an, bn)
		return
	}
	if !bytes.Equal(sa, ra.Shared(rb.Wire)) {
		fail(c, "dh", "dh/reference", "shared secret of %s and %s differs from the reference", an, bn)
		return
	}
	// whichever of X or p-X the peer sent
	alt := be192(new(big.Int).Sub(ref.DHP, new(big.Int).SetBytes(pb)))
	var walt uniformdh.PublicKey
	walt.SetBytes(alt)
	salt, _ := uniformdh.Handshake(ka, &walt)
	if !bytes.Equal(salt, sa) {
		fail(c, "dh", "dh/x-or-p-minus-x", "the shared secret depends on whether the peer sent X or p-X (keys %s, %s)", an, bn)
	}
	// the same objects used again (a retry; one parsed peer key serving several
	// handshakes; a key's own public half): same answers, arguments untouched
	sa2, _ := uniformdh.Handshake(ka, &wb)
	sb2, _ := uniformdh.Handshake(kb, &wa)
	if !bytes.Equal(sa2, sa) || !bytes.Equal(sb2, sa) {
		fail(c, "dh", "dh/second-use", "a second Handshake with the same key objects (%s, %s) derives a different shared secret than the first", an, bn)
		return
	}
	if wbAfter, _ := wb.Bytes(); !bytes.Equal(wbAfter, pb) {
		fail(c, "dh", "dh/argument-modified", "Handshake modified the peer public key it was given (key %s)", bn)
		return
	}
	if own, _ := ka.PublicKey.Bytes(); !bytes.Equal(own, pa) {
		fail(c, "dh", "dh/argument-modified", "Handshake modified its own key pair (key %s)", an)
		return
	}
	if ss, _ := uniformdh.Handshake(kb, &ka.PublicKey); !bytes.Equal(ss, sa) {
		fail(c, "dh", "dh/second-use", "Handshake with the peer's in-memory public key (not re-parsed) gives a different secret (keys %s, %s)", an, bn)
		return
	}
	if ss, _ := uniformdh.Handshake(kb, &ka.PublicKey); !bytes.Equal(ss, sa) {
		fail(c, "dh", "dh/second-use", "a second Handshake with the peer's in-memory public key gives a different secret (keys %s, %s)", an, bn)
		return
	}
	c.Observe(an+"/"+bn, fmt.Sprintf("%x", sa[:4]))
}

// ---- obfs3 ------------------------------------------------------------------------------

func realConn(role string, w *wire.Conn) (net.Conn, error) {
	t := &obfs3.Transport{}
	if role == "client" {
		cf, _ := t.ClientFactory("")
		a, err := cf.ParseArgs(&pt.Args{})
		if err != nil {
			return nil, err
		}
		return cf.Dial("tcp", "192.0.2.1:1", func(string, string) (net.Conn, error) { return w, nil }, a)
	}
	sf, err := t.ServerFactory("", &pt.Args{})
	if err != nil {
		return nil, err
	}
	return sf.WrapConn(w)
}

type caseT struct {
	desc         string
	role         string // role of the REAL side
	ro           ref.Obfs3Opts
	realPad1     int // -1 random
	realPad2     int
	chunker      func(*wire.Conn, int, int) []int
	realW, refW  []int
	reject       bool // the real side's Read must fail
	rbuf         int
	extraGarbage int // NoMagic: further garbage sent after pad2
	garbagePiece int
}

func total(xs []int) int {
	t := 0
	for _, x := range xs {
		t += x
	}
	return t
}

func splitAt(cut int) func(*wire.Conn, int, int) []int {
	return func(c *wire.Conn, avail, want int) []int {
		d := cut - int(c.In.Read)
		if d >= 1 && d < avail {
			return []int{d}
		}
		return []int{avail}
	}
}

func pieces(n int) func(*wire.Conn, int, int) []int {
	return func(_ *wire.Conn, avail, _ int) []int {
		if avail > n {
			return []int{n}
		}
		return []int{avail}
	}
}

func runCase(c *mc.Ctx, k caseT, seed int64, fam string) {
	stream := rnd.New(seed, "c13-real-"+k.desc)
	rnd.Install(stream)
	if k.realPad1 >= 0 {
		stream.Script8 = [][]byte{rnd.ScriptIntn(k.realPad1), rnd.ScriptIntn(k.realPad2)}
	}
	refRnd := rnd.New(seed, "c13-ref-"+k.desc)
	cw, sw := wire.Pipe("client", "server")
	realWire, refWire := cw, sw
	if k.role == "server" {
		realWire, refWire = sw, cw
	}
	realWire.Chunker = k.chunker
	k.ro.Initiator = k.role == "server"
	if k.ro.Priv == nil {
		k.ro.Priv = refRnd.Bytes(192)
	}
	var realErr, refErr, rdErr error
	var got []byte
	var rs *ref.Obfs3Session
	wantReal := o4h.Pattern('F', 0, len(k.ro.Data)+total(k.refW))
	wantRef := o4h.Pattern('R', 0, total(k.realW))
	if k.ro.Data != nil {
		k.ro.Data = wantReal[:len(k.ro.Data)]
	}
	rbuf := k.rbuf
	if rbuf == 0 {
		rbuf = 4096
	}
	wrote := 0
	res := sched.Run(c, sched.Options{NoPreempt: true, NoEarlyTimers: true, MaxSteps: 3_000_000}, func() {
		s := sched.Cur()
		s.Spawn("ref", func() {
			rs, refErr = ref.Obfs3Handshake(refWire, k.ro, refRnd)
			if refErr != nil {
				refWire.Close()
				return
			}
			for left := k.extraGarbage; left > 0; {
				n := k.garbagePiece
				if n > left {
					n = left
				}
				if _, err := refWire.Write(refRnd.Bytes(n)); err != nil {
					break
				}
				left -= n
			}
			off := len(k.ro.Data)
			for _, n := range k.refW {
				rs.Send(wantReal[off : off+n])
				off += n
			}
			for {
				if _, err := rs.RecvOnce(); err != nil {
					if err == ref.ErrTooMuchPadding {
						refErr = err
					}
					break
				}
			}
			refWire.Close()
		})
		var conn net.Conn
		conn, realErr = realConn(k.role, realWire)
		if realErr != nil {
			return
		}
		off := 0
		for _, n := range k.realW {
			kk, err := wire.WriteOwned(conn, wantRef[off : off+n])
			if err != nil || kk != n {
				realErr = fmt.Errorf("Write(%d) = %d, %v", n, kk, err)
				return
			}
			off += n
			wrote = off
		}
		b := make([]byte, rbuf)
		for len(got) < len(wantReal) || k.reject {
			n, err := conn.Read(b)
			got = append(got, b[:n]...)
			if err != nil {
				rdErr = err
				break
			}
		}
		conn.Close()
	})
	c.AddExecutions(1)
	what := k.desc
	c.Case(fam+"/"+what, fmt.Sprint(realErr != nil, refErr != nil, rdErr != nil, len(got)))
	if len(res.Panics) > 0 {
		fail(c, "no-panic", "panic/"+fam, "%s: %s", what, res.Panics[0])
		return
	}
	if k.reject {
		if realErr != nil {
			return
		}
		if rdErr == nil {
			fail(c, "reject", "accepted/"+fam, "%s: the real %s never rejected the peer (read %d bytes; blocked: %+v)", what, k.role, len(got), res.Blocked)
			return
		}
		if len(got) != 0 {
			fail(c, "reject", "delivered/"+fam, "%s: %d bytes were delivered before the rejection", what, len(got))
		}
		if realWire.NumCloses() == 0 {
			fail(c, "reject", "not-closed/"+fam, "%s: the connection was not closed after the rejection", what)
		}
		return
	}
	if refErr != nil {
		fail(c, "spec", "ref-rejects/"+fam, "%s: the reference peer cannot follow the real %s: %v (real side: %v)", what, k.role, refErr, realErr)
		return
	}
	if realErr != nil {
		fail(c, "interop", "real-fails/"+fam, "%s: the real %s failed against the reference: %v", what, k.role, realErr)
		return
	}
	if rdErr != nil {
		fail(c, "stream", "read-error/"+fam, "%s: Read failed after %d of %d bytes: %v (reads %v)", what, len(got), len(wantReal), rdErr, trunc(realWire.ReadSizes))
		return
	}
	if res.Quiescent && len(got) < len(wantReal) {
		fail(c, "stream", "stuck/"+fam, "%s: quiescent after %d of %d bytes (reads %v)", what, len(got), len(wantReal), trunc(realWire.ReadSizes))
		return
	}
	if !bytes.Equal(got, wantReal) {
		fail(c, "stream", "stream-in/"+fam, "%s: the real %s read %d bytes that differ from what the reference sent (first difference at %d)", what, k.role, len(got), firstDiff(got, wantReal))
		return
	}
	if !bytes.Equal(rs.Got, wantRef[:wrote]) || wrote != len(wantRef) {
		fail(c, "stream", "stream-out/"+fam, "%s: the reference decrypted %d bytes that differ from what the real %s wrote (%d)", what, len(rs.Got), k.role, wrote)
	}
	if k.realPad1 >= 0 && k.realPad1 <= 4097 && k.realPad2 <= 4097 && len(k.realW) > 0 && total(k.realW) > 0 && rs.PeerPre == k.realPad1+k.realPad2 {
		c.Count("own_padding_draws_steered_by_the_script", 1)
	}
}

func trunc(x []int) []int {
	if len(x) > 40 {
		return x[:40]
	}
	return x
}

func firstDiff(a, b []byte) int {
	for i := 0; i < len(a) && i < len(b); i++ {
		if a[i] != b[i] {
			return i
		}
	}
	if len(a) < len(b) {
		return len(a)
	}
	return len(b)
}

func scenarios(cfg *mc.Config, emit func(mc.Scenario)) {
	seed := cfg.Seed
	thorough := cfg.Thorough()
	// UniformDH
	ks := keyAlphabet(seed, thorough)
	var names []string
	for n := range ks {
		names = append(names, n)
	}
	sortStrings(names)
	sub := []string{"0", "1", "2", "3", "2^1535", "2^1536-1", "2^1536-2", "rnd0", "rnd1", "bit0", "bit0+1", "small-public-0"}
	for i, an := range sub {
		an := an
		if ks[an] == nil {
			continue
		}
		emit(mc.Scenario{Name: "uniformdh/pairs/" + an, Weight: 20, Run: func(c *mc.Ctx) {
			for _, bn := range sub {
				if ks[bn] != nil {
					dhPair(c, an, ks[an], bn, ks[bn])
					c.AddExecutions(1)
				}
			}
		}})
		_ = i
	}
	for lo := 0; lo < len(names); lo += 8 {
		lo := lo
		hi := lo + 8
		if hi > len(names) {
			hi = len(names)
		}
		emit(mc.Scenario{Name: fmt.Sprintf("uniformdh/twins/%d", lo), Weight: 10, Run: func(c *mc.Ctx) {
			for _, n := range names[lo:hi] {
				// parity twin: same exponent, the other wire form
				tw := append([]byte{}, ks[n]...)
				tw[191] ^= 1
				dhPair(c, n, ks[n], n+"^1", tw)
				dhPair(c, n, ks[n], "rnd0", ks["rnd0"])
				c.AddExecutions(2)
			}
		}})
	}
	// a pair whose shared secret has a leading zero byte
	emit(mc.Scenario{Name: "uniformdh/small-shared-secret", Weight: 40, Run: func(c *mc.Ctx) {
		a := ks["rnd0"]
		ra := ref.NewDHKey(a)
		for i := 0; i < 3000; i++ {
			b := rnd.New(seed, fmt.Sprint("c13-ss-", i)).Bytes(192)
			if ra.Shared(ref.NewDHKey(b).Wire)[0] == 0 {
				dhPair(c, "rnd0", a, fmt.Sprintf("ss%d", i), b)
				c.AddExecutions(1)
				c.Count("small_shared_secret_pairs", 1)
				return
			}
		}
		c.Observe("none", 0)
	}})
	// obfs3
	scripts := [][2][]int{{{1}, {1}}, {{0, 100}, {5000}}, {{5000, 1}, {100, 0, 1}}}
	for _, role := range []string{"client", "server"} {
		role := role
		pads := []int{0, 1, 4096, 4097}
		for _, p1 := range pads {
			p1 := p1
			emit(mc.Scenario{Name: fmt.Sprintf("%s/paddings/pad1=%d", role, p1), Weight: 30, Run: func(c *mc.Ctx) {
				n := 0
				for _, p2 := range pads {
					// ({4098, 4098}: one beyond the largest residue of each draw, wraps
					// around to a legal length in correct code)
					for _, rp := range [][2]int{{-1, -1}, {0, 0}, {4097, 4097}, {0, 4097}, {4098, 4098}} {
						for si, sc := range scripts {
							if si != 1 && (rp[0] != -1) {
								continue
							}
							for _, coal := range []int{0, 300} {
								k := caseT{desc: fmt.Sprintf("%s pad1=%d pad2=%d realpad=%v script=%d coalesced-data=%d", role, p1, p2, rp, si, coal), role: role,
									ro: ref.Obfs3Opts{Pad1: p1, Pad2: p2}, realPad1: rp[0], realPad2: rp[1], realW: sc[0], refW: sc[1]}
								if coal > 0 {
									k.ro.Data = make([]byte, coal)
								}
								runCase(c, k, seed, "paddings")
								n++
								if c.Failed() {
									return
								}
							}
						}
					}
				}
				c.Count("padding_cases", int64(n))
				c.Observe("n", n)
			}})
		}
		if thorough {
			for lo := 0; lo <= 4097; lo += 128 {
				lo := lo
				emit(mc.Scenario{Name: fmt.Sprintf("%s/all-paddings/%d", role, lo), Weight: 60, Run: func(c *mc.Ctx) {
					for p := lo; p < lo+128 && p <= 4097; p++ {
						for _, other := range []int{0, 4097} {
							runCase(c, caseT{desc: fmt.Sprintf("%s pad1=%d pad2=%d", role, p, other), role: role, ro: ref.Obfs3Opts{Pad1: p, Pad2: other}, realPad1: -1, realW: []int{10}, refW: []int{10}}, seed, "paddings")
							runCase(c, caseT{desc: fmt.Sprintf("%s pad1=%d pad2=%d", role, other, p), role: role, ro: ref.Obfs3Opts{Pad1: other, Pad2: p}, realPad1: -1, realW: []int{10}, refW: []int{10}}, seed, "paddings")
						}
						if c.Failed() {
							return
						}
					}
				}})
			}
		}
		// segmentation around the magic
		emit(mc.Scenario{Name: role + "/segmentation", Weight: 80, Run: func(c *mc.Ctx) {
			n := 0
			// (the last three: the largest padding a conforming peer may send, and just
			// below it, with the magic value straddling reads right at the limit)
			for _, pp := range [][2]int{{0, 0}, {40, 0}, {0, 733}, {300, 300}, {4097, 4097}, {4097, 4066}, {4097, 4065}} {
				magicAt := 192 + pp[0] + pp[1]
				chs := map[string]func(*wire.Conn, int, int) []int{"pieces100": pieces(100), "pieces1448": pieces(1448)}
				if pp[0]+pp[1] <= 40 {
					chs["dribble"] = wire.Dribble
				}
				for d := -2; d <= 34; d++ {
					chs[fmt.Sprintf("split@magic%+d", d)] = splitAt(magicAt + d)
				}
				for _, d := range []int{1, 191, 192, 193} {
					chs[fmt.Sprintf("split@%d", d)] = splitAt(d)
				}
				if pp[0]+pp[1] > 8000 {
					// keep the large cases to the splits around the magic
					delete(chs, "pieces100")
					for d := 3; d <= 34; d += 2 {
						delete(chs, fmt.Sprintf("split@magic%+d", d))
					}
				}
				for cn, ch := range chs {
					for _, coal := range []int{0, 1, 500} {
						k := caseT{desc: fmt.Sprintf("%s pad1=%d pad2=%d %s coalesced-data=%d", role, pp[0], pp[1], cn, coal), role: role,
							ro: ref.Obfs3Opts{Pad1: pp[0], Pad2: pp[1]}, realPad1: -1, chunker: ch, realW: []int{100}, refW: []int{1, 2000}, rbuf: 777}
						if coal > 0 {
							k.ro.Data = make([]byte, coal)
						}
						runCase(c, k, seed, "segmentation")
						n++
						if c.Failed() {
							return
						}
					}
				}
			}
			c.Count("segmentation_cases", int64(n))
			c.Observe("n", n)
		}})
		// over-long padding
		emit(mc.Scenario{Name: role + "/padding-limits", Weight: 40, Run: func(c *mc.Ctx) {
			n := 0
			// magic at offset 8194 is accepted, beyond is rejected
			for _, pre := range []int{8193, 8194} {
				k := caseT{desc: fmt.Sprintf("%s magic after %d bytes", role, pre), role: role, ro: ref.Obfs3Opts{Pad1: 4097, Pad2: pre - 4097}, realPad1: -1, realW: []int{10}, refW: []int{10}}
				for cn, ch := range map[string]func(*wire.Conn, int, int) []int{"whole": nil, "pieces1000": pieces(1000)} {
					k.chunker = ch
					k.desc = fmt.Sprintf("%s magic after %d bytes (%s)", role, pre, cn)
					runCase(c, k, seed, "limits")
					n++
				}
			}
			for _, pre := range []int{8195, 8196, 9000} {
				for cn, ch := range map[string]func(*wire.Conn, int, int) []int{"whole": nil, "pieces1000": pieces(1000), "pieces100": pieces(100)} {
					k := caseT{desc: fmt.Sprintf("%s magic after %d bytes (%s)", role, pre, cn), role: role, ro: ref.Obfs3Opts{Pad1: 4097, Pad2: pre - 4097}, realPad1: -1, chunker: ch, realW: []int{10}, refW: []int{10}, reject: true}
					runCase(c, k, seed, "too-much-padding")
					n++
				}
			}
			// garbage without a magic value
			for _, tot := range []int{8194 + 32, 8194 + 33, 30000} {
				for _, piece := range []int{100, 1000, 1448, 4096, 100000} {
					for cn, ch := range map[string]func(*wire.Conn, int, int) []int{"as-sent": nil, "pieces1000": pieces(1000)} {
						k := caseT{desc: fmt.Sprintf("%s %d bytes without magic in pieces of %d (%s)", role, tot, piece, cn), role: role,
							ro: ref.Obfs3Opts{Pad1: 0, Pad2: 0, NoMagic: true}, extraGarbage: tot, garbagePiece: piece, realPad1: -1, chunker: ch, realW: []int{10}, reject: true}
						runCase(c, k, seed, "no-magic")
						n++
					}
				}
			}
			c.Count("limit_cases", int64(n))
			c.Observe("n", n)
		}})
	}
	// real <-> real
	b := 1
	if thorough {
		b = 2
	}
	// (the last script: single very large writes, default chunking only)
	for si, sc := range append(append([][2][]int{}, scripts...), [2][]int{{65536, 65537}, {200000, 1}}) {
		si, sc := si, sc
		b := b
		if total(sc[0]) > 100000 {
			b = 0
		}
		emit(mc.Scenario{Name: fmt.Sprintf("real-real/script%d", si), Bound: b, Weight: 300, Run: func(c *mc.Ctx) {
			rnd.Install(rnd.New(seed, "c13-rr"))
			cw, sw := wire.Pipe("client", "server")
			cw.AutoMark, sw.AutoMark = true, true
			cw.Chunker, sw.Chunker = wire.ChunkMarks, wire.ChunkMarks
			var cErr, sErr error
			var cGot, sGot []byte
			wantC := o4h.Pattern('S', 0, total(sc[1]))
			wantS := o4h.Pattern('C', 0, total(sc[0]))
			res := sched.Run(c, sched.Options{PreemptKinds: []string{"write"}, NoEarlyTimers: true, MaxSteps: 3_000_000}, func() {
				s := sched.Cur()
				side := func(role string, w *wire.Conn, writes []int, out []byte, got *[]byte, want int, errp *error) func() {
					return func() {
						conn, err := realConn(role, w)
						if err != nil {
							*errp = err
							return
						}
						s.Spawn(role+"-reader", func() {
							b := make([]byte, 1000)
							for len(*got) < want {
								n, err := conn.Read(b)
								*got = append(*got, b[:n]...)
								if err != nil {
									*errp = err
									return
								}
							}
						})
						off := 0
						for _, n := range writes {
							if _, err := wire.WriteOwned(conn, out[off : off+n]); err != nil {
								*errp = err
								return
							}
							off += n
						}
					}
				}
				s.Spawn("server", side("server", sw, sc[1], wantC, &sGot, len(wantS), &sErr))
				side("client", cw, sc[0], wantS, &cGot, len(wantC), &cErr)()
			})
			if len(res.Panics) > 0 {
				fail(c, "no-panic", "panic/real-real", "%s", res.Panics[0])
				return
			}
			c.Observe("reads", fmt.Sprint(trunc(cw.ReadSizes), trunc(sw.ReadSizes)))
			if cErr != nil || sErr != nil {
				fail(c, "stream", "real-real/error", "client=%v server=%v", cErr, sErr)
				return
			}
			if !bytes.Equal(cGot, wantC) || !bytes.Equal(sGot, wantS) {
				fail(c, "stream", "real-real/stream", "client read %d/%d, server read %d/%d (quiescent=%v)", len(cGot), len(wantC), len(sGot), len(wantS), res.Quiescent)
			}
		}})
	}
}

func sortStrings(s []string) {
	for i := 1; i < len(s); i++ {
		for j := i; j > 0 && s[j] < s[j-1]; j-- {
			s[j], s[j-1] = s[j-1], s[j]
		}
	}
}

// twoConnections: two client/server pairs of real endpoints in one process;
// the handshakes interleave at every statement of the key-derivation helpers.
func twoConnections(cfg *mc.Config, emit func(mc.Scenario)) {
	seed := cfg.Seed
	tb := 1
	if cfg.Thorough() {
		tb = 2
	}
	emit(mc.Scenario{Name: "two-connections", Bound: tb, Weight: 200, Run: func(c *mc.Ctx) {
		rnd.Install(rnd.New(seed, "c13-two"))
		type ep struct {
			role string
			w    *wire.Conn
			out  []byte
			want []byte
			got  []byte
			err  error
		}
		var eps []*ep
		for i := 0; i < 2; i++ {
			cw, sw := wire.Pipe(fmt.Sprintf("client%d", i), fmt.Sprintf("server%d", i))
			co, so := o4h.Pattern(byte('C'+i), 0, 40), o4h.Pattern(byte('S'+i), 0, 40)
			eps = append(eps, &ep{role: "client", w: cw, out: co, want: so}, &ep{role: "server", w: sw, out: so, want: co})
		}
		// clients first: both client hellos are on the wire before a server
		// starts, so that one preemption inside a server's key derivation lets
		// the other server run its whole key derivation in between
		eps = []*ep{eps[0], eps[2], eps[1], eps[3]}
		res := sched.Run(c, sched.Options{PreemptKinds: []string{"stmt"}, NoEarlyTimers: true, MaxSteps: 3_000_000}, func() {
			s := sched.Cur()
			for i, e := range eps {
				e := e
				s.Spawn(fmt.Sprintf("%s%d", e.role, i%2), func() {
					conn, err := realConn(e.role, e.w)
					if err != nil {
						e.err = err
						return
					}
					if _, err := wire.WriteOwned(conn, e.out); err != nil {
						e.err = err
						return
					}
					buf := make([]byte, 64)
					for len(e.got) < len(e.want) {
						n, err := conn.Read(buf)
						e.got = append(e.got, buf[:n]...)
						if err != nil {
							e.err = err
							return
						}
					}
				})
			}
		})
		if len(res.Panics) > 0 {
			fail(c, "no-panic", "two-connections/panic", "%s", res.Panics[0])
			return
		}
		for i, e := range eps {
			if e.err != nil || !bytes.Equal(e.got, e.want) {
				fail(c, "stream", "two-connections/stream", "%s of connection %d: read %d/%d bytes (first difference at %d), err=%v, quiescent=%v: concurrent connections influenced each other", e.role, i%2, len(e.got), len(e.want), firstDiff(e.got, e.want), e.err, res.Quiescent)
				return
			}
		}
		c.Observe("ok", len(eps))
	}})
}

// closeWithData: the peer writes and ends (eof / reset); its last bytes arrive
// in the same Read as the end of the stream: every byte must still be
// delivered before the end is reported.
func closeWithData(cfg *mc.Config, emit func(mc.Scenario)) {
	seed := cfg.Seed
	for _, role := range []string{"client", "server"} {
		for end := 0; end <= 1; end++ {
			role, end := role, end
			emit(mc.Scenario{Name: fmt.Sprintf("edge/%s/close-with-data/%s", role, []string{"eof", "reset"}[end]), Weight: 10, Run: func(c *mc.Ctx) {
				rnd.Install(rnd.New(seed, "c13-real-edge"))
				refRnd := rnd.New(seed, "c13-ref-edge")
				cw, sw := wire.Pipe("client", "server")
				realWire, refWire := cw, sw
				if role == "server" {
					realWire, refWire = sw, cw
				}
				inbound := o4h.Pattern('I', 0, 3000)
				var got []byte
				var realErr, refErr, rdErr error
				res := sched.Run(c, sched.Options{NoPreempt: true, NoEarlyTimers: true, MaxSteps: 3_000_000}, func() {
					s := sched.Cur()
					s.Spawn("ref", func() {
						rs, err := ref.Obfs3Handshake(refWire, ref.Obfs3Opts{Initiator: role == "server", Priv: refRnd.Bytes(192), Pad1: 5, Pad2: 7}, refRnd)
						if err != nil {
							refErr = err
							refWire.Close()
							return
						}
						rs.Send(inbound[:100])
						// obfs3 searches for the peer's magic value with plain reads and
						// (by an explicit decision in its code) gives up on any read that
						// reports an error, whatever it carried; a TCP connection never
						// returns data and an error from one read.  The end of the stream
						// therefore comes after the magic has been found: the real side
						// has read the first 100 bytes.
						s.Point("first-bytes-read", func() bool { return len(got) >= 100 })
						rs.Send(inbound[100:])
						if end == 0 {
							refWire.CloseWrite()
						} else {
							refWire.Out.Err = errors.New("connection reset by peer")
						}
					})
					conn, err := realConn(role, realWire)
					if err != nil {
						realErr = err
						return
					}
					realWire.CoalesceEnd = true
					b := make([]byte, 700)
					for {
						n, err := conn.Read(b)
						got = append(got, b[:n]...)
						if err != nil {
							rdErr = err
							break
						}
					}
				})
				if len(res.Panics) > 0 {
					fail(c, "no-panic", "panic/edge", "%s", res.Panics[0])
					return
				}
				if realErr != nil || refErr != nil {
					fail(c, "handshake", "edge/handshake", "real=%v ref=%v", realErr, refErr)
					return
				}
				c.Observe("out", fmt.Sprintf("got=%d err=%v", len(got), rdErr))
				if !bytes.HasPrefix(inbound, got) {
					fail(c, "stream", "edge/altered", "delivered bytes are not a prefix of what the peer wrote (first difference at %d)", firstDiff(inbound, got))
				} else if len(got) != len(inbound) {
					fail(c, "stream", "edge/close-with-data/lost", "the peer wrote %d bytes and ended, its last bytes arriving together with the end of the stream: the %s delivered only %d (then %v)", len(inbound), role, len(got), rdErr)
				} else if rdErr == nil {
					fail(c, "stream", "edge/close-with-data/no-end", "the stream ended but Read never reported it")
				}
			}})
		}
	}
}

// pausedSession: "all write sequences" includes their timing -- an established
// connection that stays idle for longer than every timeout constant of the
// handshake (30 s) and then carries data again, the pause being taken by the
// real side before its write, or by the peer while the real side waits in Read.
func pausedSession(cfg *mc.Config, emit func(mc.Scenario)) {
	seed := cfg.Seed
	pauses := []time.Duration{time.Second, 29 * time.Second, 2 * time.Second, 10 * time.Minute, 25 * time.Hour}
	const blk = 300
	for _, role := range []string{"client", "server"} {
		for _, pauser := range []string{"real", "peer"} {
			role, pauser := role, pauser
			emit(mc.Scenario{Name: fmt.Sprintf("edge/%s/paused-session/%s-pauses", role, pauser), Weight: 10, Run: func(c *mc.Ctx) {
				rnd.Install(rnd.New(seed, "c13-real-paused"))
				refRnd := rnd.New(seed, "c13-ref-paused")
				cw, sw := wire.Pipe("client", "server")
				realWire, refWire := cw, sw
				if role == "server" {
					realWire, refWire = sw, cw
				}
				outbound := o4h.Pattern('O', 0, blk*len(pauses))
				inbound := o4h.Pattern('I', 0, blk*len(pauses))
				var got []byte
				var rs *ref.Obfs3Session
				var realErr, refErr error
				failedAt, failedOp := -1, ""
				res := sched.Run(c, sched.Options{NoPreempt: true, NoEarlyTimers: true, MaxSteps: 3_000_000}, func() {
					s := sched.Cur()
					s.Spawn("ref", func() {
						var err error
						rs, err = ref.Obfs3Handshake(refWire, ref.Obfs3Opts{Initiator: role == "server", Priv: refRnd.Bytes(192), Pad1: 5, Pad2: 7}, refRnd)
						if err != nil {
							refErr = err
							refWire.Close()
							return
						}
						for r := range pauses {
							for len(rs.Got) < (r+1)*blk {
								if _, err := rs.RecvOnce(); err != nil {
									refErr = fmt.Errorf("round %d: %w", r, err)
									return
								}
							}
							if pauser == "peer" {
								sched.Sleep(pauses[r])
							}
							if err := rs.Send(inbound[r*blk : (r+1)*blk]); err != nil {
								refErr = fmt.Errorf("round %d: %w", r, err)
								return
							}
						}
					})
					conn, err := realConn(role, realWire)
					if err != nil {
						realErr = err
						return
					}
					b := make([]byte, blk)
					for r := range pauses {
						if pauser == "real" {
							sched.Sleep(pauses[r])
						}
						if _, err := wire.WriteOwned(conn, outbound[r*blk : (r+1)*blk]); err != nil {
							realErr, failedAt, failedOp = err, r, "Write"
							return
						}
						n, err := io.ReadFull(conn, b)
						got = append(got, b[:n]...)
						if err != nil {
							realErr, failedAt, failedOp = err, r, "Read"
							return
						}
					}
				})
				if len(res.Panics) > 0 {
					fail(c, "no-panic", "panic/edge", "%s", res.Panics[0])
					return
				}
				var sofar time.Duration
				for r := 0; r <= failedAt; r++ {
					sofar += pauses[r]
				}
				if failedAt >= 0 {
					fail(c, "stream", "edge/paused-session/"+strings.ToLower(failedOp), "established %s connection, %s idle for %v (%v since the handshake): %s failed with %v", role, pauser, pauses[failedAt], sofar, failedOp, realErr)
					return
				}
				if realErr != nil || refErr != nil {
					fail(c, "handshake", "edge/handshake", "real=%v ref=%v", realErr, refErr)
					return
				}
				c.Observe("out", fmt.Sprintf("got=%d peer-got=%d", len(got), len(rs.Got)))
				if !bytes.Equal(got, inbound) {
					fail(c, "stream", "edge/paused-session/inbound", "the peer wrote %d bytes over a session with pauses, the %s delivered %d (first difference at %d)", len(inbound), role, len(got), firstDiff(inbound, got))
				}
				if !bytes.Equal(rs.Got, outbound) {
					fail(c, "stream", "edge/paused-session/outbound", "the %s wrote %d bytes over a session with pauses, the peer decoded %d (first difference at %d)", role, len(outbound), len(rs.Got), firstDiff(outbound, rs.Got))
				}
			}})
		}
	}
}

func main() {
	mc.Main("C13", func(cfg *mc.Config, emit func(mc.Scenario)) {
		scenarios(cfg, emit)
		twoConnections(cfg, emit)
		closeWithData(cfg, emit)
		pausedSession(cfg, emit)
	})
}
