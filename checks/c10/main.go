//go:build verif

// C10: no peer input or network fault can crash, wedge or bloat an endpoint.
package main

import (
	"bufio"
	"bytes"
	"encoding/base32"
	"fmt"
	"io"
	"net"
	"net/http"
	"os"
	"reflect"
	"sort"
	"strconv"
	"strings"
	"sync"
	"time"
	"unsafe"

	pt "gitlab.torproject.org/tpo/anti-censorship/pluggable-transports/goptlib"

	"gitlab.com/yawning/obfs4.git/common/socks5"
	"gitlab.com/yawning/obfs4.git/internal/zzverif/mc"
	"gitlab.com/yawning/obfs4.git/internal/zzverif/o4h"
	"gitlab.com/yawning/obfs4.git/internal/zzverif/ref"
	"gitlab.com/yawning/obfs4.git/internal/zzverif/rnd"
	"gitlab.com/yawning/obfs4.git/internal/zzverif/sched"
	"gitlab.com/yawning/obfs4.git/internal/zzverif/wire"
	"gitlab.com/yawning/obfs4.git/transports/meeklite"
	"gitlab.com/yawning/obfs4.git/transports/obfs2"
	"gitlab.com/yawning/obfs4.git/transports/obfs3"
	"gitlab.com/yawning/obfs4.git/transports/scramblesuit"
)

func fail(c *mc.Ctx, oracle, key, format string, a ...any) {
	c.Fail(oracle, "C10/"+key, format, a...)
}

var start = time.Unix(1_700_000_000, 0).Truncate(time.Hour).Add(11 * time.Minute)

type fault struct {
	cutAt   int64 // -1 none
	cutErr  error // nil EOF, wire.ErrReset, wire.ErrStall
	wfail   int   // -1 none: index of the endpoint's underlying write that fails
	garbage int   // >0: the peer sends this many random bytes instead of following the protocol
	gstage  string
	mutate  string // name of a behind-the-crypto mutation
	dayIdle bool   // after success: advance a day, then exchange again
}

func (f fault) String() string {
	var p []string
	if f.cutAt >= 0 {
		k := "eof"
		if f.cutErr == wire.ErrReset {
			k = "reset"
		} else if f.cutErr == wire.ErrStall {
			k = "stall"
		}
		p = append(p, fmt.Sprintf("cut@%d/%s", f.cutAt, k))
	}
	if f.wfail >= 0 {
		p = append(p, fmt.Sprintf("write#%d-fails", f.wfail))
	}
	if f.garbage > 0 {
		p = append(p, fmt.Sprintf("garbage/%s/%d", f.gstage, f.garbage))
	}
	if f.mutate != "" {
		p = append(p, "mutate/"+f.mutate)
	}
	if f.dayIdle {
		p = append(p, "day-idle")
	}
	if len(p) == 0 {
		return "none"
	}
	return strings.Join(p, "+")
}

func noFault() fault { return fault{cutAt: -1, wfail: -1} }

type outcome struct {
	hsErr     error
	ioErr     error
	completed bool // the whole scripted exchange ran through
	finished  bool // the endpoint thread returned from every call
	panics    []string
	livelock  bool
	blocked   []sched.Blocked
	events    []wire.Event
	hsEnd     time.Duration // when the handshake call returned
	inTotal   int64         // bytes the peer offered to the endpoint
	peerMarks []int64       // peer write boundaries
	bufMax    map[string]int
	got       []byte
	nWrites   int
}

var errInjectedWrite = fmt.Errorf("injected write error")

// bufLen reads len of an unexported *bytes.Buffer / chan / slice field by name.
func bufLen(obj any, field string) (int, bool) {
	v := reflect.ValueOf(obj)
	for v.Kind() == reflect.Ptr || v.Kind() == reflect.Interface {
		if v.IsNil() {
			return 0, false
		}
		v = v.Elem()
	}
	if v.Kind() != reflect.Struct {
		return 0, false
	}
	f := v.FieldByName(field)
	if !f.IsValid() {
		return 0, false
	}
	switch f.Kind() {
	case reflect.Ptr:
		if f.IsNil() {
			return 0, true
		}
		if f.Type() == reflect.TypeOf((*bytes.Buffer)(nil)) {
			return (*bytes.Buffer)(unsafe.Pointer(f.Pointer())).Len(), true
		}
	case reflect.Chan, reflect.Slice:
		return f.Len(), true
	}
	return 0, false
}

type kind struct {
	name    string
	timeout time.Duration // documented handshake timeout (0: none observable here)
	// fields holding per-connection receive state and their bound
	bufFields map[string]int
	// run performs one exchange of the real endpoint on realWire against the
	// reference peer on peerWire; post is called with the established conn
	handshake func(realWire *wire.Conn) (net.Conn, error)
	peer      func(peerWire *wire.Conn, f fault, r *rnd.Stream, toSend, toRecv int) error
}

var kB = bytes.Repeat([]byte{0x42}, 20)

func kinds(seed int64) []kind {
	br := o4h.NewBridge(seed, "c10", 0, false)
	o2 := func(role string) func(*wire.Conn) (net.Conn, error) {
		return func(w *wire.Conn) (net.Conn, error) {
			t := &obfs2.Transport{}
			if role == "client" {
				cf, _ := t.ClientFactory("")
				a, _ := cf.ParseArgs(&pt.Args{})
				return cf.Dial("tcp", "x", func(string, string) (net.Conn, error) { return w, nil }, a)
			}
			sf, _ := t.ServerFactory("", &pt.Args{})
			return sf.WrapConn(w)
		}
	}
	o3 := func(role string) func(*wire.Conn) (net.Conn, error) {
		return func(w *wire.Conn) (net.Conn, error) {
			t := &obfs3.Transport{}
			if role == "client" {
				cf, _ := t.ClientFactory("")
				a, _ := cf.ParseArgs(&pt.Args{})
				return cf.Dial("tcp", "x", func(string, string) (net.Conn, error) { return w, nil }, a)
			}
			sf, _ := t.ServerFactory("", &pt.Args{})
			return sf.WrapConn(w)
		}
	}
	garbage := func(w *wire.Conn, f fault, r *rnd.Stream, stage string) bool {
		if f.garbage > 0 && f.gstage == stage {
			left := f.garbage
			for left > 0 {
				n := 16384
				if n > left {
					n = left
				}
				if _, err := w.Write(r.Bytes(n)); err != nil {
					break
				}
				left -= n
			}
			// then go silent
			buf := make([]byte, 4096)
			for {
				if _, err := w.Read(buf); err != nil {
					break
				}
			}
			w.Close()
			return true
		}
		return false
	}
	drain := func(w *wire.Conn) {
		buf := make([]byte, 4096)
		for {
			if _, err := w.Read(buf); err != nil {
				break
			}
		}
		w.Close()
	}
	ks := []kind{
		{name: "obfs4-client", timeout: 60 * time.Second, bufFields: map[string]int{"receiveBuffer": 2*8192 + 1448*16, "receiveDecodedBuffer": 1448 * 17},
			handshake: func(w *wire.Conn) (net.Conn, error) { return o4h.Dial(br.ClientArgs("cert", nil), w) },
			peer: func(w *wire.Conn, f fault, r *rnd.Stream, toSend, toRecv int) error {
				if garbage(w, f, r, "handshake") {
					return nil
				}
				rs, err := o4h.RefServer(w, br.ID, o4h.ServerOpts{PadLen: 20, LenSeed: br.Seed}, r)
				if err != nil {
					drain(w)
					return err
				}
				if garbage(w, f, r, "data") {
					return nil
				}
				if f.mutate != "" {
					w.Write(obfs4Mutation(rs, f.mutate, br.Seed))
				}
				if err := rs.RecvUntil(toRecv); err != nil {
					w.Close()
					return err
				}
				rs.Send(o4h.Pattern('P', 0, toSend), 5)
				if f.dayIdle {
					rs.RecvUntil(toRecv * 2)
					rs.Send(o4h.Pattern('P', toSend, toSend), 5)
				}
				for {
					if _, err := rs.RecvOnce(); err != nil {
						break
					}
				}
				w.Close()
				return nil
			}},
		{name: "obfs4-server", timeout: 30 * time.Second, bufFields: map[string]int{"receiveBuffer": 2*8192 + 1448*16, "receiveDecodedBuffer": 1448 * 17},
			handshake: func(w *wire.Conn) (net.Conn, error) {
				sf, err := br.ServerFactory()
				if err != nil {
					return nil, err
				}
				return sf.WrapConn(w)
			},
			peer: func(w *wire.Conn, f fault, r *rnd.Stream, toSend, toRecv int) error {
				if garbage(w, f, r, "handshake") {
					return nil
				}
				rs, _, err := o4h.RefClient(w, br.ID.Pub[:], br.ID.NodeID[:], o4h.ClientOpts{PadLen: 90}, r)
				if err != nil {
					drain(w)
					return err
				}
				if garbage(w, f, r, "data") {
					return nil
				}
				if f.mutate != "" {
					w.Write(obfs4Mutation(rs, f.mutate, br.Seed))
				}
				rs.Send(o4h.Pattern('P', 0, toSend), 5)
				if err := rs.RecvUntil(toRecv); err != nil {
					w.Close()
					return err
				}
				if f.dayIdle {
					rs.Send(o4h.Pattern('P', toSend, toSend), 5)
					rs.RecvUntil(toRecv * 2)
				}
				for {
					if _, err := rs.RecvOnce(); err != nil {
						break
					}
				}
				w.Close()
				return nil
			}},
	}
	for _, role := range []string{"client", "server"} {
		role := role
		ks = append(ks, kind{name: "obfs2-" + role, timeout: 30 * time.Second, bufFields: map[string]int{},
			handshake: o2(role),
			peer: func(w *wire.Conn, f fault, r *rnd.Stream, toSend, toRecv int) error {
				if garbage(w, f, r, "handshake") {
					return nil
				}
				rs, err := ref.Obfs2Handshake(w, ref.Obfs2Opts{Initiator: role == "server", Seed: r.Bytes(16), PadLen: 40}, r)
				if err != nil {
					drain(w)
					return err
				}
				if garbage(w, f, r, "data") {
					return nil
				}
				rs.Send(o4h.Pattern('P', 0, toSend))
				for len(rs.Got) < toRecv {
					if _, err := rs.RecvOnce(); err != nil {
						w.Close()
						return err
					}
				}
				if f.dayIdle {
					rs.Send(o4h.Pattern('P', toSend, toSend))
				}
				for {
					if _, err := rs.RecvOnce(); err != nil {
						break
					}
				}
				w.Close()
				return nil
			}})
		ks = append(ks, kind{name: "obfs3-" + role, timeout: 30 * time.Second, bufFields: map[string]int{"rxBuf": 8194 + 32 + 8194 + 32},
			handshake: o3(role),
			peer: func(w *wire.Conn, f fault, r *rnd.Stream, toSend, toRecv int) error {
				if garbage(w, f, r, "handshake") {
					return nil
				}
				o := ref.Obfs3Opts{Initiator: role == "server", Priv: r.Bytes(192), Pad1: 30, Pad2: 20}
				if f.garbage > 0 && f.gstage == "data" {
					o.NoMagic = true
				}
				rs, err := ref.Obfs3Handshake(w, o, r)
				if err != nil {
					drain(w)
					return err
				}
				if garbage(w, f, r, "data") {
					return nil
				}
				rs.Send(o4h.Pattern('P', 0, toSend))
				for len(rs.Got) < toRecv {
					if _, err := rs.RecvOnce(); err != nil {
						w.Close()
						return err
					}
				}
				if f.dayIdle {
					rs.Send(o4h.Pattern('P', toSend, toSend))
				}
				for {
					if _, err := rs.RecvOnce(); err != nil {
						break
					}
				}
				w.Close()
				return nil
			}})
	}
	ks = append(ks, kind{name: "scramblesuit-client", timeout: 60 * time.Second, bufFields: map[string]int{"receiveBuffer": 1532 + 1448*2, "receiveDecodedBuffer": 1448 * 3},
		handshake: func(w *wire.Conn) (net.Conn, error) {
			cf, err := (&scramblesuit.Transport{}).ClientFactory(o4h.StateDir())
			if err != nil {
				return nil, err
			}
			a := pt.Args{}
			a.Add("password", base32.StdEncoding.EncodeToString(kB))
			pa, err := cf.ParseArgs(&a)
			if err != nil {
				return nil, err
			}
			return cf.Dial("tcp", "x", func(string, string) (net.Conn, error) { return w, nil }, pa)
		},
		peer: func(w *wire.Conn, f fault, r *rnd.Stream, toSend, toRecv int) error {
			if garbage(w, f, r, "handshake") {
				return nil
			}
			so := ref.SSServerOpts{KB: kB, Priv: r.Bytes(192), PadLen: 25, Hour: sched.Cur().Now().Unix() / 3600, Seed: bytes.Repeat([]byte{9}, 32), Separate: true}
			var mut []byte
			rs, err := ref.SSServe(w, so, r)
			if err != nil {
				drain(w)
				return err
			}
			if garbage(w, f, r, "data") {
				return nil
			}
			if f.mutate != "" {
				mut = ssMutation(rs, f.mutate)
				w.Write(mut)
			}
			if err := rs.RecvUntil(toRecv); err != nil {
				w.Close()
				return err
			}
			rs.Send(o4h.Pattern('P', 0, toSend), 5)
			if f.dayIdle {
				rs.RecvUntil(toRecv * 2)
				rs.Send(o4h.Pattern('P', toSend, toSend), 5)
			}
			for {
				if _, err := rs.RecvOnce(); err != nil {
					break
				}
			}
			w.Close()
			return nil
		}})
	return ks
}

// obfs4Mutation builds well-encrypted frames carrying malformed packets.
func obfs4Mutation(rs *o4h.RefSession, name string, seed []byte) []byte {
	seal := func(p []byte) []byte { return rs.Tx.Seal(p) }
	switch name {
	case "short-frame-0":
		return seal(nil)
	case "short-frame-2":
		return seal([]byte{0, 0})
	case "len-exceeds":
		return seal([]byte{0, 0, 5, 1, 2})
	case "len-ffff":
		return seal([]byte{0, 0xff, 0xff})
	case "len-max+1":
		p := make([]byte, 3+1427)
		p[1], p[2] = 0x05, 0x94 // 1428
		return seal(p)
	case "type-2":
		return seal([]byte{2, 0, 1, 7})
	case "type-ff":
		return seal([]byte{0xff, 0, 0})
	case "seed-short":
		return seal(append([]byte{1, 0, 23}, seed[:23]...))
	case "seed-long":
		return seal(append([]byte{1, 0, 25}, append(append([]byte{}, seed...), 1)...))
	case "seed-empty":
		return seal([]byte{1, 0, 0})
	case "bad-length/0", "bad-length/1429", "bad-length/1430", "bad-length/1431", "bad-length/1432", "bad-length/1446", "bad-length/1447", "bad-length/1448":
		// a frame whose (masked) length field has its top bit flipped is out of
		// range for certain; the endpoint's countermeasure then draws a random
		// length -- scripted to the residue in the name (a residue beyond the
		// range wraps around in correct code) -- and keeps reading
		res, _ := strconv.Atoi(strings.TrimPrefix(name, "bad-length/"))
		if realStream != nil {
			realStream.Script8 = [][]byte{rnd.ScriptIntn(res)}
		}
		fr := seal(append([]byte{0, 0, 4}, 1, 2, 3, 4))
		fr[0] ^= 0x80
		g := make([]byte, 3200)
		for i := range g {
			g[i] = byte(i*7 + 3)
		}
		return append(fr, g...)
	case "sealed-frame/1430", "sealed-frame/1431", "sealed-frame/1432", "sealed-frame/1433", "sealed-frame/1434", "sealed-frame/1445", "sealed-frame/1446", "sealed-frame/1447", "sealed-frame/1448", "sealed-frame/1449", "sealed-frame/2048", "sealed-frame/8192", "sealed-frame/65519":
		// a correctly sealed frame whose payload is at (1430: legal, a
		// packet that is all padding) or beyond the format's maximum, from a peer that holds the
		// session keys; followed by more bytes so that the frame is complete
		n, _ := strconv.Atoi(strings.TrimPrefix(name, "sealed-frame/"))
		p := make([]byte, n) // a payload packet of length 0, the rest is padding
		return append(rs.Tx.SealAny(p), make([]byte, 3000)...)
	case "many-empty-frames":
		var out []byte
		for i := 0; i < 3000; i++ {
			out = append(out, seal([]byte{0, 0, 0})...)
		}
		return out
	}
	return nil
}

// realStream is the scripted random source of the endpoint under test in the
// current exchange.
var realStream *rnd.Stream

var obfs4Mutations = []string{"bad-length/0", "bad-length/1429", "bad-length/1430", "bad-length/1431", "bad-length/1432", "bad-length/1446", "bad-length/1447", "bad-length/1448", "short-frame-0", "short-frame-2", "len-exceeds", "len-ffff", "len-max+1", "type-2", "type-ff", "seed-short", "seed-long", "seed-empty", "many-empty-frames",
	"sealed-frame/1430", "sealed-frame/1431", "sealed-frame/1432", "sealed-frame/1433", "sealed-frame/1434", "sealed-frame/1445", "sealed-frame/1446", "sealed-frame/1447", "sealed-frame/1448", "sealed-frame/1449", "sealed-frame/2048", "sealed-frame/8192", "sealed-frame/65519"}

// ssMutation builds MACed packets with malformed headers.
func ssMutation(rs *ref.SSSession, name string) []byte {
	raw := func(total, plen uint16, flags byte, body []byte) []byte {
		pkt := []byte{byte(total >> 8), byte(total), byte(plen >> 8), byte(plen), flags}
		pkt = append(pkt, body...)
		rs.Tx.S.XORKeyStream(pkt, pkt)
		return append(refHmac(rs.Tx.Mac, pkt)[:16], pkt...)
	}
	switch name {
	case "payload>total":
		return raw(4, 5, 1, make([]byte, 4))
	case "total-1428":
		return raw(1428, 0, 1, make([]byte, 1428))
	case "total-ffff":
		return raw(0xffff, 0, 1, nil)
	case "flags-0":
		return raw(2, 2, 0, []byte{1, 2})
	case "flags-8":
		return raw(2, 2, 8, []byte{1, 2})
	case "flags-3":
		return raw(2, 2, 3, []byte{1, 2})
	case "flags-ff":
		return raw(0, 0, 0xff, nil)
	case "ticket-short":
		return raw(143, 143, 2, make([]byte, 143))
	case "ticket-long":
		return raw(145, 145, 2, make([]byte, 145))
	case "seed-short":
		return raw(31, 31, 4, make([]byte, 31))
	case "seed-long":
		return raw(33, 33, 4, make([]byte, 33))
	case "empty-payload":
		return raw(0, 0, 1, nil)
	case "many-empty":
		var out []byte
		for i := 0; i < 3000; i++ {
			out = append(out, raw(0, 0, 1, nil)...)
		}
		return out
	}
	return nil
}

var ssMutations = []string{"payload>total", "total-1428", "total-ffff", "flags-0", "flags-8", "flags-3", "flags-ff", "ticket-short", "ticket-long", "seed-short", "seed-long", "empty-payload", "many-empty"}

func refHmac(key, msg []byte) []byte { return ref.HMAC256(key, msg) }

const (
	toSend = 2000 // bytes the peer sends
	toRecv = 700  // bytes the endpoint writes
)

// exchange runs one faulted exchange.
func exchange(c *mc.Ctx, k kind, f fault, seed int64) outcome {
	var o outcome
	o.bufMax = map[string]int{}
	realStream = rnd.New(seed, "c10-real-"+k.name)
	rnd.Install(realStream)
	pr := rnd.New(seed, "c10-peer-"+k.name)
	realWire, peerWire := wire.Pipe("endpoint", "peer")
	if f.cutAt >= 0 {
		realWire.In.SetCut(f.cutAt, f.cutErr)
	}
	if f.wfail >= 0 {
		realWire.WriteFault = func(n int, p []byte) error {
			if n == f.wfail {
				return errInjectedWrite
			}
			return nil
		}
	}
	sample := func(conn net.Conn) {
		for name := range k.bufFields {
			if n, ok := bufLen(conn, name); ok && n > o.bufMax[name] {
				o.bufMax[name] = n
			}
		}
	}
	// (a stall after the handshake leaves the endpoint waiting in Read for good:
	// legitimate, judged below; everything else must come back)
	res := sched.Run(c, sched.Options{NoPreempt: true, NoEarlyTimers: true, Start: start, MaxSteps: 200_000, MainMayBlock: f.cutAt >= 0 && f.cutErr == wire.ErrStall}, func() {
		s := sched.Cur()
		s.Spawn("peer", func() { k.peer(peerWire, f, pr, toSend, toRecv) })
		conn, err := k.handshake(realWire)
		o.hsEnd = s.Now().Sub(start)
		o.hsErr = err
		if err != nil {
			o.finished = true
			return
		}
		sample(conn)
		round := func(base int) bool {
			if _, err := conn.Write(o4h.Pattern('E', base, toRecv)); err != nil {
				o.ioErr = err
				return false
			}
			buf := make([]byte, 1500)
			want := (base/toRecv + 1) * toSend
			for len(o.got) < want {
				n, err := conn.Read(buf)
				o.got = append(o.got, buf[:n]...)
				sample(conn)
				if err != nil {
					o.ioErr = err
					return false
				}
				if n == 0 {
					o.ioErr = fmt.Errorf("Read returned 0, nil")
					return false
				}
			}
			return true
		}
		ok := round(0)
		if ok && f.dayIdle {
			s.Advance(24 * time.Hour)
			ok = round(toRecv)
		}
		o.completed = ok
		conn.Close()
		o.finished = true
	})
	o.panics = res.Panics
	o.livelock = res.Livelock
	o.blocked = res.Blocked
	o.events = realWire.Events
	o.inTotal = realWire.In.Total
	o.nWrites = realWire.NWrites
	for _, w := range realWire.In.Writes {
		o.peerMarks = append(o.peerMarks, w.Off+int64(w.N))
	}
	return o
}

// judge applies the oracles common to all faults.
func judge(c *mc.Ctx, k kind, f fault, o outcome) {
	what := fmt.Sprintf("%s, fault %v", k.name, f)
	fam := k.name
	if len(o.panics) > 0 {
		fail(c, "no-panic", "panic/"+fam+"/"+faultClass(f), "%s: %s", what, o.panics[0])
		return
	}
	if o.livelock {
		fail(c, "no-spin", "spin/"+fam+"/"+faultClass(f), "%s: the endpoint spins without finishing (step budget exceeded)", what)
		return
	}
	stallOK := f.cutAt >= 0 && f.cutErr == wire.ErrStall && o.hsErr == nil // post-handshake silence is legitimate
	idleGarbage := f.garbage > 0 && o.hsErr == nil && f.gstage == "data"
	if !o.finished && !stallOK {
		// obfs2/obfs3 streams cannot detect garbage: silence after it is legitimate there
		if !(idleGarbage && (strings.HasPrefix(k.name, "obfs2") || strings.HasPrefix(k.name, "obfs3-") && false)) {
			fail(c, "no-wedge", "wedge/"+fam+"/"+faultClass(f), "%s: the call in progress never returned; blocked: %+v", what, o.blocked)
			return
		}
	}
	for name, bound := range k.bufFields {
		if o.bufMax[name] > bound {
			fail(c, "bounded-buffers", "bloat/"+fam+"/"+name, "%s: %s held %d bytes (bound %d)", what, name, o.bufMax[name], bound)
		}
	}
	// deadlines
	dl, rdl, wdl := deadlineEvents(o.events)
	if k.timeout > 0 {
		if len(dl) == 0 {
			fail(c, "deadline", "deadline/never-armed/"+fam, "%s: no handshake deadline was armed", what)
			return
		}
		if !dl[0].At.Equal(start) || !dl[0].T.Equal(start.Add(k.timeout)) {
			fail(c, "deadline", "deadline/arm/"+fam, "%s: first SetDeadline at +%v to +%v, want at +0s to +%v", what, dl[0].At.Sub(start), dl[0].T.Sub(start), k.timeout)
		}
		if o.hsErr == nil {
			last := rdl
			if last.IsZero() {
				last = wdl
			}
			if !last.IsZero() {
				fail(c, "deadline", "deadline/not-cleared/"+fam, "%s: the handshake succeeded but the deadline (+%v) is still armed", what, last.Sub(start))
			}
		}
		if f.cutAt >= 0 && f.cutErr == wire.ErrStall && o.hsErr != nil && !strings.HasPrefix(k.name, "obfs4-server") {
			if o.hsEnd != k.timeout {
				fail(c, "deadline", "deadline/timeout-instant/"+fam, "%s: the stalled handshake was given up at +%v, want exactly +%v", what, o.hsEnd, k.timeout)
			}
		}
	}
	if f.dayIdle && !o.completed {
		fail(c, "deadline", "deadline/stale-timer/"+fam, "%s: the established connection did not survive a day of idle time: handshake=%v io=%v", what, o.hsErr, o.ioErr)
	}
	// a fault-free exchange completes
	if f.cutAt < 0 && f.wfail < 0 && f.garbage == 0 && f.mutate == "" && !o.completed {
		fail(c, "baseline", "baseline/"+fam, "%s: the fault-free exchange did not complete: handshake=%v io=%v", what, o.hsErr, o.ioErr)
	}
	// malformed packets behind the crypto must produce an error (or be ignored), never altered data
	// (obfs2/obfs3 are unauthenticated stream ciphers: no such promise)
	authenticated := strings.HasPrefix(k.name, "obfs4") || strings.HasPrefix(k.name, "scramblesuit")
	if authenticated && !bytes.HasPrefix(o4h.Pattern('P', 0, 2*toSend), o.got) {
		fail(c, "no-altered-data", "altered/"+fam+"/"+faultClass(f), "%s: delivered bytes are not a prefix of what the peer sent", what)
	}
}

func faultClass(f fault) string {
	switch {
	case f.mutate != "":
		return "mutate-" + f.mutate
	case f.garbage > 0:
		return "garbage-" + f.gstage
	case f.wfail >= 0:
		return "write-fail"
	case f.cutAt >= 0 && f.cutErr == nil:
		return "cut-eof"
	case f.cutAt >= 0 && f.cutErr == wire.ErrReset:
		return "cut-reset"
	case f.cutAt >= 0:
		return "cut-stall"
	}
	return "none"
}

func positions(o outcome, thorough bool) []int64 {
	set := map[int64]bool{}
	lim := int64(300)
	if thorough {
		lim = 1 << 40 // every byte position of the peer's stream
	}
	for k := int64(0); k <= lim && k <= o.inTotal; k++ {
		set[k] = true
	}
	for _, m := range o.peerMarks {
		for d := int64(-2); d <= 2; d++ {
			if m+d >= 0 && m+d <= o.inTotal {
				set[m+d] = true
			}
		}
	}
	step := o.inTotal / 40
	if thorough {
		step = o.inTotal / 400
	}
	if step < 1 {
		step = 1
	}
	for k := int64(0); k <= o.inTotal; k += step {
		set[k] = true
	}
	var out []int64
	for k := range set {
		out = append(out, k)
	}
	sort.Slice(out, func(i, j int) bool { return out[i] < out[j] })
	return out
}

func scenarios(cfg *mc.Config, emit func(mc.Scenario)) {
	seed := cfg.Seed
	thorough := cfg.Thorough()
	for _, k := range kinds(seed) {
		k := k
		for _, ce := range []struct {
			name string
			err  error
		}{{"eof", nil}, {"reset", wire.ErrReset}, {"stall", wire.ErrStall}} {
			ce := ce
			emit(mc.Scenario{Name: k.name + "/cut-" + ce.name, Weight: 100, Run: func(c *mc.Ctx) {
				base := exchange(c, k, noFault(), seed)
				judge(c, k, noFault(), base)
				if c.Failed() {
					return
				}
				outs := map[string]bool{}
				ps := positions(base, thorough)
				for _, p := range ps {
					f := noFault()
					f.cutAt, f.cutErr = p, ce.err
					o := exchange(c, k, f, seed)
					c.AddExecutions(1)
					judge(c, k, f, o)
					outs[fmt.Sprintf("%d hs=%v io=%v done=%v", p, o.hsErr != nil, o.ioErr != nil, o.completed)] = true
				}
				c.Count("cut_positions", int64(len(ps)))
				c.Observe("outcomes", len(outs))
				c.AddDistinct(int64(len(outs)))
			}})
		}
		emit(mc.Scenario{Name: k.name + "/write-failures", Weight: 20, Run: func(c *mc.Ctx) {
			base := exchange(c, k, noFault(), seed)
			outs := map[string]bool{}
			for n := 0; n <= base.nWrites; n++ {
				f := noFault()
				f.wfail = n
				o := exchange(c, k, f, seed)
				c.AddExecutions(1)
				judge(c, k, f, o)
				if n < base.nWrites && o.completed {
					fail(c, "error-returned", "write-error-swallowed/"+k.name, "%s: underlying write #%d failed but the exchange completed without an error", k.name, n)
				}
				outs[fmt.Sprintf("%d hs=%v io=%v", n, o.hsErr != nil, o.ioErr != nil)] = true
			}
			c.Count("write_fail_positions", int64(base.nWrites+1))
			c.Observe("outcomes", len(outs))
			c.AddDistinct(int64(len(outs)))
		}})
		emit(mc.Scenario{Name: k.name + "/garbage", Weight: 60, Run: func(c *mc.Ctx) {
			sizes := []int{65536, 1 << 20}
			if !thorough {
				sizes = []int{65536, 300000}
			}
			n := 0
			for _, stage := range []string{"handshake", "data"} {
				for _, sz := range sizes {
					f := noFault()
					f.garbage, f.gstage = sz, stage
					o := exchange(c, k, f, seed)
					c.AddExecutions(1)
					judge(c, k, f, o)
					// obfs3's key exchange accepts any 192 bytes; the garbage is detected by
					// the magic scan of the first Read
					if stage == "handshake" && o.hsErr == nil && !(strings.HasPrefix(k.name, "obfs3") && o.ioErr != nil) {
						fail(c, "error-returned", "garbage-accepted/"+k.name, "%s: %d bytes of garbage were accepted as a handshake (io error: %v)", k.name, sz, o.ioErr)
					}
					n++
				}
			}
			c.Observe("n", n)
			c.AddDistinct(int64(n))
		}})
		emit(mc.Scenario{Name: k.name + "/day-idle", Weight: 5, Run: func(c *mc.Ctx) {
			f := noFault()
			f.dayIdle = true
			o := exchange(c, k, f, seed)
			judge(c, k, f, o)
			c.Observe("done", o.completed)
		}})
		var muts []string
		if strings.HasPrefix(k.name, "obfs4") {
			muts = obfs4Mutations
		} else if strings.HasPrefix(k.name, "scramblesuit") {
			muts = ssMutations
		}
		if muts != nil {
			emit(mc.Scenario{Name: k.name + "/malformed-packets", Weight: 40, Run: func(c *mc.Ctx) {
				for _, m := range muts {
					f := noFault()
					f.mutate = m
					o := exchange(c, k, f, seed)
					c.AddExecutions(1)
					judge(c, k, f, o)
					c.Observe(m, fmt.Sprintf("hs=%v io=%v done=%v", o.hsErr != nil, o.ioErr != nil, o.completed))
				}
			}})
		}
	}
	socksScenarios(cfg, emit)
	meekScenarios(cfg, emit)
	emit(ssTicketScenario(seed))
}

// ssTicketScenario: the session-ticket handshake path of the ScrambleSuit client
// (second connection of a history) is held to the same deadline rules.
func ssTicketScenario(seed int64) mc.Scenario {
	return mc.Scenario{Name: "scramblesuit-client/ticket-path", Weight: 20, Run: func(c *mc.Ctx) {
		rnd.Install(rnd.New(seed, "c10-sst"))
		pr := rnd.New(seed, "c10-sst-peer")
		dir := o4h.StateDir() + "/sst"
		os.RemoveAll(dir)
		os.MkdirAll(dir, 0o700)
		cf, err := (&scramblesuit.Transport{}).ClientFactory(dir)
		if err != nil {
			fail(c, "setup", "setup", "%v", err)
			return
		}
		a := pt.Args{}
		a.Add("password", base32.StdEncoding.EncodeToString(kB))
		newT := pr.Bytes(144)
		newT2 := pr.Bytes(144)
		tickets := map[string][]byte{string(newT[32:]): newT[:32], string(newT2[32:]): newT2[:32]}
		var kinds []string
		var events [][]wire.Event
		var errs []error
		res := sched.Run(c, sched.Options{NoPreempt: true, NoEarlyTimers: true, Start: start, MaxSteps: 200_000}, func() {
			s := sched.Cur()
			for i := 0; i < 3; i++ {
				if i == 2 {
					// the ticket issued on the second connection expires (7 days)
					// while the client keeps running; the third connection finds it
					// in the store
					s.Advance(8 * 24 * time.Hour)
				}
				cw, sw := wire.Pipe("endpoint", "peer")
				done := false
				so := ref.SSServerOpts{KB: kB, Priv: pr.Bytes(192), PadLen: 9, Hour: s.Now().Unix() / 3600, Seed: bytes.Repeat([]byte{9}, 32), Tickets: tickets, Separate: true}
				if i == 0 {
					so.Issue = newT
				}
				if i == 1 {
					so.Issue = newT2
				}
				s.Spawn("peer", func() {
					defer func() { done = true }()
					rs, err := ref.SSServe(sw, so, pr)
					if err != nil {
						errs = append(errs, err)
						sw.Close()
						return
					}
					kinds = append(kinds, rs.Kind)
					for round := 0; round < 2; round++ {
						if err := rs.RecvUntil(10 * (round + 1)); err != nil {
							sw.Close()
							return
						}
						rs.Send(o4h.Pattern('P', round*50, 50), 0)
					}
					for {
						if _, err := rs.RecvOnce(); err != nil {
							break
						}
					}
					sw.Close()
				})
				pa, _ := cf.ParseArgs(&a)
				conn, err := cf.Dial("tcp", "x", func(string, string) (net.Conn, error) { return cw, nil }, pa)
				if err != nil {
					errs = append(errs, fmt.Errorf("connection %d: Dial: %w", i+1, err))
					cw.Close()
				} else {
					buf := make([]byte, 64)
					for round := 0; round < 2; round++ {
						if round == 1 {
							s.Advance(24 * time.Hour) // an established connection idles for a day
						}
						if _, err := conn.Write(o4h.Pattern('E', 0, 10)); err != nil {
							errs = append(errs, fmt.Errorf("connection %d round %d: Write: %w", i+1, round, err))
							break
						}
						got := 0
						for got < 50 {
							n, err := conn.Read(buf)
							got += n
							if err != nil {
								errs = append(errs, fmt.Errorf("connection %d round %d: Read: %w", i+1, round, err))
								break
							}
						}
					}
					conn.Close()
				}
				events = append(events, cw.Events)
				s.Point("wait-peer", func() bool { return done })
			}
		})
		if len(res.Panics) > 0 {
			fail(c, "no-panic", "panic/scramblesuit-ticket", "%s", res.Panics[0])
			return
		}
		c.Observe("kinds", fmt.Sprint(kinds, len(errs)))
		if len(kinds) < 2 || kinds[0] != "uniformdh" || kinds[1] != "ticket" {
			fail(c, "setup", "ticket-path-not-reached", "handshakes seen by the server: %v (errors %v)", kinds, errs)
			return
		}
		if len(kinds) != 3 {
			fail(c, "liveness", "wedged/scramblesuit-dial-after-ticket-expiry", "the connection made after the stored ticket expired did not complete: handshakes seen by the server %v, errors %v", kinds, errs)
			return
		}
		for i, ev := range events {
			dl, rdl, wdl := deadlineEvents(ev)
			if len(dl) == 0 {
				fail(c, "deadline", "deadline/never-armed/scramblesuit-ticket", "connection %d (%s): no handshake deadline was armed", i+1, kinds[i])
				continue
			}
			if dl[0].T.Sub(dl[0].At) != 60*time.Second {
				fail(c, "deadline", "deadline/arm/scramblesuit-ticket", "connection %d (%s): deadline armed to +%v, want +60s", i+1, kinds[i], dl[0].T.Sub(dl[0].At))
			}
			if !rdl.IsZero() || !wdl.IsZero() {
				fail(c, "deadline", "deadline/not-cleared/scramblesuit-"+kinds[i], "connection %d (%s handshake): Dial succeeded but the handshake deadline is still armed", i+1, kinds[i])
			}
		}
		if len(errs) > 0 {
			fail(c, "deadline", "deadline/stale-timer/scramblesuit-ticket", "an established connection failed: %v", errs[0])
		}
	}}
}

// deadlineEvents returns the deadline-setting calls made on a connection (in
// order) and the read and write deadlines in force after the last of them
// (SetDeadline sets both, SetReadDeadline / SetWriteDeadline one each).
func deadlineEvents(evs []wire.Event) (calls []wire.Event, rd, wr time.Time) {
	for _, e := range evs {
		switch e.Kind {
		case "SetDeadline":
			rd, wr = e.T, e.T
		case "SetReadDeadline":
			rd = e.T
		case "SetWriteDeadline":
			wr = e.T
		default:
			continue
		}
		calls = append(calls, e)
	}
	return
}

// ---- socks5 --------------------------------------------------------------------------------

func socksScenarios(cfg *mc.Config, emit func(mc.Scenario)) {
	msgs := [][]byte{{5, 2, 0, 2}, append(append([]byte{1, 7}, []byte("k=v;x=y")...), 1, 0), {5, 1, 0, 3, 4, 'h', 'o', 's', 't', 1, 187}}
	all := bytes.Join(msgs, nil)
	for _, ce := range []struct {
		name string
		err  error
	}{{"eof", nil}, {"reset", wire.ErrReset}, {"stall", wire.ErrStall}} {
		ce := ce
		emit(mc.Scenario{Name: "socks5/cut-" + ce.name, Weight: 20, Run: func(c *mc.Ctx) {
			outs := map[string]bool{}
			for p := 0; p <= len(all); p++ {
				for wf := -1; wf < 3; wf++ {
					if wf >= 0 && p != len(all) {
						continue
					}
					cw, sw := wire.Pipe("tor", "socks")
					if p < len(all) {
						sw.In.SetCut(int64(p), ce.err)
					}
					if wf >= 0 {
						wf := wf
						sw.WriteFault = func(n int, _ []byte) error {
							if n == wf {
								return errInjectedWrite
							}
							return nil
						}
					}
					var herr, rerr error
					var req *socks5.Request
					finished := false
					var endAt time.Duration
					res := sched.Run(c, sched.Options{NoPreempt: true, NoEarlyTimers: true, Start: start}, func() {
						s := sched.Cur()
						s.Spawn("client", func() {
							buf := make([]byte, 64)
							for i, m := range msgs {
								cw.Write(m)
								need := []int{2, 2, 10}[i]
								for got := 0; got < need; {
									n, err := cw.Read(buf)
									got += n
									if err != nil {
										return
									}
								}
							}
						})
						req, herr = socks5.Handshake(sw)
						endAt = s.Now().Sub(start)
						if herr == nil {
							rerr = req.Reply(socks5.ReplySucceeded)
						}
						finished = true
						sw.Close()
					})
					c.AddExecutions(1)
					what := fmt.Sprintf("socks5, stream cut after %d of %d bytes (%s), write-fail #%d", p, len(all), ce.name, wf)
					if len(res.Panics) > 0 {
						fail(c, "no-panic", "panic/socks5", "%s: %s", what, res.Panics[0])
						continue
					}
					if !finished {
						fail(c, "no-wedge", "wedge/socks5", "%s: Handshake never returned: %+v", what, res.Blocked)
						continue
					}
					if p < len(all) && herr == nil {
						fail(c, "error-returned", "truncated-accepted/socks5", "%s: accepted", what)
					}
					if wf >= 0 && herr == nil && rerr == nil {
						fail(c, "error-returned", "write-error-swallowed/socks5", "%s: no error", what)
					}
					if p < len(all) && ce.err == wire.ErrStall && endAt != 5*time.Second {
						fail(c, "deadline", "deadline/timeout-instant/socks5", "%s: gave up at +%v, want +5s", what, endAt)
					}
					dl, rdl, wdl := deadlineEvents(sw.Events)
					if len(dl) < 2 || !dl[0].T.Equal(start.Add(5*time.Second)) || !rdl.IsZero() || !wdl.IsZero() {
						fail(c, "deadline", "deadline/socks5", "%s: deadline not armed at entry / cleared at exit (%d calls)", what, len(dl))
					}
					outs[fmt.Sprintf("%d/%d err=%v", p, wf, herr != nil)] = true
				}
			}
			c.Observe("n", len(outs))
			c.AddDistinct(int64(len(outs)))
		}})
	}
}

// ---- meek_lite -------------------------------------------------------------------------------

type meekSrv struct {
	mu    sync.Mutex
	n     int
	mode  string
	conns []net.Conn
	maxQ  int
	// most bytes of one over-long error-response body the endpoint took off the wire
	errBodyTaken int
}

func (s *meekSrv) dial(string, string) (net.Conn, error) {
	a, b := net.Pipe()
	s.mu.Lock()
	s.conns = append(s.conns, b)
	s.mu.Unlock()
	go s.serve(b)
	return a, nil
}

func (s *meekSrv) serve(conn net.Conn) {
	defer conn.Close()
	br := bufio.NewReader(conn)
	for {
		req, err := http.ReadRequest(br)
		if err != nil {
			return
		}
		io.ReadAll(req.Body)
		s.mu.Lock()
		idx := s.n
		s.n++
		s.mu.Unlock()
		ok := func(n int) {
			fmt.Fprintf(conn, "HTTP/1.1 200 OK\r\nContent-Length: %d\r\n\r\n", n)
			conn.Write(o4h.Pattern('M', 0, n))
		}
		switch {
		case idx == 0:
			ok(10) // the first request always succeeds
		case s.mode == "status-500":
			fmt.Fprintf(conn, "HTTP/1.1 500 Internal Server Error\r\nContent-Length: 0\r\n\r\n")
		case s.mode == "status-503-body-1MiB":
			// an error page far beyond what a meek response may carry
			fmt.Fprintf(conn, "HTTP/1.1 503 Service Unavailable\r\nContent-Type: text/html\r\nContent-Length: %d\r\n\r\n", 1<<20)
			chunk := o4h.Pattern('E', 0, 32768)
			taken := 0
			for i := 0; i < 32; i++ {
				n, err := conn.Write(chunk)
				taken += n
				s.mu.Lock()
				if taken > s.errBodyTaken {
					s.errBodyTaken = taken
				}
				s.mu.Unlock()
				if err != nil {
					return
				}
			}
		case s.mode == "status-404-body":
			fmt.Fprintf(conn, "HTTP/1.1 404 Not Found\r\nContent-Length: 9\r\n\r\nnot found")
		case s.mode == "status-302":
			fmt.Fprintf(conn, "HTTP/1.1 302 Found\r\nLocation: http://elsewhere.example/\r\nContent-Length: 0\r\n\r\n")
		case s.mode == "body-overlong":
			ok(200000)
		case s.mode == "body-max":
			ok(65536)
		case s.mode == "empty":
			ok(0)
		case s.mode == "cut-in-headers":
			conn.Write([]byte("HTTP/1.1 200 OK\r\nContent-Le"))
			return
		case s.mode == "cut-in-body":
			fmt.Fprintf(conn, "HTTP/1.1 200 OK\r\nContent-Length: 1000\r\n\r\n")
			conn.Write(o4h.Pattern('M', 0, 100))
			return
		case s.mode == "garbage":
			conn.Write(bytes.Repeat([]byte{0xfe, 0x01, 0x80}, 5000))
			return
		case s.mode == "chunked-endless-header":
			conn.Write([]byte("HTTP/1.1 200 OK\r\n"))
			for i := 0; i < 2000; i++ {
				if _, err := fmt.Fprintf(conn, "X-Pad-%d: %s\r\n", i, strings.Repeat("a", 1000)); err != nil {
					return
				}
			}
			return
		case s.mode == "body-chunked-1MiB":
			// a body of undeclared length, far beyond what a meek response may carry
			conn.Write([]byte("HTTP/1.1 200 OK\r\nTransfer-Encoding: chunked\r\nContent-Type: application/octet-stream\r\n\r\n"))
			chunk := o4h.Pattern('K', 0, 32768)
			for i := 0; i < 32; i++ {
				if _, err := fmt.Fprintf(conn, "%x\r\n", len(chunk)); err != nil {
					return
				}
				conn.Write(chunk)
				conn.Write([]byte("\r\n"))
			}
			conn.Write([]byte("0\r\n\r\n"))
		case s.mode == "body-until-close-1MiB":
			conn.Write([]byte("HTTP/1.1 200 OK\r\nConnection: close\r\nContent-Type: application/octet-stream\r\n\r\n"))
			chunk := o4h.Pattern('K', 0, 32768)
			for i := 0; i < 32; i++ {
				if _, err := conn.Write(chunk); err != nil {
					return
				}
			}
			return
		case s.mode == "close-immediately":
			return
		default:
			ok(0)
		}
	}
}

func (s *meekSrv) closeAll() {
	s.mu.Lock()
	defer s.mu.Unlock()
	for _, c := range s.conns {
		c.Close()
	}
}

func meekScenarios(cfg *mc.Config, emit func(mc.Scenario)) {
	modes := []string{"status-500", "status-503-body-1MiB", "status-404-body", "status-302", "body-overlong", "body-max", "body-chunked-1MiB", "body-until-close-1MiB", "empty", "cut-in-headers", "cut-in-body", "garbage", "chunked-endless-header", "close-immediately"}
	for _, mode0 := range append(append([]string{}, modes...), "burst/cut-in-body", "burst/close-immediately", "burst/status-500", "burst/cut-in-headers") {
		mode0 := mode0
		burst := strings.HasPrefix(mode0, "burst/")
		mode := strings.TrimPrefix(mode0, "burst/")
		bound := 0
		if burst {
			bound = 1
		}
		emit(mc.Scenario{Name: "meek/" + mode0, Weight: 20, Bound: bound, Run: func(c *mc.Ctx) {
			rnd.Install(rnd.New(cfg.Seed, "c10-meek"))
			srv := &meekSrv{mode: mode}
			defer srv.closeAll()
			a := pt.Args{}
			a.Add("url", "http://meek.example/")
			cf, _ := (&meeklite.Transport{}).ClientFactory("")
			pa, _ := cf.ParseArgs(&a)
			var got []byte
			var rErr, wErr error
			readerDone, writerDone := false, false
			qmax := 0
			closed := false
			res := sched.Run(c, sched.Options{MaxSteps: 2_000_000, NoPreempt: !burst, PreemptKinds: []string{"send", "close", "select"}, OnQuiescent: func(s *sched.Sched) bool { return false }}, func() {
				s := sched.Cur()
				conn, err := cf.Dial("tcp", "", srv.dial, pa)
				if err != nil {
					wErr = err
					return
				}
				s.Spawn("reader", func() {
					b := make([]byte, 30000)
					for {
						n, err := conn.Read(b)
						got = append(got, b[:n]...)
						for _, f := range []string{"workerRdChan", "workerWrChan"} {
							if n, ok := bufLen(conn, f); ok && n > qmax {
								qmax = n
							}
						}
						if err != nil {
							rErr = err
							break
						}
						if len(got) > 3_000_000 {
							break
						}
					}
					readerDone = true
				})
				s.Spawn("writer", func() {
					n := 6
					if burst {
						// many back-to-back writes: the 16-entry backlog fills and Write
						// blocks while the worker is inside a (failing) round trip
						n = 40
					}
					for i := 0; i < n; i++ {
						if _, err := conn.Write(o4h.Pattern('W', i*100, 100)); err != nil {
							wErr = err
							break
						}
						if !burst {
							sched.Sleep(200 * time.Millisecond)
						}
					}
					writerDone = true
				})
				// the harness closes after 20 minutes of model time at the latest
				sched.Sleep(20 * time.Minute)
				conn.Close()
				closed = true
			})
			what := "meek_lite, server behaviour " + mode0
			if len(res.Panics) > 0 {
				fail(c, "no-panic", "panic/meek/"+mode0, "%s: %s", what, res.Panics[0])
				return
			}
			if res.Livelock {
				fail(c, "no-spin", "spin/meek/"+mode, "%s: step budget exceeded (%d steps)", what, res.Steps)
				return
			}
			if !writerDone {
				fail(c, "no-wedge", "wedge/meek-writer/"+mode, "%s: Write never returned: %+v", what, res.Blocked)
			}
			if !readerDone {
				fail(c, "no-wedge", "wedge/meek-reader/"+mode, "%s: Read never returned after the worker gave up / Close: %+v", what, res.Blocked)
			}
			if qmax > 16 {
				fail(c, "bounded-buffers", "bloat/meek-queue", "%s: %d queued bodies", what, qmax)
			}
			srv.mu.Lock()
			nreq := srv.n
			errBody := srv.errBodyTaken
			srv.mu.Unlock()
			c.Count("meek_error_body_bytes_taken_max", int64(errBody))
			if errBody > 2*65536 {
				fail(c, "bounded-buffers", "bloat/meek-error-body/"+mode, "%s: the endpoint took %d bytes of one error-response body off the wire (a meek body is at most 65536 bytes)", what, errBody)
			}
			if nreq > 0 && len(got) > 65536*nreq {
				fail(c, "bounded-buffers", "bloat/meek-response/"+mode, "%s: Read delivered %d bytes out of %d responses: more than 65536 bytes of one response were buffered", what, len(got), nreq)
			}
			if nreq > 400 {
				fail(c, "no-spin", "spin/meek-requests/"+mode, "%s: %d requests within 20 minutes of model time against a failing server", what, nreq)
			}
			_ = closed
			c.Observe("out", fmt.Sprintf("got=%d rErr=%v wErr=%v requests=%d", len(got), rErr != nil, wErr != nil, nreq))
			c.Count("meek_requests", int64(nreq))
		}})
	}
}

func main() { mc.Main("C10", scenarios) }
