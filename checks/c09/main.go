//go:build verif

// C09: obfs4 traffic shaping follows the bridge's seeded distributions and never crashes.
package main

import (
	"bytes"
	"encoding/hex"
	"fmt"
	"gitlab.com/yawning/obfs4.git/common/drbg"
	"gitlab.com/yawning/obfs4.git/common/probdist"
	"math"
	"net"
	"os"
	"time"

	"gitlab.com/yawning/obfs4.git/internal/zzverif/mc"
	"gitlab.com/yawning/obfs4.git/internal/zzverif/o4h"
	"gitlab.com/yawning/obfs4.git/internal/zzverif/ref"
	"gitlab.com/yawning/obfs4.git/internal/zzverif/rnd"
	"gitlab.com/yawning/obfs4.git/internal/zzverif/sched"
	"gitlab.com/yawning/obfs4.git/internal/zzverif/wire"
	"gitlab.com/yawning/obfs4.git/transports/obfs4"
)

func fail(c *mc.Ctx, oracle, key, format string, a ...any) {
	c.Fail(oracle, "C09/"+key, format, a...)
}

// ---- (i) exhaustive padding arithmetic ----------------------------------------

func padScenario(lo, hi int) mc.Scenario {
	return mc.Scenario{
		Name:   fmt.Sprintf("padburst/tail=%d..%d", lo, hi-1),
		Params: map[string]any{"tails": []int{lo, hi - 1}, "targets": "0..1448"},
		Weight: 30,
		Run: func(c *mc.Ctx) {
			if !obfs4.VerifPadBurstAvailable {
				// the private padding routine is not callable the way the accessor
				// knows (vcheck swapped in the stub): the end-to-end shapes decide
				c.Count("padburst_accessor_unavailable", 1)
				c.Trivial()
				return
			}
			key := rnd.New(1, "c09-key").Bytes(72)
			evals, padded := 0, 0
			classes := map[string]bool{}
			for tail := lo; tail < hi; tail++ {
				for target := 0; target <= 1448; target++ {
					evals++
					var app []byte
					var err error
					func() {
						defer func() {
							if r := recover(); r != nil {
								err = fmt.Errorf("panic: %v", r)
							}
						}()
						app, err = obfs4.VerifPadBurst(key, tail, target)
					}()
					if err != nil {
						fail(c, "pad-arith", "padburst/error", "padBurst(tail=%d, target=%d): %v", tail, target, err)
						continue
					}
					need := ((target-tail)%1448 + 1448) % 1448
					end := (tail + len(app)) % 1448
					okEnd := false
					switch {
					case need == 0:
						okEnd = len(app) == 0 || end == target%1448
					case need > 21:
						okEnd = end == target%1448
					default:
						okEnd = end == target%1448 || end == (target+21)%1448
					}
					if !okEnd {
						fail(c, "pad-arith", fmt.Sprintf("padburst/end/need%s", needClass(need)), "tail=%d target=%d: needed padding %d, appended %d bytes, burst ends at %d (mod 1448), want %d%s", tail, target, need, len(app), end, target%1448, plus21(need))
						continue
					}
					// appended bytes must be valid zero-payload frames <= 1448
					op := &ref.Opener{K: ref.NewLinkKey(key)}
					frames := op.Feed(app)
					if op.Err != nil || op.Pending() != 0 {
						fail(c, "pad-frames", "padburst/frames", "tail=%d target=%d: appended bytes are not whole valid frames: %v pending=%d", tail, target, op.Err, op.Pending())
						continue
					}
					for _, f := range frames {
						p, perr := ref.ParsePacket(f.Payload)
						if perr != nil || p.Type != ref.PktPayload || len(p.Payload) != 0 || f.Len > 1448 {
							fail(c, "pad-frames", "padburst/frames", "tail=%d target=%d: bad padding frame (len=%d err=%v)", tail, target, f.Len, perr)
						}
					}
					if len(app) > 0 {
						padded++
					}
					classes[fmt.Sprintf("%s/%d", needClass(need), len(frames))] = true
				}
			}
			c.Count("padburst_pairs", int64(evals))
			c.Count("padburst_pairs_with_padding", int64(padded))
			c.Observe("classes", fmt.Sprint(len(classes), " ", evals, " ", padded))
		},
	}
}

func needClass(n int) string {
	switch {
	case n == 0:
		return "=0"
	case n < 21:
		return "<21"
	case n == 21:
		return "=21"
	case n == 22:
		return "=22"
	}
	return ">22"
}

func plus21(need int) string {
	if need > 0 && need <= 21 {
		return " or +21"
	}
	return ""
}

// ---- (ii) end-to-end shaping with a scripted sampler ---------------------------

type shape struct {
	role   string // "server" or "client"
	seedNo int
	iat    int
	bias   bool
	size   int
	phase  string // client only: "before-seed" / "after-seed"
}

func (s shape) name() string {
	return fmt.Sprintf("shape/%s/seed%d/iat%d/bias=%v/size=%d/%s", s.role, s.seedNo, s.iat, s.bias, s.size, s.phase)
}

func framedLen(size int) int {
	n := 0
	for size > 0 {
		k := size
		if k > 1427 {
			k = 1427
		}
		n += 21 + k
		size -= k
	}
	return n
}

type cell struct {
	idx  int
	coin float64
}

func cellsOf(d *ref.Dist, quick bool) []cell {
	var out []cell
	for i := range d.Values {
		coins := []float64{0, 1 - 1.0/(1<<53)}
		p := d.Prob[i]
		if p < 1 {
			q := math.Floor(p*(1<<53)) / (1 << 53) // largest k/2^53 <= p
			coins = append(coins, q, q+1.0/(1<<53))
		}
		for _, co := range coins {
			out = append(out, cell{i, co})
		}
	}
	if quick && len(out) > 80 {
		// keep every index with both outcomes (coin 0 -> own value, max coin ->
		// alias) and the exact-threshold coins of the first 10 indices
		var k []cell
		for _, ce := range out {
			if ce.coin == 0 || ce.coin == 1-1.0/(1<<53) || ce.idx < 10 {
				k = append(k, ce)
			}
		}
		out = k
	}
	return out
}

func expectSample(d *ref.Dist, ce cell) int {
	if ce.coin <= d.Prob[ce.idx] {
		return d.Min + d.Values[ce.idx]
	}
	return d.Min + d.Values[d.Alias[ce.idx]]
}

func inInts(xs []int, v int) bool {
	for _, x := range xs {
		if x == v {
			return true
		}
	}
	return false
}

func runShape(c *mc.Ctx, sh shape, br *o4h.Bridge, seed int64, quick bool) {
	stream := rnd.New(seed, "c09-"+sh.name())
	rnd.Install(stream)
	refRnd := rnd.New(seed, "c09-ref-"+sh.name())
	o4h.SetBias(sh.bias)
	lenD := ref.NewDist(br.Seed, 0, 1448, sh.bias)
	cw, sw := wire.Pipe("client", "server")
	var realErr, refErr error
	var rs *o4h.RefSession
	nWrites := 0
	governed := !(sh.role == "client" && sh.phase == "before-seed")
	var realWire *wire.Conn
	if sh.role == "server" {
		realWire = sw
	} else {
		realWire = cw
	}
	var sentPayload int
	warm := 0
	finished := false
	var recs []wrec
	skipped := false
	lastSize := 0
	var lastConn net.Conn
	lastDists := func() ([]int, []int, bool) {
		if lastConn == nil {
			return nil, nil, false
		}
		return obfs4.VerifDists(lastConn)
	}
	var wantPayload []byte
	res := sched.Run(c, sched.Options{NoPreempt: true, MaxSteps: 400_000}, func() {
		s := sched.Cur()
		var conn net.Conn
		if sh.role == "server" {
			sf, err := br.ServerFactory()
			if err != nil {
				realErr = err
				return
			}
			if sh.phase == "later-connection" {
				// the connection under test is not the first one of this running
				// bridge: an earlier client connected, received data and was closed
				pcw, psw := wire.Pipe("client-prior", "server-prior")
				priorRnd := rnd.New(seed, "c09-ref-prior-"+sh.name())
				s.Spawn("ref-client-prior", func() {
					prs, _, err := o4h.RefClient(pcw, br.ID.Pub[:], br.ID.NodeID[:], o4h.ClientOpts{PadLen: 120}, priorRnd)
					if err != nil {
						pcw.Close()
						return
					}
					for {
						if _, err := prs.RecvOnce(); err != nil {
							break
						}
					}
				})
				pconn, err := sf.WrapConn(psw)
				if err != nil {
					realErr = fmt.Errorf("earlier connection: %v", err)
					return
				}
				pconn.Write(o4h.Pattern('P', 0, 3000))
				pconn.Close()
			}
			s.Spawn("ref-client", func() {
				rs, _, refErr = o4h.RefClient(cw, br.ID.Pub[:], br.ID.NodeID[:], o4h.ClientOpts{PadLen: 100}, refRnd)
				if refErr != nil {
					cw.Close()
					return
				}
				if sh.phase == "peer-sent-seed" {
					// a client that sends a PRNG seed packet of its own (no stock client
					// does): the bridge's sizes stay governed by the bridge's seed
					rs.SendRaw(rs.Tx.Seal(ref.Packet(ref.PktSeed, rnd.New(seed, "c09-peer-seed").Bytes(24), 0)))
					rs.Send([]byte{0x41}, 0)
				}
				for {
					if _, err := rs.RecvOnce(); err != nil {
						break
					}
				}
			})
			conn, realErr = sf.WrapConn(sw)
			if realErr == nil && sh.phase == "peer-sent-seed" {
				b := make([]byte, 8)
				if n, err := conn.Read(b); err != nil || n != 1 || b[0] != 0x41 {
					realErr = fmt.Errorf("server Read of the client's first byte: n=%d err=%v", n, err)
				}
			}
		} else {
			s.Spawn("ref-server", func() {
				so := o4h.ServerOpts{PadLen: 10, LenSeed: br.Seed, SeparateSeed: false}
			if sh.phase == "after-seed-coalesced" {
				// a server that speaks first: its first data frame travels in the
				// same segment as the response and the seed frame, so the client
				// decodes the seed frame and another frame in one pass
				so.WithData = []byte{0x42}
			}
			rs, refErr = o4h.RefServer(sw, br.ID, so, refRnd)
				if refErr != nil {
					sw.Close()
					return
				}
				if sh.phase == "after-seed" {
					// answer the client's warm-up byte, so that this data
					// is never coalesced with the handshake response
					// (that case belongs to C01)
					if err := rs.RecvUntil(1); err != nil {
						refErr = err
						return
					}
					rs.Send([]byte{0x42}, 0)
				}
				for {
					if _, err := rs.RecvOnce(); err != nil {
						break
					}
				}
			})
			conn, realErr = o4h.Dial(br.ClientArgs("cert", nil), cw)
			if realErr == nil && sh.phase == "after-seed" {
				if _, err := conn.Write([]byte{0x41}); err != nil {
					realErr = err
					return
				}
				warm = 1
				b := make([]byte, 8)
				n, err := conn.Read(b)
				if err != nil || n != 1 || b[0] != 0x42 {
					realErr = fmt.Errorf("client Read of the first server byte: n=%d err=%v", n, err)
				}
			}
			if realErr == nil && sh.phase == "after-seed-coalesced" {
				b := make([]byte, 8)
				n, err := conn.Read(b)
				if err != nil || n != 1 || b[0] != 0x42 {
					realErr = fmt.Errorf("client Read of the server's greeting: n=%d err=%v", n, err)
				}
			}
		}
		if realErr != nil {
			return
		}
		lastConn = conn
		lenVals, iatVals, ok := obfs4.VerifDists(conn)
		tablesReadable := ok
		if !ok {
			// the connection's private tables cannot be read: where the bridge's
			// seed governs, the reference table stands in; a client before the
			// seed has an unknowable table (only size limits are judged then)
			c.Count("connections_without_readable_tables", 1)
			if governed {
				lenVals = lenD.Abs()
			}
		}
		if governed && tablesReadable {
			// the governing table is the bridge's, recomputed by the reference
			if fmt.Sprint(lenVals) != fmt.Sprint(lenD.Abs()) {
				fail(c, "seed-adoption", "shape/table/"+sh.role, "%s length table %v differs from the reference table of the bridge seed %v", sh.role, lenVals, lenD.Abs())
				return
			}
		}
		// another connection of the same process (to another bridge) builds its own
		// distributions: this connection's tables stay what they were
		for k := 0; k < 2; k++ {
			otherSeed, err := drbg.SeedFromBytes(rnd.New(seed, fmt.Sprint("c09-other-bridge-", k)).Bytes(24))
			if err != nil {
				panic(err)
			}
			probdist.New(otherSeed, 0, 1448, sh.bias)
			probdist.New(otherSeed, 0, 100, sh.bias)
		}
		if lv2, iv2, ok2 := obfs4.VerifDists(conn); ok2 && tablesReadable && (fmt.Sprint(lv2) != fmt.Sprint(lenVals) || fmt.Sprint(iv2) != fmt.Sprint(iatVals)) {
			fail(c, "seed-adoption", "shape/table-changed/"+sh.role, "%s: the connection's length/delay tables changed (%v -> %v) when distributions for another connection (another seed) were created", sh.role, lenVals, lv2)
			return
		}
		if !tablesReadable && !governed {
			skipped = true // nothing to judge the sizes against
			return
		}
		var cells []cell
		if governed {
			cells = cellsOf(lenD, quick)
		} else {
			for i := range lenVals {
				cells = append(cells, cell{i, 0})
			}
		}
		for _, ce := range cells {
			size := sh.size
			if sh.size < 0 {
				// "near target": the framed write ends k = -size bytes short
				// of the value this cell samples, so the needed padding is
				// smaller than (or equal to) a frame header
				var T0 int
				if governed {
					T0 = expectSample(lenD, ce)
				} else {
					T0 = lenVals[ce.idx]
				}
				size = T0 - 21 + sh.size
				if size < 1 && sh.iat == 2 && T0 > 0 {
					// paranoid mode writes T0-byte pieces: any framed length
					// that ends k short of a multiple of T0 is "near target"
					for size < 1 {
						size += T0
					}
				}
				if size < 1 {
					continue
				}
			}
			data := o4h.Pattern('D', 0, size)
			lastSize = size
			stream.Script = rnd.ScriptSample(ce.idx, ce.coin)
			w0 := len(realWire.Out.Writes)
			t0 := s.Now()
			var k int
			var werr error
			func() {
				defer func() {
					if r := recover(); r != nil {
						werr = fmt.Errorf("panic: %v", r)
						msg := fmt.Sprint(r)
						key := "shape/write-panic"
						if msg == "BUG: Write(), iat length was 0" {
							key = "shape/write-panic/iat-len-0"
						}
						fail(c, "no-panic", key, "%s Write(%d bytes) iat-mode=%d panicked: %v (first scripted sample cell idx=%d coin=%v)", sh.role, size, sh.iat, r, ce.idx, ce.coin)
					}
				}()
				k, werr = wire.WriteOwned(conn, data)
			}()
			if werr != nil {
				realErr = werr
				return
			}
			nWrites++
			sentPayload += size
			wantPayload = append(wantPayload, data...)
			if k != size {
				fail(c, "write-result", "shape/write-result", "Write(%d) returned %d", size, k)
			}
			ws := realWire.Out.Writes[w0:]
			var T int
			if governed {
				T = expectSample(lenD, ce)
			} else {
				T = lenVals[ce.idx]
			}
			shc := sh
			shc.size = size
			recs = append(recs, wrec{shc, append([]wire.WriteRec{}, ws...), T, append([]int{}, lenVals...), append([]int{}, iatVals...)})
			_ = t0
		}
		conn.Close()
		finished = true
	})
	if skipped {
		c.Count("shapes_skipped_for_want_of_a_readable_table", 1)
		c.Trivial()
		return
	}
	if len(res.Panics) > 0 {
		fail(c, "no-panic", "shape/panic", "%s", res.Panics[0])
		return
	}
	if res.Livelock {
		lv, _, _ := lastDists()
		fail(c, "terminates", fmt.Sprintf("shape/livelock/iat%d/table=%v", sh.iat, lv), "%s Write(%d bytes) in iat-mode %d did not terminate within the step budget (%d wire writes so far); length table %v", sh.role, lastSize, sh.iat, len(realWire.Out.Writes), lv)
		return
	}
	if !finished && !c.Failed() && realErr == nil && refErr == nil && !res.Livelock {
		fail(c, "terminates", "shape/stuck", "the real %s never returned from a call: %+v", sh.role, res.Blocked)
		return
	}
	if c.Failed() {
		return
	}
	// burst/shape rules, evaluated on what the reference peer decoded: the framed
	// (non-padding) part of every Write is the sum of the frames that carry
	// payload, whatever packet size the implementation chops into
	if realErr == nil && refErr == nil && rs != nil && len(realWire.Out.Writes) > 0 {
		base := int64(realWire.Out.Writes[0].N)
		if sh.role == "server" {
			base -= 45 // the inline seed frame is the first frame of the stream
		}
		for _, r := range recs {
			if len(r.ws) == 0 {
				// nothing to send (an empty Write in an IAT mode); iat-mode 0 still
				// pads a burst and is held to "exactly one wire write" below
				if r.sh.iat == 0 {
					checkWrites(c, r.sh, r.ws, r.T, r.lenVals, r.iatVals, 0)
				}
				continue
			}
			lo := r.ws[0].Off - base
			hi := r.ws[len(r.ws)-1].Off + int64(r.ws[len(r.ws)-1].N) - base
			framed := 0
			for i, f := range rs.Frames {
				if int64(f.Off) >= lo && int64(f.Off) < hi && i < len(rs.Packets) && len(rs.Packets[i].Payload) > 0 {
					framed += f.Len
				}
			}
			checkWrites(c, r.sh, r.ws, r.T, r.lenVals, r.iatVals, framed)
			if c.Failed() {
				break
			}
		}
	}
	c.Observe("shape", fmt.Sprintf("writes=%d wire=%d realErr=%v refErr=%v", nWrites, len(realWire.Out.Writes), realErr, refErr))
	if realErr != nil || refErr != nil {
		fail(c, "session", "shape/session", "session failed: real=%v ref=%v", realErr, refErr)
		return
	}
	if res.Livelock {
		lv, _, _ := lastDists()
		fail(c, "terminates", fmt.Sprintf("shape/livelock/iat%d/table=%v", sh.iat, lv), "%s Write(%d bytes) in iat-mode %d did not terminate within the step budget (%d wire writes so far); length table %v", sh.role, lastSize, sh.iat, len(realWire.Out.Writes), lv)
		return
	}
	if rs.RxErr != nil {
		fail(c, "frames", "shape/frames", "reference decoder rejected the shaped stream: %v", rs.RxErr)
	}
	want := wantPayload
	if warm == 1 {
		want = append([]byte{0x41}, want...)
	}
	if !bytes.Equal(rs.Payload, want) {
		fail(c, "stream", "shape/stream", "payload received by the reference peer differs (%d vs %d bytes)", len(rs.Payload), len(want))
	}
	for _, f := range rs.Frames {
		if f.Len > 1448 {
			fail(c, "frame-size", "shape/frame-size", "frame of %d bytes", f.Len)
		}
	}
	c.Count("shaped_writes", int64(nWrites))
}

type wrec struct {
	sh               shape
	ws               []wire.WriteRec
	T                int
	lenVals, iatVals []int
}

func checkWrites(c *mc.Ctx, sh shape, ws []wire.WriteRec, T int, lenVals, iatVals []int, framed int) {
	total := 0
	for _, w := range ws {
		total += w.N
	}
	mode := fmt.Sprintf("iat%d", sh.iat)
	ruleFor := func(T int) bool {
		need := ((T-framed)%1448 + 1448) % 1448
		extra := total - framed
		end := total % 1448
		if extra < 0 {
			return false
		}
		switch {
		case need == 0:
			return extra == 0 || extra == 1448 // a target of 1448 is a full extra segment
		case need > 21:
			return extra == need
		default:
			return end == T%1448 || end == (T+21)%1448
		}
	}
	burstRule := func() {
		if ruleFor(T) {
			return
		}
		// The scripted draw says which table value was sampled.  How the
		// implementation turns entropy into a sample is not part of the
		// property, so a burst that ends on ANOTHER value of the table the way
		// the rule says is not reported (the counter shows it).
		for _, v := range lenVals {
			if ruleFor(v) {
				c.Count("burst_ends_on_another_table_value", 1)
				return
			}
		}
		fail(c, "burst-end", "shape/burst-end/"+mode, "%s Write(%d) with sampled target %d: %d framed bytes + %d padding = %d on the wire, burst ends at %d (mod 1448): not the end the rule gives for any value of the length table %v", sh.role, sh.size, T, framed, total-framed, total, total%1448, lenVals)
	}
	switch sh.iat {
	case 0:
		// (how many writes to the network a burst takes is not part of the
		// property: the burst is everything this Write put on the wire)
		if len(ws) != 1 {
			c.Count("iat0_bursts_in_several_wire_writes", 1)
		}
		burstRule()
	case 1:
		for i, w := range ws {
			if w.N > 1448 || w.N == 0 {
				fail(c, "iat-chunk", "shape/iat1-chunk", "iat-mode 1: wire write %d of %d is %d bytes", i, len(ws), w.N)
			}
			if i < len(ws)-1 && w.N != 1448 {
				c.Count("iat1_short_writes_inside_a_burst", 1) // (not demanded by the property)
			}
		}
		burstRule()
		checkDelays(c, ws, iatVals, mode)
	case 2:
		for i, w := range ws {
			// a sampled 0 cannot be a write size; it denotes a full segment
			// (as target 0 does for burst padding), so 1448 is legal exactly
			// when the table contains 0
			legal := w.N != 0 && (inInts(lenVals, w.N) || (w.N == 1448 && inInts(lenVals, 0)))
			if !legal {
				fail(c, "paranoid-length", "shape/iat2-length", "iat-mode 2: wire write %d is %d bytes, not a non-zero value of the length table %v", i, w.N, lenVals)
				return
			}
			if w.N > 1448 {
				fail(c, "iat-chunk", "shape/iat2-chunk", "iat-mode 2: wire write of %d bytes", w.N)
			}
		}
		if total < framed {
			fail(c, "paranoid-length", "shape/iat2-total", "iat-mode 2: %d bytes on the wire < %d framed", total, framed)
		}
		if T == 0 {
			T = 1448
		}
		if len(ws) > 0 && framed <= T && ((T-framed) == 0 || (T-framed) > 21) && ws[0].N != T {
			// every write is a table value (checked above); that the first one is the
			// scripted sample depends on how entropy is consumed: counted only
			c.Count("iat2_first_write_is_not_the_scripted_sample", 1)
		}
		checkDelays(c, ws, iatVals, mode)
	}
}

func checkDelays(c *mc.Ctx, ws []wire.WriteRec, iatVals []int, mode string) {
	for i := 1; i < len(ws); i++ {
		d := ws[i].At.Sub(ws[i-1].At)
		if d%(100*time.Microsecond) != 0 || !inInts(iatVals, int(d/(100*time.Microsecond))) {
			// C09 is about sizes; the delays between writes are observed, not judged
			c.Count("iat_delays_outside_the_delay_table", 1)
			return
		}
	}
}

// findSeeds returns bridges (label indices) whose length table does / does not contain 0.
func findBridges(seed int64, bias bool, iat int) (withZero, without *o4h.Bridge, wzNo, woNo int) {
	for i := 0; i < 4000 && (withZero == nil || without == nil); i++ {
		b := o4h.NewBridge(seed, fmt.Sprint("c09/", i), iat, bias)
		d := ref.NewDist(b.Seed, 0, 1448, bias)
		if d.Contains(0) {
			if withZero == nil && len(d.Values) > 1 {
				withZero, wzNo = b, i
			}
		} else if without == nil {
			without, woNo = b, i
		}
	}
	return
}

// smallTableBridges returns bridges whose length table has exactly one value
// (the first K found by a search that does not depend on VERIF_SEED, so that
// scenario names and failure keys are stable).
func smallTableBridges(K int, bias bool, iat int) []*o4h.Bridge {
	id := o4h.NewBridge(20260926, "c09-small", iat, bias).ID
	if os.Getenv("VERIF_C09_SEARCH") != "" {
		// one-off search that produced smallSeeds below (about 14 ms per candidate)
		seeds := rnd.New(20260926, "c09-small-seeds")
		near, far := 0, 0
		for i := 0; i < 400000 && (near < 30 || far < 30); i++ {
			sd := seeds.Bytes(24)
			d := ref.NewDist(sd, 0, 1448, false)
			if len(d.Values) != 1 {
				continue
			}
			v := d.Abs()[0]
			if v > 0 && 1469%v != 0 && v-1469%v <= 21 {
				if near < 30 {
					near++
					fmt.Printf("\t{%q, %d, true},\n", hex.EncodeToString(sd), v)
				}
			} else if far < 30 {
				far++
				fmt.Printf("\t{%q, %d, false},\n", hex.EncodeToString(sd), v)
			}
		}
		os.Exit(0)
	}
	// half of them with a value v for which a maximal-overshoot burst
	// (1448+21 extra bytes) leaves a remainder within a frame header of v
	// again, half without
	var near, far []*o4h.Bridge
	for _, e := range smallSeeds {
		sd, _ := hex.DecodeString(e.seed)
		b := &o4h.Bridge{ID: id, Seed: sd, IAT: iat, Bias: bias}
		if e.near && len(near) < K/2 {
			near = append(near, b)
		} else if !e.near && len(far) < K-K/2 {
			far = append(far, b)
		}
	}
	all := append(near, far...)
	for _, b := range all {
		if d := ref.NewDist(b.Seed, 0, 1448, bias); len(d.Values) != 1 {
			panic("smallSeeds: not a single-value table")
		}
	}
	return all
}

func main() {
	mc.Main("C09", func(cfg *mc.Config, emit func(mc.Scenario)) {
		// single-value tables: every write size relative to the value, all IAT modes
		for iat := 0; iat <= 2; iat++ {
			K := 12
			if cfg.Thorough() {
				K = 60
			}
			for bi, b := range smallTableBridges(K, false, iat) {
				for _, size := range []int{1, 100, 1427, 3000, -1, -21, -22} {
					sh := shape{"server", 100000 + bi, iat, false, size, ""}
					br := b
					emit(mc.Scenario{Name: sh.name(), Params: map[string]any{"shape": sh.name(), "table": ref.NewDist(b.Seed, 0, 1448, false).Abs()}, Weight: 3,
						Run: func(c *mc.Ctx) { runShape(c, sh, br, cfg.Seed, !cfg.Thorough()) }})
				}
			}
		}
		for lo := 0; lo < 1448; lo += 91 {
			hi := lo + 91
			if hi > 1448 {
				hi = 1448
			}
			emit(padScenario(lo, hi))
		}
		// negative sizes are "near target" writes: framed length = sampled value - k
		sizes := []int{0, 1, 20, 21, 22, 1427, 1428, 5000, 20000, -1, -21, -22, 65000, 65536, 131072}
		quick := !cfg.Thorough()
		for _, bias := range []bool{false, true} {
			for iat := 0; iat <= 2; iat++ {
				wz, wo, wzNo, woNo := findBridges(cfg.Seed, bias, iat)
				type bsel struct {
					b  *o4h.Bridge
					no int
				}
				bs := []bsel{{wz, wzNo}, {wo, woNo}}
				if cfg.Thorough() {
					bs = append(bs, bsel{o4h.NewBridge(cfg.Seed, "c09/x1", iat, bias), 9001}, bsel{o4h.NewBridge(cfg.Seed, "c09/x2", iat, bias), 9002})
				}
				for _, b := range bs {
					if b.b == nil {
						continue
					}
					for _, size := range sizes {
						if size > 60000 && (iat == 2 || (quick && b.no != bs[0].no)) {
							continue // the very large writes: IAT modes 0 and 1
						}
						for _, role := range []string{"server", "client"} {
							phases := []string{""}
							if role == "client" {
								phases = []string{"before-seed", "after-seed", "after-seed-coalesced"}
							} else if size == 1428 || size == 20 {
								phases = []string{"", "peer-sent-seed", "later-connection"}
							}
							for _, ph := range phases {
								sh := shape{role, b.no, iat, bias, size, ph}
								br := b.b
								w := 1 + size/2000
								if size < 0 {
									w = 2
								}
								if iat == 2 {
									w *= 4
								}
								emit(mc.Scenario{Name: sh.name(), Params: map[string]any{"shape": sh.name()}, Weight: w,
									Run: func(c *mc.Ctx) { runShape(c, sh, br, cfg.Seed, quick) }})
							}
						}
					}
				}
			}
		}
	})
}

// smallSeeds are DRBG seeds whose length table has exactly one value (found
// once with VERIF_C09_SEARCH=1; the check re-derives and asserts the table).
var smallSeeds = []struct {
	seed string
	v    int
	near bool
}{
	{"49ede6e66d666a2b74f5e0b8a0b7c8d5483c4fba7eeca0e1", 1144, false},
	{"4b51e6cb297c4e166c7287dcd2eee7fe95c682e58656471c", 110, false},
	{"9e54d17b478683573ada8f1df98be9c1c78cbf949d042816", 648, false},
	{"231d61acbbdd3a5d1554932a9bd0c6b2c8cc899740b2dbfc", 1246, false},
	{"43b404f21d1e698bb09fb9401c12b6dc09d77f33415c29c8", 238, false},
	{"db3d7b713c85d8f34ab631c983fff8de9ceb8f57d157489d", 1208, false},
	{"a77fb14c9d4cfcced1d5b5edb451cc999d06bed93d0eb48d", 678, false},
	{"cee4e04b72aa96ea63cf11e4f5ee57680150e5604ef03e90", 38, true},
	{"e5c73140a8ea0d8ee4d51ab32962975f6175021b7f1f798c", 705, false},
	{"c6f061a18e7b9b950d49bfe8fd9770cf75c7c4e036f96242", 53, true},
	{"37b7522df80b450182e0bacc1192d81c4e58e42e0b41e0a5", 906, false},
	{"30fcc8a02b488d54c09f9b93f27623dfe9fb71038109749a", 509, false},
	{"6b9cb012b31306d21b4c2d5c91017c35e74da741a24ec44e", 503, false},
	{"d8f36c1965c77a578b4e35173f0ec1d0ce4c580fbfcc5b8c", 216, false},
	{"f909d2095ab3a397835db95c3a6e6e15c5839118b409fe9c", 537, false},
	{"89da28aaa0368a0551dacd127a01a53eab5ef83c0d11f0eb", 957, false},
	{"577c5cdd2e6372c7a879d27b87bf7f44e95890346f063f73", 916, false},
	{"1a22f31d74516b3b61b16779a537b4576552f659549c84a1", 884, false},
	{"24627a8bcb5046497ebbc3939d12e56a0d20fd51f71dd6d4", 900, false},
	{"56d9e6a89ead8614a3b508cd5ec37dd2b0067e9abfe4a75d", 1062, false},
	{"b7d964cf84cb36a3d43ca14fac7e60d57c1c9b8135ef4c5b", 126, false},
	{"6329249840b6ec26f46fd98316cbf6fe9f0133bd36464d0e", 570, false},
	{"7953109c71f42687d9bc7f94418a3a0f53276ef079002004", 1268, false},
	{"0bdbabf8709d125b520f312537e887dfb527a7a8f31a5b30", 676, false},
	{"2df53d3ad09ef48dd06c2cc8d4ce8daeec7c508649d8cebe", 1443, false},
	{"0682045a327cfd5dcfd10a8c0c9f25cf17c2d7c6b82fa885", 839, false},
	{"a25185e2f2a4553908dccf6b571ceb681e545fa612c42a78", 1368, false},
	{"4789d7b0790391bc80907f1681fd36914f1513e2bf216d10", 835, false},
	{"c83b74d079130ff08d243065a9534a32dea6d8e585383de7", 319, false},
	{"3c0d3f19c50b68d9e34e2e2c6270d818f0a0300cbad368f0", 703, false},
	{"29e05e7e11cfbd5af9c481c09b3c792728ac44f0a2096bdf", 1392, false},
	{"e1fc2f33da9fd3ee7d066ea575eda585c40165edfd870647", 1037, false},
	{"118bf1269b33352fe39dc6f1d1e60ef037ad14ff9faf33ae", 12, true},
	{"fd27a2c3312fe1241424b46cd4713642fa0567987b0ee44c", 165, true},
	{"264e56cd987c537c9b5cc5df7c95ca198d6817dff9e819cf", 297, true},
	{"3bc4abf328a4bd1aa0a36c7b58a7311d5dc2c1fb21b62d5d", 70, true},
	{"fbac359eb2fa3e2bba4ce55248e1c462ff47171a58b67fbd", 42, true},
	{"60105348c1f6120c3901cd8583d32bbcf8cdc31b00527f12", 297, true},
	{"a84b65f60c0e2166aefbd2cd8fedbc22299c3de6170c4977", 39, true},
	{"48ab5b6054f2c513de90c7d86e57c857d9d82d399ee8a962", 247, true},
	{"ee74e234d4191044f0152ffa683f49197df9ccfa080f0c04", 22, true},
	{"a4d257e05d88811c41228e840894fa9b167beae43d8ce589", 57, true},
	{"20613e59d39a7d77a2a2d9f5f47d1b1d38292594f3fe1aeb", 247, true},
	{"6709291d08f72e377bb31ab90c3f61b3fc173d81005a75cd", 3, true},
	{"e056b364000926e61370d3507a99c8118350d7882ef2b05f", 78, true},
	{"935ec7bd553632d5c030155863f84d421277ae4b3b2c428f", 16, true},
	{"d07c6ff48ded06ea6203c5edb3d06ba14d9f372127ff1638", 14, true},
	{"be203038808d95cdb9b772f524e3f8710dab0a67a76350d3", 294, true},
	{"a1807ae4a531e295fc73430a27b3f54c91ded799e640615f", 39, true},
	{"683d889601d1ccc428518cd74ee3daab8377eb3f6d16b1f5", 27, true},
	{"3735d4d755d55ed64d05a51694285fb88669ce9abf1c819c", 11, true},
	{"5effbbdf5935992e6e798ec941d085b809343cc01614f0c6", 51, true},
	{"09bd553abe73f659d06ce254eb123af1d87652796cc02e6e", 210, true},
	{"40409ed881e722a4bcd12d19df05119063a39952bb6c64ff", 490, true},
	{"4c423ad754227f07d1cd2eabb79ffe6c905c2b29ab6439fb", 3, true},
	{"cb1d1d7a6e95bc3ad16e38165fa20052d76035e8e73c3af4", 745, true},
	{"78201b5313014e5b2f8531ef180937dcb441dcb99e0092b6", 98, true},
	{"c409c9d48b0e29bb53c1a037f2ae77a1f760ce4ce2d89148", 124, true},
	{"38b1fcbb1757bb6610ba8764fcb74903ecec7a2413bbabab", 134, true},
	{"6165699f4ffdca646b524bea5833c660d09e54aa398389cd", 14, true},
}
