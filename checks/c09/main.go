//go:build verif

// C09: obfs4 traffic shaping follows the bridge's seeded distributions and never crashes.
package main

import (
	"bytes"
	"fmt"
	"math"
	"net"
	"time"

	"gitlab.com/yawning/obfs4.git/internal/zzverif/mc"
	"gitlab.com/yawning/obfs4.git/internal/zzverif/o4h"
	"gitlab.com/yawning/obfs4.git/internal/zzverif/ref"
	"gitlab.com/yawning/obfs4.git/internal/zzverif/rnd"
	"gitlab.com/yawning/obfs4.git/internal/zzverif/sched"
	"gitlab.com/yawning/obfs4.git/internal/zzverif/wire"
	"gitlab.com/yawning/obfs4.git/transports/obfs4"
)

func fail(c *mc.Ctx, oracle, key, format string, a ...any) {
	c.Fail(oracle, "C09/"+key, format, a...)
}

// ---- (i) exhaustive padding arithmetic ----------------------------------------

func padScenario(lo, hi int) mc.Scenario {
	return mc.Scenario{
		Name:   fmt.Sprintf("padburst/tail=%d..%d", lo, hi-1),
		Params: map[string]any{"tails": []int{lo, hi - 1}, "targets": "0..1448"},
		Weight: 30,
		Run: func(c *mc.Ctx) {
			key := rnd.New(1, "c09-key").Bytes(72)
			evals, padded := 0, 0
			classes := map[string]bool{}
			for tail := lo; tail < hi; tail++ {
				for target := 0; target <= 1448; target++ {
					evals++
					var app []byte
					var err error
					func() {
						defer func() {
							if r := recover(); r != nil {
								err = fmt.Errorf("panic: %v", r)
							}
						}()
						app, err = obfs4.VerifPadBurst(key, tail, target)
					}()
					if err != nil {
						fail(c, "pad-arith", "padburst/error", "padBurst(tail=%d, target=%d): %v", tail, target, err)
						continue
					}
					need := ((target-tail)%1448 + 1448) % 1448
					end := (tail + len(app)) % 1448
					okEnd := false
					switch {
					case need == 0:
						okEnd = len(app) == 0 || end == target%1448
					case need > 21:
						okEnd = end == target%1448
					default:
						okEnd = end == target%1448 || end == (target+21)%1448
					}
					if !okEnd {
						fail(c, "pad-arith", fmt.Sprintf("padburst/end/need%s", needClass(need)), "tail=%d target=%d: needed padding %d, appended %d bytes, burst ends at %d (mod 1448), want %d%s", tail, target, need, len(app), end, target%1448, plus21(need))
						continue
					}
					// appended bytes must be valid zero-payload frames <= 1448
					op := &ref.Opener{K: ref.NewLinkKey(key)}
					frames := op.Feed(app)
					if op.Err != nil || op.Pending() != 0 {
						fail(c, "pad-frames", "padburst/frames", "tail=%d target=%d: appended bytes are not whole valid frames: %v pending=%d", tail, target, op.Err, op.Pending())
						continue
					}
					for _, f := range frames {
						p, perr := ref.ParsePacket(f.Payload)
						if perr != nil || p.Type != ref.PktPayload || len(p.Payload) != 0 || f.Len > 1448 {
							fail(c, "pad-frames", "padburst/frames", "tail=%d target=%d: bad padding frame (len=%d err=%v)", tail, target, f.Len, perr)
						}
					}
					if len(app) > 0 {
						padded++
					}
					classes[fmt.Sprintf("%s/%d", needClass(need), len(frames))] = true
				}
			}
			c.Count("padburst_pairs", int64(evals))
			c.Count("padburst_pairs_with_padding", int64(padded))
			c.Observe("classes", fmt.Sprint(len(classes), " ", evals, " ", padded))
		},
	}
}

func needClass(n int) string {
	switch {
	case n == 0:
		return "=0"
	case n < 21:
		return "<21"
	case n == 21:
		return "=21"
	case n == 22:
		return "=22"
	}
	return ">22"
}

func plus21(need int) string {
	if need > 0 && need <= 21 {
		return " or +21"
	}
	return ""
}

// ---- (ii) end-to-end shaping with a scripted sampler ---------------------------

type shape struct {
	role   string // "server" or "client"
	seedNo int
	iat    int
	bias   bool
	size   int
	phase  string // client only: "before-seed" / "after-seed"
}

func (s shape) name() string {
	return fmt.Sprintf("shape/%s/seed%d/iat%d/bias=%v/size=%d/%s", s.role, s.seedNo, s.iat, s.bias, s.size, s.phase)
}

func framedLen(size int) int {
	n := 0
	for size > 0 {
		k := size
		if k > 1427 {
			k = 1427
		}
		n += 21 + k
		size -= k
	}
	return n
}

type cell struct {
	idx  int
	coin float64
}

func cellsOf(d *ref.Dist, quick bool) []cell {
	var out []cell
	for i := range d.Values {
		coins := []float64{0, 1 - 1.0/(1<<53)}
		p := d.Prob[i]
		if p < 1 {
			q := math.Floor(p*(1<<53)) / (1 << 53) // largest k/2^53 <= p
			coins = append(coins, q, q+1.0/(1<<53))
		}
		for _, co := range coins {
			out = append(out, cell{i, co})
		}
	}
	if quick && len(out) > 80 {
		// keep every index with both outcomes (coin 0 -> own value, max coin ->
		// alias) and the exact-threshold coins of the first 10 indices
		var k []cell
		for _, ce := range out {
			if ce.coin == 0 || ce.coin == 1-1.0/(1<<53) || ce.idx < 10 {
				k = append(k, ce)
			}
		}
		out = k
	}
	return out
}

func expectSample(d *ref.Dist, ce cell) int {
	if ce.coin <= d.Prob[ce.idx] {
		return d.Min + d.Values[ce.idx]
	}
	return d.Min + d.Values[d.Alias[ce.idx]]
}

func inInts(xs []int, v int) bool {
	for _, x := range xs {
		if x == v {
			return true
		}
	}
	return false
}

func runShape(c *mc.Ctx, sh shape, br *o4h.Bridge, seed int64, quick bool) {
	stream := rnd.New(seed, "c09-"+sh.name())
	rnd.Install(stream)
	refRnd := rnd.New(seed, "c09-ref-"+sh.name())
	o4h.SetBias(sh.bias)
	lenD := ref.NewDist(br.Seed, 0, 1448, sh.bias)
	cw, sw := wire.Pipe("client", "server")
	var realErr, refErr error
	var rs *o4h.RefSession
	nWrites := 0
	governed := !(sh.role == "client" && sh.phase == "before-seed")
	var realWire *wire.Conn
	if sh.role == "server" {
		realWire = sw
	} else {
		realWire = cw
	}
	var sentPayload int
	warm := 0
	finished := false
	var recs []wrec
	var wantPayload []byte
	res := sched.Run(c, sched.Options{NoPreempt: true, MaxSteps: 20_000_000}, func() {
		s := sched.Cur()
		var conn net.Conn
		if sh.role == "server" {
			sf, err := br.ServerFactory()
			if err != nil {
				realErr = err
				return
			}
			s.Spawn("ref-client", func() {
				rs, _, refErr = o4h.RefClient(cw, br.ID.Pub[:], br.ID.NodeID[:], o4h.ClientOpts{PadLen: 100}, refRnd)
				if refErr != nil {
					cw.Close()
					return
				}
				for {
					if _, err := rs.RecvOnce(); err != nil {
						break
					}
				}
			})
			conn, realErr = sf.WrapConn(sw)
		} else {
			s.Spawn("ref-server", func() {
				rs, refErr = o4h.RefServer(sw, br.ID, o4h.ServerOpts{PadLen: 10, LenSeed: br.Seed, SeparateSeed: false}, refRnd)
				if refErr != nil {
					sw.Close()
					return
				}
				if sh.phase == "after-seed" {
					// answer the client's warm-up byte, so that this data
					// is never coalesced with the handshake response
					// (that case belongs to C01)
					if err := rs.RecvUntil(1); err != nil {
						refErr = err
						return
					}
					rs.Send([]byte{0x42}, 0)
				}
				for {
					if _, err := rs.RecvOnce(); err != nil {
						break
					}
				}
			})
			conn, realErr = o4h.Dial(br.ClientArgs("cert", nil), cw)
			if realErr == nil && sh.phase == "after-seed" {
				if _, err := conn.Write([]byte{0x41}); err != nil {
					realErr = err
					return
				}
				warm = 1
				b := make([]byte, 8)
				n, err := conn.Read(b)
				if err != nil || n != 1 || b[0] != 0x42 {
					realErr = fmt.Errorf("client Read of the first server byte: n=%d err=%v", n, err)
				}
			}
		}
		if realErr != nil {
			return
		}
		lenVals, iatVals, ok := obfs4.VerifDists(conn)
		if !ok {
			realErr = fmt.Errorf("not an obfs4 connection")
			return
		}
		if governed {
			// the governing table is the bridge's, recomputed by the reference
			if fmt.Sprint(lenVals) != fmt.Sprint(lenD.Abs()) {
				fail(c, "seed-adoption", "shape/table/"+sh.role, "%s length table %v differs from the reference table of the bridge seed %v", sh.role, lenVals, lenD.Abs())
				return
			}
		}
		var cells []cell
		if governed {
			cells = cellsOf(lenD, quick)
		} else {
			for i := range lenVals {
				cells = append(cells, cell{i, 0})
			}
		}
		for _, ce := range cells {
			size := sh.size
			if sh.size < 0 {
				// "near target": the framed write ends k = -size bytes short
				// of the value this cell samples, so the needed padding is
				// smaller than (or equal to) a frame header
				var T0 int
				if governed {
					T0 = expectSample(lenD, ce)
				} else {
					T0 = lenVals[ce.idx]
				}
				size = T0 - 21 + sh.size
				if size < 1 {
					continue
				}
			}
			data := o4h.Pattern('D', 0, size)
			stream.Script = rnd.ScriptSample(ce.idx, ce.coin)
			w0 := len(realWire.Out.Writes)
			t0 := s.Now()
			var k int
			var werr error
			func() {
				defer func() {
					if r := recover(); r != nil {
						werr = fmt.Errorf("panic: %v", r)
						msg := fmt.Sprint(r)
						key := "shape/write-panic"
						if msg == "BUG: Write(), iat length was 0" {
							key = "shape/write-panic/iat-len-0"
						}
						fail(c, "no-panic", key, "%s Write(%d bytes) iat-mode=%d panicked: %v (first scripted sample cell idx=%d coin=%v)", sh.role, size, sh.iat, r, ce.idx, ce.coin)
					}
				}()
				k, werr = conn.Write(data)
			}()
			if werr != nil {
				realErr = werr
				return
			}
			nWrites++
			sentPayload += size
			wantPayload = append(wantPayload, data...)
			if k != size {
				fail(c, "write-result", "shape/write-result", "Write(%d) returned %d", size, k)
			}
			ws := realWire.Out.Writes[w0:]
			var T int
			if governed {
				T = expectSample(lenD, ce)
			} else {
				T = lenVals[ce.idx]
			}
			shc := sh
			shc.size = size
			recs = append(recs, wrec{shc, append([]wire.WriteRec{}, ws...), T, append([]int{}, lenVals...), append([]int{}, iatVals...)})
			_ = t0
		}
		conn.Close()
		finished = true
	})
	if len(res.Panics) > 0 {
		fail(c, "no-panic", "shape/panic", "%s", res.Panics[0])
		return
	}
	if !finished && !c.Failed() && realErr == nil && refErr == nil {
		fail(c, "terminates", "shape/stuck", "the real %s never returned from a call: %+v", sh.role, res.Blocked)
		return
	}
	if c.Failed() {
		return
	}
	// burst/shape rules, evaluated on what the reference peer decoded: the framed
	// (non-padding) part of every Write is the sum of the frames that carry
	// payload, whatever packet size the implementation chops into
	if realErr == nil && refErr == nil && rs != nil && len(realWire.Out.Writes) > 0 {
		base := int64(realWire.Out.Writes[0].N)
		if sh.role == "server" {
			base -= 45 // the inline seed frame is the first frame of the stream
		}
		for _, r := range recs {
			if len(r.ws) == 0 {
				// nothing to send (an empty Write in an IAT mode); iat-mode 0 still
				// pads a burst and is held to "exactly one wire write" below
				if r.sh.iat == 0 {
					checkWrites(c, r.sh, r.ws, r.T, r.lenVals, r.iatVals, 0)
				}
				continue
			}
			lo := r.ws[0].Off - base
			hi := r.ws[len(r.ws)-1].Off + int64(r.ws[len(r.ws)-1].N) - base
			framed := 0
			for i, f := range rs.Frames {
				if int64(f.Off) >= lo && int64(f.Off) < hi && i < len(rs.Packets) && len(rs.Packets[i].Payload) > 0 {
					framed += f.Len
				}
			}
			checkWrites(c, r.sh, r.ws, r.T, r.lenVals, r.iatVals, framed)
			if c.Failed() {
				break
			}
		}
	}
	c.Observe("shape", fmt.Sprintf("writes=%d wire=%d realErr=%v refErr=%v", nWrites, len(realWire.Out.Writes), realErr, refErr))
	if realErr != nil || refErr != nil {
		fail(c, "session", "shape/session", "session failed: real=%v ref=%v", realErr, refErr)
		return
	}
	if res.Livelock {
		fail(c, "terminates", "shape/livelock", "Write did not terminate")
		return
	}
	if rs.RxErr != nil {
		fail(c, "frames", "shape/frames", "reference decoder rejected the shaped stream: %v", rs.RxErr)
	}
	want := wantPayload
	if warm == 1 {
		want = append([]byte{0x41}, want...)
	}
	if !bytes.Equal(rs.Payload, want) {
		fail(c, "stream", "shape/stream", "payload received by the reference peer differs (%d vs %d bytes)", len(rs.Payload), len(want))
	}
	for _, f := range rs.Frames {
		if f.Len > 1448 {
			fail(c, "frame-size", "shape/frame-size", "frame of %d bytes", f.Len)
		}
	}
	c.Count("shaped_writes", int64(nWrites))
}

type wrec struct {
	sh               shape
	ws               []wire.WriteRec
	T                int
	lenVals, iatVals []int
}

func checkWrites(c *mc.Ctx, sh shape, ws []wire.WriteRec, T int, lenVals, iatVals []int, framed int) {
	total := 0
	for _, w := range ws {
		total += w.N
	}
	mode := fmt.Sprintf("iat%d", sh.iat)
	burstRule := func() {
		need := ((T-framed)%1448 + 1448) % 1448
		extra := total - framed
		end := total % 1448
		ok := false
		switch {
		case need == 0:
			ok = extra == 0 || extra == 1448 // a target of 1448 is a full extra segment
		case need > 21:
			ok = extra == need
		default:
			ok = end == T%1448 || end == (T+21)%1448
		}
		if !ok || extra < 0 {
			fail(c, "burst-end", "shape/burst-end/"+mode, "%s Write(%d) with sampled target %d: %d framed bytes + %d padding = %d on the wire, burst ends at %d (mod 1448)", sh.role, sh.size, T, framed, extra, total, end)
		}
	}
	switch sh.iat {
	case 0:
		if len(ws) != 1 {
			fail(c, "one-write", "shape/one-write", "iat-mode 0: Write(%d) produced %d wire writes", sh.size, len(ws))
			return
		}
		burstRule()
	case 1:
		for i, w := range ws {
			if w.N > 1448 || (i < len(ws)-1 && w.N != 1448) || w.N == 0 {
				fail(c, "iat-chunk", "shape/iat1-chunk", "iat-mode 1: wire write %d of %d is %d bytes", i, len(ws), w.N)
			}
		}
		burstRule()
		checkDelays(c, ws, iatVals, mode)
	case 2:
		for i, w := range ws {
			// a sampled 0 cannot be a write size; it denotes a full segment
			// (as target 0 does for burst padding), so 1448 is legal exactly
			// when the table contains 0
			legal := w.N != 0 && (inInts(lenVals, w.N) || (w.N == 1448 && inInts(lenVals, 0)))
			if !legal {
				fail(c, "paranoid-length", "shape/iat2-length", "iat-mode 2: wire write %d is %d bytes, not a non-zero value of the length table %v", i, w.N, lenVals)
				return
			}
			if w.N > 1448 {
				fail(c, "iat-chunk", "shape/iat2-chunk", "iat-mode 2: wire write of %d bytes", w.N)
			}
		}
		if total < framed {
			fail(c, "paranoid-length", "shape/iat2-total", "iat-mode 2: %d bytes on the wire < %d framed", total, framed)
		}
		if T == 0 {
			T = 1448
		}
		if len(ws) > 0 && framed <= T && ((T-framed) == 0 || (T-framed) > 21) && ws[0].N != T {
			fail(c, "paranoid-length", "shape/iat2-first", "iat-mode 2: first wire write is %d bytes, scripted sample was %d", ws[0].N, T)
		}
		checkDelays(c, ws, iatVals, mode)
	}
}

func checkDelays(c *mc.Ctx, ws []wire.WriteRec, iatVals []int, mode string) {
	for i := 1; i < len(ws); i++ {
		d := ws[i].At.Sub(ws[i-1].At)
		if d%(100*time.Microsecond) != 0 || !inInts(iatVals, int(d/(100*time.Microsecond))) {
			fail(c, "iat-delay", "shape/iat-delay/"+mode, "delay between wire writes %d and %d is %v: not a value of the IAT table x 100us (%v)", i-1, i, d, iatVals)
			return
		}
	}
}

// findSeeds returns bridges (label indices) whose length table does / does not contain 0.
func findBridges(seed int64, bias bool, iat int) (withZero, without *o4h.Bridge, wzNo, woNo int) {
	for i := 0; i < 4000 && (withZero == nil || without == nil); i++ {
		b := o4h.NewBridge(seed, fmt.Sprint("c09/", i), iat, bias)
		d := ref.NewDist(b.Seed, 0, 1448, bias)
		if d.Contains(0) {
			if withZero == nil && len(d.Values) > 1 {
				withZero, wzNo = b, i
			}
		} else if without == nil {
			without, woNo = b, i
		}
	}
	return
}

func main() {
	mc.Main("C09", func(cfg *mc.Config, emit func(mc.Scenario)) {
		for lo := 0; lo < 1448; lo += 91 {
			hi := lo + 91
			if hi > 1448 {
				hi = 1448
			}
			emit(padScenario(lo, hi))
		}
		// negative sizes are "near target" writes: framed length = sampled value - k
		sizes := []int{0, 1, 20, 21, 22, 1427, 1428, 5000, 20000, -1, -21, -22}
		quick := !cfg.Thorough()
		for _, bias := range []bool{false, true} {
			for iat := 0; iat <= 2; iat++ {
				wz, wo, wzNo, woNo := findBridges(cfg.Seed, bias, iat)
				type bsel struct {
					b  *o4h.Bridge
					no int
				}
				bs := []bsel{{wz, wzNo}, {wo, woNo}}
				if cfg.Thorough() {
					bs = append(bs, bsel{o4h.NewBridge(cfg.Seed, "c09/x1", iat, bias), 9001}, bsel{o4h.NewBridge(cfg.Seed, "c09/x2", iat, bias), 9002})
				}
				for _, b := range bs {
					if b.b == nil {
						continue
					}
					for _, size := range sizes {
						for _, role := range []string{"server", "client"} {
							phases := []string{""}
							if role == "client" {
								phases = []string{"before-seed", "after-seed"}
							}
							for _, ph := range phases {
								sh := shape{role, b.no, iat, bias, size, ph}
								br := b.b
								w := 1 + size/2000
								if size < 0 {
									w = 2
								}
								if iat == 2 {
									w *= 4
								}
								emit(mc.Scenario{Name: sh.name(), Params: map[string]any{"shape": sh.name()}, Weight: w,
									Run: func(c *mc.Ctx) { runShape(c, sh, br, cfg.Seed, quick) }})
							}
						}
					}
				}
			}
		}
	})
}
