//go:build verif

// C06: the obfs4 wire format stays interoperable with the deployed protocol.
package main

import (
	"bytes"
	"fmt"
	"io"
	"net"

	"gitlab.com/yawning/obfs4.git/internal/zzverif/mc"
	"gitlab.com/yawning/obfs4.git/internal/zzverif/o4h"
	"gitlab.com/yawning/obfs4.git/internal/zzverif/ref"
	"gitlab.com/yawning/obfs4.git/internal/zzverif/rnd"
	"gitlab.com/yawning/obfs4.git/internal/zzverif/sched"
	"gitlab.com/yawning/obfs4.git/internal/zzverif/wire"
)

type script struct {
	name string
	c, s []int
}

var scripts = []script{
	{"tiny", []int{1}, []int{1}},
	{"edges", []int{1427, 1428}, []int{2855, 0, 1}},
	{"bulk", []int{4000, 0, 1}, []int{1428, 4000}},
}

func total(xs []int) int {
	t := 0
	for _, x := range xs {
		t += x
	}
	return t
}

func concat(tag byte, xs []int) []byte {
	return o4h.Pattern(tag, 0, total(xs))
}

type tuple struct {
	idIdx, seedIdx, iat int
	bias                bool
	format              string
	sc                  script
	pad                 int
	role                string // "real-client" or "real-server"
	hourDelta           int64  // reference client only: its clock is this many hours off
	realPad             string // "", "min", "max": script the real side's own padding draw
	dribble             bool   // the real side receives the stream one byte per read
}

func (t tuple) name() string {
	return fmt.Sprintf("%s/id%d/seed%d/iat%d/bias=%v/%s/%s/pad=%d/hour%+d/realpad=%s", t.role, t.idIdx, t.seedIdx, t.iat, t.bias, t.format, t.sc.name, t.pad, t.hourDelta, t.realPad) + map[bool]string{false: "", true: "/dribble"}[t.dribble]
}

func fail(c *mc.Ctx, oracle, key, format string, a ...any) {
	c.Fail(oracle, "C06/"+key, format, a...)
}

// refPads: padding the reference adds to the last packet of each of its writes.
var refPads = []int{0, 1, 21, 300, 1427}

// realClientVsRefServer: the real client (public API) talks to the reference server.
func realClientVsRefServer(c *mc.Ctx, t tuple, seed int64) {
	br := o4h.NewBridge(seed, fmt.Sprint(t.idIdx, "/", t.seedIdx), t.iat, t.bias)
	o4h.SetBias(t.bias)
	realStream := rnd.New(seed, "c06-real-"+t.name())
	rnd.Install(realStream)
	switch t.realPad {
	case "min":
		realStream.Script8 = [][]byte{rnd.ScriptIntn(0)}
	case "max":
		realStream.Script8 = [][]byte{rnd.ScriptIntn(8128 - 77)}
	case "over":
		// one beyond the largest residue of the draw: wraps around to a legal
		// length in correct code, leaves the deployed range in an off-by-one one
		realStream.Script8 = [][]byte{rnd.ScriptIntn(8128 - 77 + 1)}
	}
	refRnd := rnd.New(seed, "c06-ref-"+t.name())
	cw, sw := wire.Pipe("client", "server")
	if t.dribble {
		cw.Chunker = wire.Dribble
	}
	var dialErr, srvErr error
	var got []byte
	var rs *o4h.RefSession
	var wrote []int
	expectRefuse := t.pad > 8192-96-32+32 // mark would lie beyond the 8192-byte window
	res := sched.Run(c, sched.Options{NoPreempt: true}, func() {
		s := sched.Cur()
		s.Spawn("ref-server", func() {
			rs, srvErr = o4h.RefServer(sw, br.ID, o4h.ServerOpts{PadLen: t.pad, LenSeed: br.Seed}, refRnd)
			if srvErr != nil {
				sw.Close()
				return
			}
			if err := rs.RecvUntil(total(t.sc.c)); err != nil {
				srvErr = fmt.Errorf("while receiving client payload: %w", err)
				sw.Close()
				return
			}
			off := 0
			for i, n := range t.sc.s {
				// the reference pads the packet that carries the end of each write
				// (payload and zero padding in one packet is part of the layout)
				if err := rs.Send(o4h.Pattern('S', off, n), refPads[(i+t.pad)%len(refPads)]); err != nil {
					srvErr = err
					return
				}
				off += n
			}
			// wait for the client to close
			for {
				if _, err := rs.RecvOnce(); err != nil {
					break
				}
			}
			sw.Close()
		})
		var conn net.Conn
		conn, dialErr = o4h.Dial(br.ClientArgs(t.format, nil), cw)
		if dialErr != nil {
			return
		}
		off := 0
		for _, n := range t.sc.c {
			k, err := wire.WriteOwned(conn, o4h.Pattern('C', off, n))
			wrote = append(wrote, k)
			if err != nil {
				dialErr = fmt.Errorf("Write: %w", err)
				return
			}
			off += n
		}
		buf := make([]byte, 3000)
		for len(got) < total(t.sc.s) {
			n, err := conn.Read(buf)
			got = append(got, buf[:n]...)
			if err != nil {
				dialErr = fmt.Errorf("Read: %w", err)
				break
			}
		}
		conn.Close()
	})
	if len(res.Panics) > 0 {
		fail(c, "panic", "panic", "%s", res.Panics[0])
		return
	}
	hello := cw.Out.Writes
	if rs != nil && rs.HandshakeLen > 0 && len(hello) > 0 {
		// the handshake as the reference server parsed it from the stream, not
		// "the first write" (how the client splits it into writes is its business)
		hello = []wire.WriteRec{{N: rs.HandshakeLen}}
	}
	c.Observe("outcome", fmt.Sprintf("dialErr=%v srvErr=%v got=%d hello=%v quiescent=%v", dialErr != nil, srvErr != nil, len(got), len(hello) > 0 && hello[0].N >= 141, res.Quiescent))
	if len(hello) == 0 {
		fail(c, "handshake", "client/no-handshake", "the real client wrote nothing")
		return
	}
	if hello[0].N < 141 || hello[0].N > 8192 {
		fail(c, "handshake-length", "client/hello-length", "client handshake is %d bytes, deployed range is [141, 8192]", hello[0].N)
	}
	if t.realPad == "min" && hello[0].N == 141 || t.realPad == "max" && hello[0].N == 8192 {
		// the scripted draw reached the extreme of the deployed range (how entropy
		// becomes a length is not judged; the range is, above)
		c.Count("client_handshake_length_extremes_reached", 1)
	}
	if expectRefuse {
		if dialErr == nil {
			fail(c, "handshake-length", "client/accepts-oversize-response", "server padding %d puts the mark beyond 8192 bytes, yet Dial succeeded", t.pad)
		}
		return
	}
	if srvErr != nil {
		fail(c, "interop", "client/ref-server-rejects", "the reference server could not follow the real client: %v (client error: %v)", srvErr, dialErr)
		return
	}
	if dialErr != nil {
		fail(c, "interop", "client/real-client-fails", "the real client failed against the reference server: %v", dialErr)
		return
	}
	if res.Quiescent || res.Livelock {
		fail(c, "interop", "client/stuck", "exchange did not complete: %+v", res.Blocked)
		return
	}
	for i, k := range wrote {
		if k != t.sc.c[i] {
			fail(c, "write-result", "client/write-result", "Write(%d bytes) returned %d", t.sc.c[i], k)
		}
	}
	if !bytes.Equal(got, concat('S', t.sc.s)) {
		fail(c, "stream", "client/stream-s2c", "bytes read by the real client differ from what the reference server sent (%d vs %d)", len(got), total(t.sc.s))
	}
	if !bytes.Equal(rs.Payload, concat('C', t.sc.c)) {
		fail(c, "stream", "client/stream-c2s", "payload decoded by the reference server differs from what the real client wrote (%d vs %d)", len(rs.Payload), total(t.sc.c))
	}
	checkFrames(c, "client", rs)
}

// checkFrames: every frame the real side emitted was re-derived by the
// reference decoder (mask, nonce counter from 1, box, packet layout); here the
// remaining size rules.
func checkFrames(c *mc.Ctx, who string, rs *o4h.RefSession) {
	if rs.RxErr != nil && rs.RxErr != io.EOF {
		fail(c, "frame-format", who+"/frame-format", "reference decoder rejected the real %s's frames: %v", who, rs.RxErr)
	}
	for _, f := range rs.Frames {
		if f.Len > ref.MaxSegment {
			fail(c, "frame-format", who+"/frame-too-long", "frame of %d bytes > 1448", f.Len)
		}
	}
	for _, p := range rs.Packets {
		if p.Type != ref.PktPayload && p.Type != ref.PktSeed {
			fail(c, "frame-format", who+"/packet-type", "unexpected packet type %d", p.Type)
		}
	}
	c.Count("frames_rederived", int64(len(rs.Frames)))
}

// refClientVsRealServer: the reference client talks to the real server (public API).
func refClientVsRealServer(c *mc.Ctx, t tuple, seed int64) {
	br := o4h.NewBridge(seed, fmt.Sprint(t.idIdx, "/", t.seedIdx), t.iat, t.bias)
	realStream := rnd.New(seed, "c06-real-"+t.name())
	rnd.Install(realStream)
	refRnd := rnd.New(seed, "c06-ref-"+t.name())
	sf, err := br.ServerFactory()
	if err != nil {
		fail(c, "setup", "server/factory", "ServerFactory: %v", err)
		return
	}
	// the advertised arguments must carry the independently computed cert
	if cert, _ := sf.Args().Get("cert"); cert != br.Cert() {
		fail(c, "bridge-line", "server/cert", "advertised cert %q, reference %q", cert, br.Cert())
	}
	cw, sw := wire.Pipe("client", "server")
	if t.dribble {
		sw.Chunker = wire.Dribble
	}
	var wrapErr, cliErr error
	var got []byte
	var rs *o4h.RefSession
	var wrote []int
	expectRefuse := t.pad < 77 || t.pad > 8128
	res := sched.Run(c, sched.Options{NoPreempt: true}, func() {
		s := sched.Cur()
		s.Spawn("ref-client", func() {
			rs, _, cliErr = o4h.RefClient(cw, br.ID.Pub[:], br.ID.NodeID[:], o4h.ClientOpts{PadLen: t.pad, HourDelta: t.hourDelta}, refRnd)
			if cliErr != nil {
				cw.Close()
				return
			}
			off := 0
			for i, n := range t.sc.c {
				if err := rs.Send(o4h.Pattern('C', off, n), refPads[(i+t.pad)%len(refPads)]); err != nil {
					cliErr = err
					return
				}
				off += n
			}
			if err := rs.RecvUntil(total(t.sc.s)); err != nil {
				cliErr = fmt.Errorf("while receiving server payload: %w", err)
			}
			// the real server closes when it has written everything
			// (IAT modes keep writing padding after the last payload byte)
			for cliErr == nil {
				if _, err := rs.RecvOnce(); err != nil {
					if err != io.EOF {
						cliErr = fmt.Errorf("after the payload: %w", err)
					}
					break
				}
			}
			cw.Close()
		})
		var conn net.Conn
		switch t.realPad {
		case "min":
			realStream.Script8 = [][]byte{rnd.ScriptIntn(0)}
		case "max":
			realStream.Script8 = [][]byte{rnd.ScriptIntn(8051)}
		case "over":
			realStream.Script8 = [][]byte{rnd.ScriptIntn(8052)}
		}
		conn, wrapErr = sf.WrapConn(sw)
		if wrapErr != nil {
			return
		}
		buf := make([]byte, 3000)
		for len(got) < total(t.sc.c) {
			n, err := conn.Read(buf)
			got = append(got, buf[:n]...)
			if err != nil {
				wrapErr = fmt.Errorf("Read: %w", err)
				return
			}
		}
		off := 0
		for _, n := range t.sc.s {
			k, err := wire.WriteOwned(conn, o4h.Pattern('S', off, n))
			wrote = append(wrote, k)
			if err != nil {
				wrapErr = fmt.Errorf("Write: %w", err)
				return
			}
			off += n
		}
		conn.Close()
	})
	if len(res.Panics) > 0 {
		fail(c, "panic", "panic", "%s", res.Panics[0])
		return
	}
	c.Observe("outcome", fmt.Sprintf("wrapErr=%v cliErr=%v got=%d", wrapErr != nil, cliErr != nil, len(got)))
	if expectRefuse {
		if wrapErr == nil {
			fail(c, "handshake-length", "server/accepts-out-of-range-pad", "client padding %d is outside 77..8128, yet WrapConn succeeded", t.pad)
		}
		if sw.Out.Total != 0 {
			fail(c, "handshake-length", "server/answers-out-of-range-pad", "server wrote %d bytes to a client with padding %d", sw.Out.Total, t.pad)
		}
		return
	}
	if wrapErr != nil {
		fail(c, "interop", "server/real-server-fails", "the real server failed against the reference client: %v (client: %v)", wrapErr, cliErr)
		return
	}
	if cliErr != nil {
		fail(c, "interop", "server/ref-client-rejects", "the reference client could not follow the real server: %v", cliErr)
		return
	}
	if res.Quiescent || res.Livelock {
		fail(c, "interop", "server/stuck", "exchange did not complete: %+v", res.Blocked)
		return
	}
	// first write of the server = response + inline seed frame, <= 8192
	// response + seed frame as parsed from the stream (however the server splits
	// them into writes): the first frame behind MAC_S starts at offset 0 (above)
	w0 := rs.HandshakeLen + ref.SeedFrameLen
	if rs.HandshakeLen == 0 {
		w0 = sw.Out.Writes[0].N
	}
	if w0 > 8192 {
		fail(c, "handshake-length", "server/response-length", "response + seed frame is %d bytes > 8192", w0)
	}
	if t.realPad == "min" && w0 == 96+45 || t.realPad == "max" && w0 == 8192 {
		c.Count("server_response_length_extremes_reached", 1)
	}
	if len(rs.Frames) == 0 || len(rs.Packets) == 0 {
		fail(c, "seed-frame", "server/no-frames", "no frame behind the server response")
		return
	}
	f0, p0 := rs.Frames[0], rs.Packets[0]
	if p0.Type != ref.PktSeed || !bytes.Equal(p0.Payload, br.Seed) || p0.Pad != 0 || f0.Len != ref.SeedFrameLen || f0.Off != 0 {
		fail(c, "seed-frame", "server/seed-frame", "first frame behind MAC_S must be the unpadded 45-byte PRNG seed frame carrying the bridge seed; got type=%d len=%d pad=%d off=%d seed-ok=%v", p0.Type, f0.Len, p0.Pad, f0.Off, bytes.Equal(p0.Payload, br.Seed))
	}
	// the response ends where the seed frame begins, all within the first write
	respLen := w0 - ref.SeedFrameLen
	if respLen < ref.ServerMinHS || respLen > 8192-ref.SeedFrameLen {
		fail(c, "handshake-length", "server/response-split", "first server write is %d bytes: not response(96..8147) + 45-byte seed frame", w0)
	}
	for i, k := range wrote {
		if k != t.sc.s[i] {
			fail(c, "write-result", "server/write-result", "Write(%d bytes) returned %d", t.sc.s[i], k)
		}
	}
	if !bytes.Equal(got, concat('C', t.sc.c)) {
		fail(c, "stream", "server/stream-c2s", "bytes read by the real server differ from what the reference client sent (%d vs %d)", len(got), total(t.sc.c))
	}
	if !bytes.Equal(rs.Payload, concat('S', t.sc.s)) {
		fail(c, "stream", "server/stream-s2c", "payload decoded by the reference client differs from what the real server wrote (%d vs %d)", len(rs.Payload), total(t.sc.s))
	}
	checkFrames(c, "server", rs)
}

// sameParsedArgs: one parsed bridge line (either format) passed to Dial several
// times, as base.ClientFactory allows; every dial interoperates with the
// reference server (handshake accepted by it, data both ways).
func sameParsedArgs(format string, iat int, seed int64) mc.Scenario {
	return mc.Scenario{Name: fmt.Sprintf("same-parsed-args/%s/iat%d", format, iat), Run: func(c *mc.Ctx) {
		br := o4h.NewBridge(seed, "c06-spa", iat, false)
		o4h.SetBias(false)
		rnd.Install(rnd.New(seed, "c06-real-spa-"+format))
		var sum []string
		res := sched.Run(c, sched.Options{NoPreempt: true, MaxSteps: 2_000_000}, func() {
			s := sched.Cur()
			pa, err := o4h.ParseArgs(br.ClientArgs(format, nil))
			if err != nil {
				fail(c, "setup", "setup", "%v", err)
				return
			}
			for k := 0; k < 3; k++ {
				cw, sw := wire.Pipe(fmt.Sprint("client", k), fmt.Sprint("server", k))
				refRnd := rnd.New(seed, fmt.Sprint("c06-ref-spa-", format, k))
				var rs *o4h.RefSession
				var srvErr error
				done := false
				up, down := o4h.Pattern('C', k*100, 700), o4h.Pattern('S', k*100, 900)
				s.Spawn(fmt.Sprint("ref-server", k), func() {
					defer func() { done = true }()
					rs, srvErr = o4h.RefServer(sw, br.ID, o4h.ServerOpts{PadLen: 30 + k, LenSeed: br.Seed}, refRnd)
					if srvErr != nil {
						sw.Close()
						return
					}
					if srvErr = rs.RecvUntil(len(up)); srvErr != nil {
						sw.Close()
						return
					}
					srvErr = rs.Send(down, 7)
					for {
						if _, err := rs.RecvOnce(); err != nil {
							break
						}
					}
					sw.Close()
				})
				conn, dialErr := o4h.DialParsed(pa, cw)
				var got []byte
				var ioErr error
				if dialErr == nil {
					if _, ioErr = wire.WriteOwned(conn, up); ioErr == nil {
						buf := make([]byte, 4096)
						for len(got) < len(down) {
							n, err := conn.Read(buf)
							got = append(got, buf[:n]...)
							if err != nil {
								ioErr = err
								break
							}
						}
					}
					conn.Close()
				} else {
					cw.Close()
				}
				s.Point(fmt.Sprint("ref-done", k), func() bool { return done })
				sum = append(sum, fmt.Sprintf("%v/%v/%v/%d", dialErr, srvErr, ioErr, len(got)))
				switch {
				case dialErr != nil || srvErr != nil:
					fail(c, "interop", "same-parsed-args/handshake", "dial %d with one parsed %s bridge line: Dial=%v reference server=%v", k+1, format, dialErr, srvErr)
				case ioErr != nil || !bytes.Equal(got, down) || !bytes.Equal(rs.Payload, up):
					fail(c, "interop", "same-parsed-args/stream", "dial %d with one parsed %s bridge line: client read %d/%d bytes (%v), reference server decoded %d/%d", k+1, format, len(got), len(down), ioErr, len(rs.Payload), len(up))
				}
				if c.Failed() {
					return
				}
			}
		})
		if len(res.Panics) > 0 {
			fail(c, "no-panic", "same-parsed-args/panic", "%s", res.Panics[0])
		}
		c.Observe("dials", fmt.Sprint(sum))
	}}
}

func main() {
	mc.Main("C06", func(cfg *mc.Config, emit func(mc.Scenario)) {
		for _, format := range []string{"cert", "legacy"} {
			for iat := 0; iat <= 2; iat++ {
				emit(sameParsedArgs(format, iat, cfg.Seed))
			}
		}
		K := 3
		if cfg.Thorough() {
			K = 10 // 10 identities x 11 bridge seeds
		}
		cpads := []int{76, 77, 78, 4000, 8127, 8128, 8129}
		spads := []int{0, 1, 4000, 8050, 8051, 8096, 8097}
		add := func(t tuple) {
			t2 := t
			emit(mc.Scenario{Name: t.name(), Params: map[string]any{"tuple": t.name()}, Run: func(c *mc.Ctx) {
				if t2.role == "real-client" {
					realClientVsRefServer(c, t2, cfg.Seed)
				} else {
					refClientVsRealServer(c, t2, cfg.Seed)
				}
			}})
		}
		for id := 0; id < K; id++ {
			for sd := 0; sd < K+1; sd++ {
				for iat := 0; iat <= 2; iat++ {
					for _, bias := range []bool{false, true} {
						for _, format := range []string{"cert", "legacy"} {
							for _, sc := range scripts {
								for _, p := range spads {
									add(tuple{id, sd, iat, bias, format, sc, p, "real-client", 0, "", false})
								}
								for _, rp := range []string{"min", "max", "over"} {
									add(tuple{id, sd, iat, bias, format, sc, 7, "real-client", 0, rp, false})
								}
								if id == 0 && sc.name != "bulk" {
									add(tuple{id, sd, iat, bias, format, sc, 7, "real-client", 0, "", true})
								}
								if format == "cert" { // the format only concerns the client side
									for _, p := range cpads {
										add(tuple{id, sd, iat, bias, format, sc, p, "real-server", 0, "", false})
									}
									for _, hd := range []int64{-1, 1} {
										add(tuple{id, sd, iat, bias, format, sc, 100, "real-server", hd, "", false})
									}
									for _, rp := range []string{"min", "max", "over"} {
										add(tuple{id, sd, iat, bias, format, sc, 100, "real-server", 0, rp, false})
									}
									if id == 0 && sc.name != "bulk" {
										add(tuple{id, sd, iat, bias, format, sc, 100, "real-server", 0, "", true})
									}
								}
							}
						}
					}
				}
			}
		}
		if cfg.Thorough() {
			// every padding length, both roles, on a fixed configuration per IAT mode
			seen := map[string]bool{}
			for iat := 0; iat <= 2; iat++ {
				for p := 0; p <= 8097; p++ {
					t := tuple{0, 0, iat, false, "cert", scripts[0], p, "real-client", 0, "", false}
					if !seen[t.name()] {
						seen[t.name()] = true
					}
				}
			}
			for iat := 0; iat <= 2; iat++ {
				for p := 0; p <= 8097; p++ {
					if !contains(spads, p) {
						add(tuple{0, 0, iat, false, "cert", scripts[0], p, "real-client", 0, "", false})
					}
				}
				for p := 76; p <= 8129; p++ {
					if !contains(cpads, p) {
						add(tuple{0, 0, iat, false, "cert", scripts[0], p, "real-server", 0, "", false})
					}
				}
			}
		}
	})
}

func contains(xs []int, v int) bool {
	for _, x := range xs {
		if x == v {
			return true
		}
	}
	return false
}
