//go:build verif

// C08: ntor: both sides agree, the transcript is bound, degenerate keys are refused.
package main

import (
	"bytes"
	"encoding/hex"
	"fmt"
	"math/big"
	"sync"

	"gitlab.com/yawning/obfs4.git/common/ntor"
	"gitlab.com/yawning/obfs4.git/internal/zzverif/mc"
	"gitlab.com/yawning/obfs4.git/internal/zzverif/ref"
	"gitlab.com/yawning/obfs4.git/internal/zzverif/rnd"
	"gitlab.com/yawning/obfs4.git/internal/zzverif/sched"
)

func fail(c *mc.Ctx, oracle, key, format string, a ...any) {
	c.Fail(oracle, "C08/"+key, format, a...)
}

// recycled: the constructors are given a scratch buffer that the caller
// overwrites as soon as they return (a receive buffer, a decoded bridge line).
func recycled(b []byte, use func(scratch []byte)) {
	q := make([]byte, len(b), len(b)+16)
	copy(q, b)
	use(q)
	q = q[:cap(q)]
	for i := range q {
		q[i] = 0xEE
	}
}

func pub(b []byte) (p *ntor.PublicKey) {
	recycled(b, func(q []byte) {
		var err error
		if p, err = ntor.NewPublicKey(q); err != nil {
			panic(err)
		}
	})
	return p
}

func nid(b []byte) (n *ntor.NodeID) {
	recycled(b, func(q []byte) {
		var err error
		if n, err = ntor.NewNodeID(q); err != nil {
			panic(err)
		}
	})
	return n
}

func kpHex(priv []byte) *ntor.Keypair {
	k, err := ntor.KeypairFromHex(hex.EncodeToString(priv))
	if err != nil {
		panic(err)
	}
	return k
}

type tuple struct {
	id         *ntor.Keypair // identity b,B
	node       []byte
	x, y       *ntor.Keypair
	xElligator bool
}

func refOutputs(t tuple) (ks, auth []byte, okC, okS bool) {
	B := t.id.Public().Bytes()[:]
	X := t.x.Public().Bytes()[:]
	Y := t.y.Public().Bytes()[:]
	okC, ks, auth = ref.NtorClient(t.x.Private().Bytes()[:], X, Y, B, t.node)
	okS, ks2, auth2 := ref.NtorServer(X, t.y.Private().Bytes()[:], Y, t.id.Private().Bytes()[:], B, t.node)
	if !bytes.Equal(ks, ks2) || !bytes.Equal(auth, auth2) {
		panic("reference client and server disagree")
	}
	return
}

func agree(c *mc.Ctx, t tuple, what string) (ks, auth []byte, ok bool) {
	okC, ksC, authC := ntor.ClientHandshake(t.x, t.y.Public(), t.id.Public(), nid(t.node))
	okS, ksS, authS := ntor.ServerHandshake(t.x.Public(), t.y, t.id, nid(t.node))
	rks, rauth, rokC, rokS := refOutputs(t)
	c.Case(what, fmt.Sprintf("%v %v %x", okC, okS, rks[:4]))
	if okC != rokC || okS != rokS {
		fail(c, "status", "status", "%s: status client=%v server=%v, reference client=%v server=%v", what, okC, okS, rokC, rokS)
		return nil, nil, false
	}
	if !okC || !okS {
		return nil, nil, false
	}
	if !bytes.Equal(ksC.Bytes()[:], ksS.Bytes()[:]) || !bytes.Equal(authC.Bytes()[:], authS.Bytes()[:]) {
		fail(c, "agreement", "agreement", "%s: client and server outputs differ", what)
		return nil, nil, false
	}
	if !bytes.Equal(ksC.Bytes()[:], rks) || !bytes.Equal(authC.Bytes()[:], rauth) {
		fail(c, "reference", "reference", "%s: KEY_SEED/AUTH differ from the independent computation of the deployed ntor variant", what)
		return nil, nil, false
	}
	if !ntor.CompareAuth(authC, authS.Bytes()[:]) {
		fail(c, "compare-auth", "compare-auth/equal", "%s: CompareAuth is false on equal values", what)
	}
	return ksC.Bytes()[:], authC.Bytes()[:], true
}

func elligatorKeypair(seed int64, label string) *ntor.Keypair {
	rnd.Install(rnd.New(seed, "c08-kp-"+label))
	k, err := ntor.NewKeypair(true)
	if err != nil {
		panic(err)
	}
	return k
}

func scenarios(cfg *mc.Config, emit func(mc.Scenario)) {
	seed := cfg.Seed
	K := 3
	if cfg.Thorough() {
		K = 8
	}
	nodes := [][]byte{make([]byte, 20), bytes.Repeat([]byte{0xff}, 20)}
	for i := 0; i < K; i++ {
		nodes = append(nodes, rnd.New(seed, fmt.Sprint("c08-node-", i)).Bytes(20))
	}
	mk := func(i, j, k int, ell bool) tuple {
		id := kpHex(rnd.New(seed, fmt.Sprint("c08-id-", i)).Bytes(32))
		var x, y *ntor.Keypair
		if ell {
			x = elligatorKeypair(seed, fmt.Sprint("x", j))
			y = elligatorKeypair(seed, fmt.Sprint("y", k))
		} else {
			x = kpHex(rnd.New(seed, fmt.Sprint("c08-x-", j)).Bytes(32))
			y = kpHex(rnd.New(seed, fmt.Sprint("c08-y-", k)).Bytes(32))
		}
		return tuple{id: id, x: x, y: y, xElligator: ell}
	}
	// agreement over the product
	emit(mc.Scenario{Name: "agreement/product", Run: func(c *mc.Ctx) {
		n := 0
		outs := map[string]bool{}
		for i := 0; i < K; i++ {
			for ni, node := range nodes {
				for j := 0; j < K; j++ {
					for k := 0; k < K; k++ {
						for _, ell := range []bool{false, true} {
							t := mk(i, j, k, ell)
							t.node = node
							ks, auth, ok := agree(c, t, fmt.Sprintf("id%d node%d x%d y%d elligator=%v", i, ni, j, k, ell))
							if c.Failed() {
								return
							}
							if !ok {
								fail(c, "status", "status/honest", "honest tuple refused")
								return
							}
							outs[hex.EncodeToString(ks)+hex.EncodeToString(auth)] = true
							n++
						}
					}
				}
			}
		}
		c.Count("agreement_tuples", int64(n))
		c.Observe("distinct-outputs", len(outs))
		if len(outs) != n {
			fail(c, "binding", "binding/collision", "%d tuples produced only %d distinct outputs", n, len(outs))
		}
		c.AddExecutions(int64(n))
	}})
	// transcript binding: every single-bit change changes both outputs
	for _, ell := range []bool{false, true} {
		ell := ell
		emit(mc.Scenario{Name: fmt.Sprintf("binding/single-bit/elligator=%v", ell), Weight: 10, Run: func(c *mc.Ctx) {
			bases := 1
			if cfg.Thorough() {
				bases = K
			}
			n := 0
			for bi := 0; bi < bases; bi++ {
				t := mk(bi, bi, bi+1, ell)
				t.node = nodes[2+bi%K]
				ks0, auth0, ok := agree(c, t, "base tuple")
				if !ok {
					return
				}
				B := t.id.Public().Bytes()[:]
				X := t.x.Public().Bytes()[:]
				Y := t.y.Public().Bytes()[:]
				flip := func(b []byte, bit int) []byte {
					o := append([]byte{}, b...)
					o[bit/8] ^= 1 << uint(bit%8)
					return o
				}
				type variant struct {
					name          string
					node, b, x, y []byte
				}
				var vs []variant
				for bit := 0; bit < 160; bit++ {
					vs = append(vs, variant{fmt.Sprintf("node-id bit %d", bit), flip(t.node, bit), B, X, Y})
				}
				for bit := 0; bit < 256; bit++ {
					vs = append(vs, variant{fmt.Sprintf("B bit %d", bit), t.node, flip(B, bit), X, Y})
					vs = append(vs, variant{fmt.Sprintf("X bit %d", bit), t.node, B, flip(X, bit), Y})
					vs = append(vs, variant{fmt.Sprintf("Y bit %d", bit), t.node, B, X, flip(Y, bit)})
				}
				for _, v := range vs {
					// client view: it is the client that receives Y and is configured with B, node id
					okC, ksC, authC := ntor.ClientHandshake(t.x, pub(v.y), pub(v.b), nid(v.node))
					// server view: it receives X
					okS, ksS, authS := ntor.ServerHandshake(pub(v.x), t.y, t.id, nid(v.node))
					n++
					c.Case(v.name+fmt.Sprint(bi, ell), fmt.Sprint(okC, okS))
					changedC := !bytes.Equal(v.y, Y) || !bytes.Equal(v.b, B) || !bytes.Equal(v.node, t.node)
					changedS := !bytes.Equal(v.x, X) || !bytes.Equal(v.node, t.node)
					if changedC && okC && (bytes.Equal(ksC.Bytes()[:], ks0) || bytes.Equal(authC.Bytes()[:], auth0)) {
						fail(c, "binding", "binding/client", "client: changing %s left KEY_SEED or AUTH unchanged", v.name)
						return
					}
					if changedS && okS && (bytes.Equal(ksS.Bytes()[:], ks0) || bytes.Equal(authS.Bytes()[:], auth0)) {
						fail(c, "binding", "binding/server", "server: changing %s left KEY_SEED or AUTH unchanged", v.name)
						return
					}
					// and each side still equals the reference for the changed transcript
					if okC {
						_, rks, rauth := ref.NtorClient(t.x.Private().Bytes()[:], X, v.y, v.b, v.node)
						if !bytes.Equal(rks, ksC.Bytes()[:]) || !bytes.Equal(rauth, authC.Bytes()[:]) {
							fail(c, "reference", "reference/client-variant", "client with %s changed: output differs from the reference", v.name)
							return
						}
					}
					if okS {
						_, rks, rauth := ref.NtorServer(v.x, t.y.Private().Bytes()[:], Y, t.id.Private().Bytes()[:], B, v.node)
						if !bytes.Equal(rks, ksS.Bytes()[:]) || !bytes.Equal(rauth, authS.Bytes()[:]) {
							fail(c, "reference", "reference/server-variant", "server with %s changed: output differs from the reference", v.name)
							return
						}
					}
				}
				// CompareAuth: every single-bit difference is unequal; wrong lengths are unequal
				var a ntor.Auth
				copy(a[:], auth0)
				for bit := 0; bit < 256; bit++ {
					if ntor.CompareAuth(&a, flip(auth0, bit)) {
						fail(c, "compare-auth", "compare-auth/bit", "CompareAuth true although bit %d differs", bit)
						return
					}
				}
				if ntor.CompareAuth(&a, auth0[:31]) || ntor.CompareAuth(&a, append(append([]byte{}, auth0...), 0)) || !ntor.CompareAuth(&a, auth0) {
					fail(c, "compare-auth", "compare-auth/length", "CompareAuth wrong on truncated/extended/equal input")
				}
			}
			c.Count("binding_variants", int64(n))
			c.AddExecutions(int64(n))
			c.Observe("variants", n)
		}})
	}
	// degenerate keys in each position, honest ones elsewhere; plus histories
	emit(mc.Scenario{Name: "degenerate-keys", Weight: 5, Run: func(c *mc.Ctx) {
		var lows [][]byte
		for _, u := range ref.LowOrderU() {
			e := ref.ToLE(u)
			lows = append(lows, e)
			hi := append([]byte{}, e...)
			hi[31] |= 0x80
			lows = append(lows, hi)
		}
		n := 0
		for _, ell := range []bool{false, true} {
			t := mk(0, 0, 1, ell)
			t.node = nodes[2]
			honest := func(what string) {
				if _, _, ok := agree(c, t, what); !ok && !c.Failed() {
					fail(c, "status", "status/honest-after-refusal", "%s: honest handshake refused", what)
				}
			}
			honest("before any refusal")
			for li, lo := range lows {
				// the computing side must report failure
				okS, _, _ := ntor.ServerHandshake(pub(lo), t.y, t.id, nid(t.node))
				if okS {
					fail(c, "zero-check", "zero-check/server-X", "server accepted low-order client key #%d (%x)", li, lo)
				}
				honest(fmt.Sprintf("after the server refused X=#%d", li))
				okY, _, _ := ntor.ClientHandshake(t.x, pub(lo), t.id.Public(), nid(t.node))
				if okY {
					fail(c, "zero-check", "zero-check/client-Y", "client accepted low-order server key Y #%d (%x) with an honest B", li, lo)
				}
				honest(fmt.Sprintf("after the client refused Y=#%d", li))
				okB, _, _ := ntor.ClientHandshake(t.x, t.y.Public(), pub(lo), nid(t.node))
				if okB {
					fail(c, "zero-check", "zero-check/client-B", "client accepted low-order identity key B #%d (%x) with an honest Y", li, lo)
				}
				okYB, _, _ := ntor.ClientHandshake(t.x, pub(lo), pub(lo), nid(t.node))
				if okYB {
					fail(c, "zero-check", "zero-check/client-YB", "client accepted low-order Y=B #%d", li)
				}
				honest(fmt.Sprintf("after the client refused B=#%d", li))
				n += 4
				if c.Failed() {
					return
				}
			}
		}
		c.Count("degenerate_cases", int64(n))
		c.AddExecutions(int64(n))
		c.Observe("degenerate", n)
	}})
	// Kdf
	emit(mc.Scenario{Name: "kdf", Run: func(c *mc.Ctx) {
		lens := []int{0, 1, 31, 32, 33, 144, 145, 8160}
		for i := 0; i < K+2; i++ {
			ks := rnd.New(seed, fmt.Sprint("c08-ks-", i)).Bytes(32)
			if i == K {
				ks = make([]byte, 32)
			}
			if i == K+1 {
				ks = bytes.Repeat([]byte{0xff}, 32)
			}
			// (the reference works on its own copy of the seed: the same KEY_SEED
			// buffer is handed to Kdf again and again, as a caller deriving
			// several outputs from one handshake would)
			orig := append([]byte{}, ks...)
			var prev []byte
			for _, n := range lens {
				got := ntor.Kdf(ks, n)
				got2 := ntor.Kdf(ks, n)
				want := ref.Kdf(orig, n)
				if len(got) != n || !bytes.Equal(got, want) {
					fail(c, "kdf", "kdf/reference", "Kdf(seed %d, %d) differs from HKDF-SHA256(salt t_key, info m_expand)", i, n)
					return
				}
				if !bytes.Equal(got, got2) {
					fail(c, "kdf", "kdf/deterministic", "Kdf is not deterministic")
				}
				if !bytes.HasPrefix(got, prev) {
					fail(c, "kdf", "kdf/prefix", "Kdf(%d) is not an extension of the shorter output", n)
				}
				prev = got
			}
		}
		c.Observe("kdf", len(lens))
	}})
	// concurrent handshakes sharing an identity key under the controlled
	// scheduler: every interleaving of the statements of the handshake
	// functions with at most b preemptions
	for _, nthreads := range []int{2, 3} {
		nthreads := nthreads
		b := 2
		if cfg.Thorough() {
			b = 3
		}
		if nthreads == 3 {
			b--
		}
		emit(mc.Scenario{Name: fmt.Sprintf("concurrent-scheduled/%d-threads", nthreads), Bound: b, Weight: 50, Run: func(c *mc.Ctx) {
			t := mk(0, 0, 1, false)
			t.node = nodes[2]
			type exp struct {
				x, y     *ntor.Keypair
				ks, auth []byte
			}
			var exps []exp
			for g := 0; g < nthreads; g++ {
				tt := t
				tt.x = kpHex(rnd.New(seed, fmt.Sprint("c08-sx-", g)).Bytes(32))
				tt.y = kpHex(rnd.New(seed, fmt.Sprint("c08-sy-", g)).Bytes(32))
				ks, auth, _, _ := refOutputs(tt)
				exps = append(exps, exp{tt.x, tt.y, ks, auth})
			}
			bad := ""
			res := sched.Run(c, sched.Options{FreeSwitch: true}, func() {
				s := sched.Cur()
				for g := range exps {
					g := g
					s.Spawn(fmt.Sprintf("hs%d", g), func() {
						e := exps[g]
						var ok bool
						var ks *ntor.KeySeed
						var auth *ntor.Auth
						if g%2 == 0 {
							ok, ks, auth = ntor.ServerHandshake(e.x.Public(), e.y, t.id, nid(t.node))
						} else {
							ok, ks, auth = ntor.ClientHandshake(e.x, e.y.Public(), t.id.Public(), nid(t.node))
						}
						if !ok || !bytes.Equal(ks.Bytes()[:], e.ks) || !bytes.Equal(auth.Bytes()[:], e.auth) {
							bad = fmt.Sprintf("handshake %d: result differs from the sequential/reference computation", g)
						}
					})
				}
			})
			if len(res.Panics) > 0 {
				fail(c, "agreement", "agreement/scheduled-panic", "%s", res.Panics[0])
				return
			}
			if res.Quiescent || res.Livelock {
				fail(c, "agreement", "agreement/scheduled-deadlock", "%+v", res.Blocked)
				return
			}
			if bad != "" {
				fail(c, "agreement", "agreement/scheduled", "%s", bad)
			}
			c.Observe("ok", bad == "")
		}})
	}
	// concurrent handshakes sharing an identity (free-running; sampling, supplementary)
	emit(mc.Scenario{Name: "concurrent-free-running", Weight: 5, Run: func(c *mc.Ctx) {
		t := mk(0, 0, 1, false)
		t.node = nodes[2]
		type exp struct {
			x, y     *ntor.Keypair
			ks, auth []byte
		}
		var exps []exp
		for g := 0; g < 8; g++ {
			tt := t
			tt.x = kpHex(rnd.New(seed, fmt.Sprint("c08-cx-", g)).Bytes(32))
			tt.y = kpHex(rnd.New(seed, fmt.Sprint("c08-cy-", g)).Bytes(32))
			ks, auth, _, _ := refOutputs(tt)
			exps = append(exps, exp{tt.x, tt.y, ks, auth})
		}
		var wg sync.WaitGroup
		var mu sync.Mutex
		bad := ""
		for g := range exps {
			wg.Add(1)
			go func(g int) {
				defer wg.Done()
				defer func() {
					if r := recover(); r != nil {
						mu.Lock()
						bad = fmt.Sprintf("panic in concurrent handshake: %v", r)
						mu.Unlock()
					}
				}()
				e := exps[g]
				for it := 0; it < 400; it++ {
					ok, ks, auth := ntor.ServerHandshake(e.x.Public(), e.y, t.id, nid(t.node))
					ok2, ks2, auth2 := ntor.ClientHandshake(e.x, e.y.Public(), t.id.Public(), nid(t.node))
					if !ok || !ok2 || !bytes.Equal(ks.Bytes()[:], e.ks) || !bytes.Equal(auth.Bytes()[:], e.auth) || !bytes.Equal(ks2.Bytes()[:], e.ks) || !bytes.Equal(auth2.Bytes()[:], e.auth) {
						mu.Lock()
						bad = fmt.Sprintf("goroutine %d iteration %d: result differs from the sequential computation", g, it)
						mu.Unlock()
						return
					}
				}
			}(g)
		}
		wg.Wait()
		if bad != "" {
			fail(c, "agreement", "agreement/concurrent", "%s", bad)
		}
		c.Count("concurrent_free_running_handshakes", 8*400*2)
		c.Observe("conc", "done")
	}})
	_ = big.NewInt
}

func main() { mc.Main("C08", scenarios) }
