//go:build verif

package ntor

// Free-running -race body for C08: concurrent key generation and client/server
// handshakes sharing one identity key pair and node ID.

import (
	"bytes"
	"os"
	"strconv"
	"sync"
	"testing"
)

func TestVerifRaceC08Handshakes(t *testing.T) {
	iters, _ := strconv.Atoi(os.Getenv("VERIF_RACE_ITERS"))
	if iters < 1 {
		iters = 1
	}
	id, _ := NewNodeID(bytes.Repeat([]byte{0x42}, NodeIDLength))
	idKP, err := NewKeypair(false)
	if err != nil {
		t.Fatal(err)
	}
	for it := 0; it < iters; it++ {
		var wg sync.WaitGroup
		for g := 0; g < 8; g++ {
			wg.Add(1)
			go func() {
				defer wg.Done()
				for i := 0; i < 10; i++ {
					ckp, err := NewKeypair(true)
					if err != nil {
						t.Error(err)
						return
					}
					skp, err := NewKeypair(true)
					if err != nil {
						t.Error(err)
						return
					}
					cpub := ckp.Representative().ToPublic()
					spub := skp.Representative().ToPublic()
					okS, seedS, authS := ServerHandshake(cpub, skp, idKP, id)
					okC, seedC, authC := ClientHandshake(ckp, spub, idKP.Public(), id)
					if !okS || !okC || !bytes.Equal(seedS.Bytes()[:], seedC.Bytes()[:]) || !CompareAuth(authS, authC.Bytes()[:]) {
						t.Errorf("handshake disagreement")
					}
				}
			}()
		}
		wg.Wait()
	}
}
