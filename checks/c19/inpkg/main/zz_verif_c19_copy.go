//go:build verif

package main

import "net"

// (calls the private relay function directly; vcheck swaps in the .stub next
// to this file when it stops compiling)
const verifCopyAvailable = true

func verifCopyLoop(a, b net.Conn) error { return copyLoop(a, b) }
