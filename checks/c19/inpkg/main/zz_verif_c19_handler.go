//go:build verif

package main

import (
	"net"

	pt "gitlab.torproject.org/tpo/anti-censorship/pluggable-transports/goptlib"

	"gitlab.com/yawning/obfs4.git/transports/base"
)

// (runs the private client connection handler against the package-level
// termination monitor; vcheck swaps in the .stub next to this file when it
// stops compiling)
const verifHandlerAvailable = true

func verifInstallMon(v *verifMon) { termMon = v.m }

func verifClientHandler(f base.ClientFactory, conn net.Conn) { clientHandler(f, conn, nil) }

func verifServerHandler(f base.ServerFactory, conn net.Conn, info *pt.ServerInfo) {
	serverHandler(f, conn, info)
}

