//go:build verif

package main

import (
	"errors"
	"fmt"
	"io"
	"net"
	"os"
	"strings"
	"syscall"

	pt "gitlab.torproject.org/tpo/anti-censorship/pluggable-transports/goptlib"

	"gitlab.com/yawning/obfs4.git/internal/zzverif/mc"
	"gitlab.com/yawning/obfs4.git/internal/zzverif/sched"
	"gitlab.com/yawning/obfs4.git/internal/zzverif/wire"
	"gitlab.com/yawning/obfs4.git/transports/base"
)

// ---- the real connection handler against the real monitor ---------------------
//
// The scenarios above drive the monitor with handler threads that call
// onHandlerStart/onHandlerFinish themselves.  Here the threads run the real
// clientHandler (SOCKS5 exchange with a scripted local client, stub transport
// factory, model connections), which ends at a scripted stage; the property's
// words are judged on what the handlers leave behind: both connections closed,
// the handler returned, the count of active handlers back at zero, and a
// graceful shutdown request completing once no handler is active.

type c19Transport struct{}

func (c19Transport) Name() string { return "stubpt" }
func (c19Transport) ClientFactory(string) (base.ClientFactory, error) {
	return nil, errors.New("unused")
}
func (c19Transport) ServerFactory(string, *pt.Args) (base.ServerFactory, error) {
	return nil, errors.New("unused")
}

type c19Factory struct {
	argsErr, dialErr error
	remote           net.Conn
	dialed           bool
}

func (f *c19Factory) Transport() base.Transport { return c19Transport{} }
func (f *c19Factory) ParseArgs(*pt.Args) (any, error) {
	if f.argsErr != nil {
		return nil, f.argsErr
	}
	return struct{}{}, nil
}
func (f *c19Factory) Dial(network, address string, dialFn base.DialFunc, args any) (net.Conn, error) {
	if f.dialErr != nil {
		return nil, f.dialErr
	}
	f.dialed = true
	return f.remote, nil
}

type c19ServerFactory struct{ wrapErr error }

func (f *c19ServerFactory) Transport() base.Transport { return c19Transport{} }
func (f *c19ServerFactory) Args() *pt.Args            { return nil }
func (f *c19ServerFactory) WrapConn(net.Conn) (net.Conn, error) {
	return nil, f.wrapErr
}

// (server-handshake-fails: the real serverHandler with a transport whose
// handshake fails -- a scanner, a probe, a wrong key; the OR port is never
// dialled, so everything stays on model connections)
var handlerStages = []string{"server-handshake-fails", "socks-fail", "bad-args", "dial-fails", "relay-client-eof", "relay-client-leaves", "relay-bridge-error", "relay-bridge-eof"}

func drain(c *wire.Conn) {
	b := make([]byte, 512)
	for {
		if _, err := c.Read(b); err != nil {
			return
		}
	}
}

func realHandlerScenario(name string, stages []string, sigs []os.Signal, bound int) mc.Scenario {
	return mc.Scenario{
		Name:   name,
		Params: map[string]any{"stages": strings.Join(stages, ","), "signals": fmt.Sprint(sigs)},
		Bound:  bound,
		Weight: 40 * len(stages) * (bound + 1),
		Run: func(c *mc.Ctx) {
			if !verifTermAvailable || !verifHandlerAvailable {
				c.Count("handler_adapter_unavailable", 1)
				c.Trivial()
				return
			}
			m := verifNewMon()
			verifInstallMon(m)
			n := len(stages)
			done := make([]bool, n)
			sws := make([]*wire.Conn, n)
			rls := make([]*wire.Conn, n)
			fs := make([]*c19Factory, n)
			mainPhase := "wait(false)"
			delivered := 0
			res := sched.Run(c, sched.Options{MainMayBlock: true}, func() {
				s := sched.Cur()
				for i, st := range stages {
					i, st := i, st
					cw, sw := wire.Pipe(fmt.Sprintf("socks-client%d", i), fmt.Sprintf("handler%d", i))
					rl, rp := wire.Pipe(fmt.Sprintf("remote%d", i), fmt.Sprintf("bridge%d", i))
					sws[i], rls[i] = sw, rl
					f := &c19Factory{remote: rl}
					fs[i] = f
					switch st {
					case "bad-args":
						f.argsErr = errors.New("missing argument")
					case "dial-fails":
						f.dialErr = errors.New("connection refused")
					}
					if st == "server-handshake-fails" {
						s.Spawn(fmt.Sprintf("prober%d", i), func() {
							cw.Write([]byte("probe"))
							drain(cw)
						})
						s.Spawn(fmt.Sprintf("handler%d", i), func() {
							verifServerHandler(&c19ServerFactory{wrapErr: errors.New("handshake failed")}, sw, &pt.ServerInfo{})
							done[i] = true
						})
						continue
					}
					s.Spawn(fmt.Sprintf("socks-client%d", i), func() {
						if st == "socks-fail" {
							cw.Write([]byte{0x04, 0x01, 0x00})
							drain(cw)
							return
						}
						cw.Write([]byte{0x05, 0x01, 0x00})
						if _, err := io.ReadFull(cw, make([]byte, 2)); err != nil {
							return
						}
						cw.Write([]byte{0x05, 0x01, 0x00, 0x01, 192, 0, 2, 1, 0x01, 0xbb})
						if _, err := io.ReadFull(cw, make([]byte, 10)); err != nil {
							return
						}
						switch st {
						case "relay-client-eof":
							cw.Write([]byte("hello"))
							cw.CloseWrite()
						case "relay-client-leaves":
							cw.Write([]byte("hello"))
							cw.Close()
							return
						}
						drain(cw)
					})
					if strings.HasPrefix(st, "relay-") {
						s.Spawn(fmt.Sprintf("bridge%d", i), func() {
							switch st {
							case "relay-bridge-error":
								rp.Write([]byte("welcome"))
								rp.Out.Err = errInjectedRead
							case "relay-bridge-eof":
								rp.Write([]byte("welcome"))
								rp.CloseWrite()
							}
							drain(rp)
						})
					}
					s.Spawn(fmt.Sprintf("handler%d", i), func() {
						verifClientHandler(f, sw)
						done[i] = true
					})
				}
				s.Spawn("signals", func() {
					for _, sg := range sigs {
						m.signal(sg)
						delivered++
					}
				})
				// main(), after set-up
				if first := m.wait(false); first == syscall.SIGTERM {
					mainPhase = "exit"
					return
				}
				mainPhase = "wait(true)"
				m.wait(true)
				mainPhase = "exit"
			})
			if len(res.Panics) > 0 {
				c.Fail("panic", "C19/handler/panic", "%s", res.Panics[0])
				return
			}
			if res.Livelock {
				c.Fail("livelock", "C19/handler/livelock", "step budget exceeded: %+v", res.Blocked)
				return
			}
			nd := 0
			for i := range done {
				if done[i] {
					nd++
				}
			}
			c.Observe("end", fmt.Sprintf("phase=%s done=%v num=%d delivered=%d", mainPhase, done, m.num(), delivered))
			c.Count("handler_runs", int64(n))
			// (a handler that had not registered when main left stays parked in
			// onHandlerStart -- the process is exiting; not judged)
			if mainPhase == "exit" && nd < n {
				c.Count("handlers_parked_after_main_left", int64(n-nd))
				return
			}
			for i, st := range stages {
				if !done[i] {
					c.Fail("teardown", "C19/handler/not-returned/"+st, "the connection ended (%s) but the handler never returned; blocked: %+v", st, res.Blocked)
					return
				}
				if !sws[i].Closed || (fs[i].dialed && !rls[i].Closed) {
					c.Fail("teardown", "C19/handler/not-closed/"+st, "the handler returned (%s) but not both connections are closed (client side closed=%v, transport side dialed=%v closed=%v)", st, sws[i].Closed, fs[i].dialed, rls[i].Closed)
				}
			}
			if mainPhase != "exit" && m.num() != 0 {
				c.Fail("count", "C19/handler/count-nonzero", "all %d handlers (%v) finished but numHandlers=%d", n, stages, m.num())
			}
			if len(sigs) > 0 && sigs[0] == syscall.SIGINT && delivered >= 1 && mainPhase != "exit" {
				c.Fail("graceful", "C19/handler/graceful-stuck", "graceful shutdown requested, all %d handlers (%v) finished, but main is still parked in %s (numHandlers=%d)", n, stages, mainPhase, m.num())
			}
		},
	}
}

func realHandlerScenarios(cfg *mc.Config, emit func(mc.Scenario)) {
	b1, b2 := 2, 1
	if cfg.Thorough() {
		b1, b2 = 3, 2
	}
	for _, st := range handlerStages {
		emit(realHandlerScenario("handler/"+st+"/sigint", []string{st}, []os.Signal{syscall.SIGINT}, b1))
		emit(realHandlerScenario("handler/"+st+"/no-signal", []string{st}, nil, b1))
	}
	for i, a := range handlerStages {
		for j, b := range handlerStages {
			if j < i || (!cfg.Thorough() && (i+j)%3 != 0) {
				continue
			}
			emit(realHandlerScenario("handler/"+a+"+"+b+"/sigint", []string{a, b}, []os.Signal{syscall.SIGINT}, b2))
		}
	}
}
