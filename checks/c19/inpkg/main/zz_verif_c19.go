//go:build verif

package main

import (
	"bytes"
	"errors"
	"fmt"
	"os"
	"syscall"

	"gitlab.com/yawning/obfs4.git/internal/zzverif/mc"
	"gitlab.com/yawning/obfs4.git/internal/zzverif/sched"
	"gitlab.com/yawning/obfs4.git/internal/zzverif/wire"
)

func init() {
	if os.Getenv("VERIF_HARNESS") != "C19" {
		return
	}
	mc.Main("C19", c19Scenarios)
	os.Exit(0)
}

// ---- copyLoop -----------------------------------------------------------------

type sideScript struct {
	Chunks    []int  // sizes of the chunks this side's peer produces
	End       string // "", "eof", "rerr"
	WriteFail int    // -1 never; n: the n-th write to this side fails
	// EndWithData: the Read that returns the last bytes also returns the
	// EOF/error (what a transport's Read does with decoded data + a fatal error)
	EndWithData bool
	// Window > 0: this side's peer does not drain: writes towards this side
	// block once Window bytes are queued (a peer that stopped reading)
	Window int
}

func (s sideScript) String() string {
	e := ""
	if s.EndWithData {
		e = " end-with-data"
	}
	if s.Window > 0 {
		e += fmt.Sprintf(" window=%d", s.Window)
	}
	return fmt.Sprintf("chunks=%v end=%q wfail=%d%s", s.Chunks, s.End, s.WriteFail, e)
}

var errInjectedRead = errors.New("injected read error")
var errInjectedWrite = errors.New("injected write error")

func pattern(tag byte, n int) []byte {
	b := make([]byte, n)
	for i := range b {
		b[i] = tag + byte(i%23)
	}
	return b
}

func copyScenario(name string, sa, sb sideScript, bound int, free bool) mc.Scenario {
	return mc.Scenario{
		Name:   name,
		Params: map[string]any{"a": sa.String(), "b": sb.String()},
		Bound:  bound,
		Weight: 10 + 30*len(sa.Chunks) + 30*len(sb.Chunks),
		Run: func(c *mc.Ctx) {
			if !verifCopyAvailable {
				c.Count("relay_adapter_unavailable", 1)
				c.Trivial()
				return
			}
			aLocal, aPeer := wire.Pipe("a", "a-peer")
			bLocal, bPeer := wire.Pipe("b", "b-peer")
			aLocal.CoalesceEnd, bLocal.CoalesceEnd = sa.EndWithData, sb.EndWithData
			aLocal.Window, bLocal.Window = sa.Window, sb.Window
			var produced [2][]byte
			returned := false
			var retErr error
			ended := [2]bool{}
			env := func(side int, peer *wire.Conn, sc sideScript, tag byte) func() {
				return func() {
					for i, n := range sc.Chunks {
						p := pattern(tag+byte(i*40), n)
						produced[side] = append(produced[side], p...)
						peer.Write(p)
					}
					switch sc.End {
					case "eof":
						if !sc.EndWithData {
							sched.Cur().Point("env-eof", nil)
						}
						peer.CloseWrite()
						ended[side] = true
					case "rerr":
						if !sc.EndWithData {
							sched.Cur().Point("env-rerr", nil)
						}
						peer.Out.Err = errInjectedRead
						ended[side] = true
					}
				}
			}
			var wfFired [2]bool
			wf := func(side int, sc sideScript) func(int, []byte) error {
				if sc.WriteFail < 0 {
					return nil
				}
				return func(n int, p []byte) error {
					if n == sc.WriteFail {
						wfFired[side] = true
						return errInjectedWrite
					}
					return nil
				}
			}
			aLocal.WriteFault = wf(0, sa)
			bLocal.WriteFault = wf(1, sb)
			res := sched.Run(c, sched.Options{FreeSwitch: free, MainMayBlock: true}, func() {
				s := sched.Cur()
				s.Spawn("envA", env(0, aPeer, sa, 'a'))
				s.Spawn("envB", env(1, bPeer, sb, 'A'))
				retErr = verifCopyLoop(aLocal, bLocal)
				returned = true
			})
			if len(res.Panics) > 0 {
				c.Fail("panic", "C19/copy/panic", "%s", res.Panics[0])
				return
			}
			if res.Livelock {
				c.Fail("livelock", "C19/copy/livelock", "step budget exceeded: %+v", res.Blocked)
				return
			}
			fwdAB := bPeer.In.Buf // what reached b's peer
			fwdBA := aPeer.In.Buf
			c.Observe("fwd", fmt.Sprintf("a->b %d/%d b->a %d/%d returned=%v err=%v closedA=%v closedB=%v",
				len(fwdAB), len(produced[0]), len(fwdBA), len(produced[1]), returned, retErr, aLocal.Closed, bLocal.Closed))
			// safety: forwarded is an in-order unaltered prefix of produced
			if !bytes.HasPrefix(produced[0], fwdAB) {
				c.Fail("prefix", "C19/copy/prefix/a->b", "bytes forwarded a->b are not a prefix of what side a produced (%d forwarded, %d produced)", len(fwdAB), len(produced[0]))
			}
			if !bytes.HasPrefix(produced[1], fwdBA) {
				c.Fail("prefix", "C19/copy/prefix/b->a", "bytes forwarded b->a are not a prefix of what side b produced (%d forwarded, %d produced)", len(fwdBA), len(produced[1]))
			}
			// which end/fault events can happen at all in this script
			// (a write fault only happens if the copier really issues that
			// many writes, which depends on how reads coalesce: dynamic)
			wfA, wfB := wfFired[0], wfFired[1]
			anyEnd := sa.End != "" || sb.End != "" || wfA || wfB
			if anyEnd {
				c.Count("executions_with_end_event", 1)
				// liveness at the end of the execution (all threads finished or quiescent)
				if !returned {
					c.Fail("teardown", "C19/copy/not-returned", "a side ended but copyLoop never returned; blocked: %+v", res.Blocked)
				}
				if !aLocal.Closed || !bLocal.Closed {
					c.Fail("teardown", "C19/copy/not-closed", "a side ended but not both connections were closed (a closed=%v, b closed=%v)", aLocal.Closed, bLocal.Closed)
				}
			} else {
				c.Trivial()
				if returned {
					c.Fail("teardown", "C19/copy/returned-early", "copyLoop returned (%v) although neither side ended", retErr)
				}
				if !bytes.Equal(produced[0], fwdAB) || !bytes.Equal(produced[1], fwdBA) {
					c.Fail("delivery", "C19/copy/stuck", "quiescent with undelivered bytes: a->b %d/%d, b->a %d/%d", len(fwdAB), len(produced[0]), len(fwdBA), len(produced[1]))
				}
			}
			// a side that ends while the other is healthy has had all earlier bytes forwarded
			bHealthy := sb.End == "" && !wfB && !wfA
			aHealthy := sa.End == "" && !wfA && !wfB
			if sa.End != "" && bHealthy && !bytes.Equal(produced[0], fwdAB) {
				c.Fail("drain", "C19/copy/drain/a->b", "side a ended (%s) while b was healthy, but only %d of its %d bytes were forwarded", sa.End, len(fwdAB), len(produced[0]))
			}
			if sb.End != "" && aHealthy && !bytes.Equal(produced[1], fwdBA) {
				c.Fail("drain", "C19/copy/drain/b->a", "side b ended (%s) while a was healthy, but only %d of its %d bytes were forwarded", sb.End, len(fwdBA), len(produced[1]))
			}
			// first error (or nil for EOF) is what is returned, for single-cause scripts
			if returned {
				causes := 0
				var want error
				for _, sc := range []sideScript{sa, sb} {
					switch sc.End {
					case "eof":
						causes++
						want = nil
					case "rerr":
						causes++
						want = errInjectedRead
					}
				}
				if wfA {
					causes++
					want = errInjectedWrite
				}
				if wfB {
					causes++
					want = errInjectedWrite
				}
				if causes == 1 && !errors.Is(retErr, want) && !(want == nil && retErr == nil) {
					// which error the relay returns is not part of the property
					c.Count("single_cause_but_another_error_returned", 1)
				}
			}
		},
	}
}

// wfReachable: the n-th write to a side happens only if the other side
// produces at least n+1 chunks (each chunk <= 32 KiB is one io.Copy write).
func wfReachable(n int, otherChunks []int) bool {
	w := 0
	for _, k := range otherChunks {
		w += (k + 32*1024 - 1) / (32 * 1024)
	}
	return n < w
}

// ---- termMonitor --------------------------------------------------------------

func termScenario(name string, handlers int, sigs []os.Signal, bound int) mc.Scenario {
	return mc.Scenario{
		Name:      name,
		Params:    map[string]any{"handlers": handlers, "signals": fmt.Sprint(sigs)},
		Bound:     bound,
		NoIterate: true,
		Weight:    5 + 20*handlers,
		Run: func(c *mc.Ctx) {
			if !verifTermAvailable {
				c.Count("termination_monitor_adapter_unavailable", 1)
				c.Trivial()
				return
			}
			m := verifNewMon()
			started := make([]bool, handlers)
			finished := make([]bool, handlers)
			mainPhase := "wait(false)"
			var first, second os.Signal
			delivered := 0
			// acked[i]: onHandlerStart returned and onHandlerFinish not yet
			// called -- main has certainly received +1 and not -1.
			acked := make([]bool, handlers)
			ackedAtExit := -1
			// visited-state pruning: besides the scheduler's own state (where
			// every thread is parked, its step count, channel contents) the
			// complete remaining state is the monitor counter and the
			// harness flags below.  Thread bodies are deterministic given
			// these, so equal keys have equal futures.
			key := func() string {
				return fmt.Sprintf("num=%d phase=%s first=%v started=%v finished=%v acked=%v delivered=%d atexit=%d", m.num(), mainPhase, first, started, finished, acked, delivered, ackedAtExit)
			}
			res := sched.Run(c, sched.Options{FreeSwitch: true, StateKey: key, MainMayBlock: true}, func() {
				s := sched.Cur()
				for i := 0; i < handlers; i++ {
					i := i
					s.Spawn(fmt.Sprintf("handler%d", i), func() {
						m.start()
						started[i] = true
						acked[i] = true
						sched.Yield()
						acked[i] = false
						m.finish()
						finished[i] = true
					})
				}
				s.Spawn("signals", func() {
					for _, sg := range sigs {
						m.signal(sg)
						delivered++
					}
				})
				// main(), after set-up
				first = m.wait(false)
				if first == syscall.SIGTERM {
					mainPhase = "exit"
					return
				}
				mainPhase = "wait(true)"
				second = m.wait(true)
				ackedAtExit = 0
				for _, a := range acked {
					if a {
						ackedAtExit++
					}
				}
				mainPhase = "exit"
			})
			if len(res.Panics) > 0 {
				c.Fail("panic", "C19/term/panic", "%s", res.Panics[0])
				return
			}
			if res.Livelock {
				c.Fail("livelock", "C19/term/livelock", "step budget exceeded")
				return
			}
			active, nf := 0, 0
			for i := range started {
				if started[i] && !finished[i] {
					active++
				}
				if finished[i] {
					nf++
				}
			}
			c.Observe("end", fmt.Sprintf("phase=%s first=%v second=%v active=%d finished=%d num=%d delivered=%d", mainPhase, first, second, active, nf, m.num(), delivered))
			if delivered > 0 {
				c.Count("executions_with_signal", 1)
			}
			if mainPhase != "exit" {
				// main is parked inside wait(): the counter must equal the active handlers
				if m.num() != active {
					c.Fail("count", "C19/term/count", "main parked in %s with numHandlers=%d but %d handlers are active", mainPhase, m.num(), active)
				}
			}
			// (only where the SIGTERM is certainly the synthesized one: the
			// script contains no real SIGTERM as second signal)
			synthesized := second == syscall.SIGTERM && !(len(sigs) == 2 && sigs[1] == syscall.SIGTERM)
			if ackedAtExit > 0 && synthesized {
				c.Fail("graceful", "C19/term/exit-while-active", "wait(true) reported 'no handlers' while %d handler(s) had started and not yet begun to finish", ackedAtExit)
			}
			if nf == handlers && mainPhase != "exit" && m.num() != 0 {
				c.Fail("count", "C19/term/count-nonzero", "all %d handlers finished but numHandlers=%d", handlers, m.num())
			}
			switch {
			case len(sigs) > 0 && sigs[0] == syscall.SIGTERM:
				if mainPhase != "exit" {
					// (an immediate SIGTERM exit is not in the property's words: counted)
					c.Count("sigterm_without_exit", 1)
				}
			case len(sigs) > 0:
				// graceful request (SIGINT).  At the end of the execution no
				// handler can make progress any more; if none is active the
				// shutdown must have completed.
				if delivered >= 1 && active == 0 && allStartedOrNever(started, finished) && mainPhase != "exit" {
					key := "C19/term/graceful-stuck"
					if handlers == 0 {
						key = "C19/term/graceful-stuck/idle"
					}
					c.Fail("graceful", key, "graceful shutdown requested, no handler active (%d handlers, %d finished), but main is still parked in %s", handlers, nf, mainPhase)
				}
				if len(sigs) == 2 && delivered == 2 && mainPhase != "exit" {
					c.Count("second_signal_without_exit", 1)
				}
			default:
				if mainPhase == "exit" {
					c.Fail("spurious", "C19/term/spurious-exit", "main left wait() without any signal")
				}
			}
		},
	}
}

// allStartedOrNever: every handler either completed or never got as far as
// registering (parked in onHandlerStart because main had already left).
func allStartedOrNever(started, finished []bool) bool {
	for i := range started {
		if started[i] && !finished[i] {
			return false
		}
	}
	return true
}

func c19Scenarios(cfg *mc.Config, emit func(mc.Scenario)) {
	realHandlerScenarios(cfg, emit)
	b := 2
	if cfg.Thorough() {
		b = 3
	}
	ends := []string{"", "eof", "rerr"}
	chunkSets := [][]int{{}, {3}, {3, 5}}
	if cfg.Thorough() {
		chunkSets = append(chunkSets, []int{40000}, []int{3, 5, 7})
	}
	for _, ca := range chunkSets {
		for _, cb := range chunkSets {
			for _, ea := range ends {
				for _, eb := range ends {
					for _, wfa := range []int{-1, 0, 1} {
						for _, wfb := range []int{-1, 0} {
							if !cfg.Thorough() && wfa >= 0 && wfb >= 0 {
								continue
							}
							if wfa >= 0 && !wfReachable(wfa, cb) || wfb >= 0 && !wfReachable(wfb, ca) {
								continue
							}
							sa := sideScript{ca, ea, wfa, false, 0}
							sb := sideScript{cb, eb, wfb, false, 0}
							emit(copyScenario(fmt.Sprintf("copy/a[%v]/b[%v]", sa, sb), sa, sb, b, false))
						}
					}
				}
			}
		}
	}
	// the last bytes arrive in the same Read as the EOF / error
	for _, end := range []string{"eof", "rerr"} {
		for _, ch := range [][]int{{3}, {3, 5}} {
			sa := sideScript{ch, end, -1, true, 0}
			for _, sb := range []sideScript{{nil, "", -1, false, 0}, {[]int{3}, "", -1, false, 0}, {[]int{4}, end, -1, true, 0}} {
				emit(copyScenario(fmt.Sprintf("copy/end-with-data/a[%v]/b[%v]", sa, sb), sa, sb, b, false))
				emit(copyScenario(fmt.Sprintf("copy/end-with-data/b[%v]/a[%v]", sa, sb), sb, sa, b, false))
			}
		}
	}
	if !cfg.Thorough() {
		emit(copyScenario("copy/big/a[40000,eof]", sideScript{[]int{40000}, "eof", -1, false, 0}, sideScript{[]int{3}, "", -1, false, 0}, b, false))
		// a peer that stopped reading: the direction towards it is blocked in
		// Write when that same side ends; the relay must still tear down
		for _, end := range []string{"eof", "rerr"} {
			for _, chunks := range [][]int{{5, 5}, {3, 3, 3}} {
				emit(copyScenario(fmt.Sprintf("copy/blocked-writer/a-%s/b%v", end, chunks), sideScript{nil, end, -1, false, 4}, sideScript{chunks, "", -1, false, 0}, b, false))
				emit(copyScenario(fmt.Sprintf("copy/blocked-writer/b-%s/a%v", end, chunks), sideScript{chunks, "", -1, false, 0}, sideScript{nil, end, -1, false, 4}, b, false))
			}
		}
		emit(copyScenario("copy/big/wfail1", sideScript{[]int{3}, "", 1, false, 0}, sideScript{[]int{40000}, "", -1, false, 0}, b, false))
	}
	// visited-state pruning makes the complete interleaving space finite
	// and small: explore it without a preemption bound.
	tb := 1000
	sigScripts := [][]os.Signal{{}, {syscall.SIGINT}, {syscall.SIGINT, syscall.SIGTERM}, {syscall.SIGINT, syscall.SIGINT}, {syscall.SIGTERM}}
	for h := 0; h <= 3; h++ {
		for _, ss := range sigScripts {
			hb := tb
			if h == 3 && !cfg.Thorough() {
				hb = 2 // quick: 3 handlers with <= 2 preemptions; thorough: unbounded
			}
			emit(termScenario(fmt.Sprintf("term/h=%d/sig=%v", h, ss), h, ss, hb))
		}
	}
}
