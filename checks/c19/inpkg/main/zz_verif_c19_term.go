//go:build verif

package main

import (
	"os"

	"gitlab.com/yawning/obfs4.git/internal/zzverif/sched"
)

// (drives the private termination monitor directly; vcheck swaps in the .stub
// next to this file when it stops compiling)
const verifTermAvailable = true

type verifMon struct{ m *termMonitor }

func verifNewMon() *verifMon {
	return &verifMon{&termMonitor{sigChan: make(chan os.Signal), handlerChan: make(chan int)}}
}
func (v *verifMon) start()                         { v.m.onHandlerStart() }
func (v *verifMon) finish()                        { v.m.onHandlerFinish() }
func (v *verifMon) wait(noHandlers bool) os.Signal { return v.m.wait(noHandlers) }
func (v *verifMon) signal(sg os.Signal)            { sched.S(v.m.sigChan).Send(sg) }
func (v *verifMon) num() int                       { return v.m.numHandlers }
