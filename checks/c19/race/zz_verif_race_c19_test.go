//go:build verif

package main

// Free-running -race body for C19: several relays (copyLoop) running at the
// same time over loopback sockets, and handler start/finish notifications
// racing with a signal at the termination monitor.

import (
	"bytes"
	"io"
	"net"
	"os"
	"strconv"
	"sync"
	"syscall"
	"testing"
)

func verifTCPPair(t *testing.T) (net.Conn, net.Conn) {
	ln, err := net.Listen("tcp", "127.0.0.1:0")
	if err != nil {
		t.Fatal(err)
	}
	defer ln.Close()
	ch := make(chan net.Conn, 1)
	go func() {
		c, _ := ln.Accept()
		ch <- c
	}()
	a, err := net.Dial("tcp", ln.Addr().String())
	if err != nil {
		t.Fatal(err)
	}
	b := <-ch
	if b == nil {
		t.Fatal("accept failed")
	}
	return a, b
}

type verifPlainConn struct{ net.Conn }

func TestVerifRaceC19Relays(t *testing.T) {
	iters, _ := strconv.Atoi(os.Getenv("VERIF_RACE_ITERS"))
	if iters < 1 {
		iters = 1
	}
	for it := 0; it < iters; it++ {
		var wg sync.WaitGroup
		for g := 0; g < 6; g++ {
			wg.Add(1)
			go func(g int) {
				defer wg.Done()
				// app <-> [a1 ... copyLoop ... b1] <-> peer
				app, a1 := verifTCPPair(t)
				b1, peer := verifTCPPair(t)
				done := make(chan struct{})
				// plain net.Conns (as the pluggable transport connections are):
				// no ReadFrom/WriteTo fast paths, the copy buffers are used
				go func() { copyLoop(verifPlainConn{a1}, verifPlainConn{b1}); close(done) }()
				up := bytes.Repeat([]byte{byte('A' + g)}, 70000)
				down := bytes.Repeat([]byte{byte('a' + g)}, 50000)
				var twg sync.WaitGroup
				twg.Add(3)
				go func() { defer twg.Done(); app.Write(up) }()
				go func() { defer twg.Done(); peer.Write(down) }()
				gotUp := make([]byte, len(up))
				go func() { defer twg.Done(); io.ReadFull(peer, gotUp) }()
				gotDown := make([]byte, len(down))
				if _, err := io.ReadFull(app, gotDown); err != nil || !bytes.Equal(gotDown, down) {
					t.Errorf("relay %d: downstream differs (%v)", g, err)
				}
				twg.Wait()
				if !bytes.Equal(gotUp, up) {
					t.Errorf("relay %d: upstream differs", g)
				}
				app.Close() // one side ends: the relay tears both down
				<-done
				peer.Close()
			}(g)
		}
		wg.Wait()
	}
}

func TestVerifRaceC19TermMonitor(t *testing.T) {
	iters, _ := strconv.Atoi(os.Getenv("VERIF_RACE_ITERS"))
	if iters < 1 {
		iters = 1
	}
	for it := 0; it < 20*iters; it++ {
		m := &termMonitor{sigChan: make(chan os.Signal), handlerChan: make(chan int)}
		first := make(chan os.Signal, 1)
		go func() { first <- m.wait(false) }()
		var started, finished sync.WaitGroup
		release := make(chan struct{})
		for h := 0; h < 5; h++ {
			started.Add(1)
			finished.Add(1)
			go func() {
				defer finished.Done()
				m.onHandlerStart()
				started.Done()
				<-release
				m.onHandlerFinish()
			}()
		}
		started.Wait() // every start has been taken by wait(false)
		m.sigChan <- syscall.SIGINT
		if sig := <-first; sig != syscall.SIGINT {
			t.Errorf("wait(false) = %v", sig)
		}
		close(release)
		if sig := m.wait(true); sig != syscall.SIGTERM {
			t.Errorf("wait(true) = %v", sig)
		}
		finished.Wait()
	}
}
