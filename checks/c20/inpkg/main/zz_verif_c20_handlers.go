//go:build verif

package main

import (
	"errors"
	"fmt"
	"io"
	"net"
	"net/url"
	"os"
	"strings"
	"sync"
	"time"

	pt "gitlab.torproject.org/tpo/anti-censorship/pluggable-transports/goptlib"

	"gitlab.com/yawning/obfs4.git/common/log"
	"gitlab.com/yawning/obfs4.git/internal/zzverif/mc"
	"gitlab.com/yawning/obfs4.git/transports/base"
)

// The call sites: the real connection handlers of obfs4proxy run once for every
// element of (role, stage at which the connection ends, error shape, address
// form), logging to a real file at the most verbose level; the text each run
// appended to the log must not contain any canary.  The handlers run on real
// goroutines (their relay is joined before they return, and exactly one side
// of each scripted connection ever produces an event, so the logged line does
// not depend on the schedule).

// scriptConn: a net.Conn whose input is pre-loaded; when it runs dry Read
// blocks until Close.  Writes are collected; the failAt-th Write (0-based)
// and all later ones fail with werr.
type scriptConn struct {
	mu     sync.Mutex
	in     [][]byte // one segment per Read (the SOCKS5 server rejects a message that arrives with trailing data)
	endErr error    // returned once the input is consumed (nil: block until closed)
	failAt int
	werr   error
	writes int
	closed chan struct{}
	once   sync.Once
	remote net.Addr
}

func newScriptConn(in [][]byte, remote net.Addr) *scriptConn {
	return &scriptConn{in: in, failAt: -1, closed: make(chan struct{}), remote: remote}
}

func (s *scriptConn) Read(b []byte) (int, error) {
	s.mu.Lock()
	if len(s.in) > 0 {
		n := copy(b, s.in[0])
		if s.in[0] = s.in[0][n:]; len(s.in[0]) == 0 {
			s.in = s.in[1:]
		}
		s.mu.Unlock()
		return n, nil
	}
	e := s.endErr
	s.mu.Unlock()
	if e != nil {
		return 0, e
	}
	<-s.closed
	return 0, io.ErrClosedPipe
}

func (s *scriptConn) Write(b []byte) (int, error) {
	s.mu.Lock()
	defer s.mu.Unlock()
	select {
	case <-s.closed:
		return 0, io.ErrClosedPipe
	default:
	}
	k := s.writes
	s.writes++
	if s.failAt >= 0 && k >= s.failAt {
		return 0, s.werr
	}
	return len(b), nil
}

func (s *scriptConn) Close() error {
	s.once.Do(func() { close(s.closed) })
	return nil
}
func (s *scriptConn) LocalAddr() net.Addr {
	return &net.TCPAddr{IP: net.IPv4(10, 255, 255, 1), Port: 1}
}
func (s *scriptConn) RemoteAddr() net.Addr               { return s.remote }
func (s *scriptConn) SetDeadline(t time.Time) error      { return nil }
func (s *scriptConn) SetReadDeadline(t time.Time) error  { return nil }
func (s *scriptConn) SetWriteDeadline(t time.Time) error { return nil }

type stubTransport struct{}

func (stubTransport) Name() string { return "stubpt" }
func (stubTransport) ClientFactory(string) (base.ClientFactory, error) {
	return nil, errors.New("unused")
}
func (stubTransport) ServerFactory(string, *pt.Args) (base.ServerFactory, error) {
	return nil, errors.New("unused")
}

type stubClientFactory struct {
	argsErr error
	dialErr error
	remote  net.Conn
	dialed  string
	// viaDialFn: like a real transport, make the outgoing TCP connection
	// with the dial function the handler passes in (the upstream proxy's)
	viaDialFn bool
}

func (f *stubClientFactory) Transport() base.Transport { return stubTransport{} }
func (f *stubClientFactory) ParseArgs(*pt.Args) (any, error) {
	if f.argsErr != nil {
		return nil, f.argsErr
	}
	return struct{}{}, nil
}
func (f *stubClientFactory) Dial(network, address string, dialFn base.DialFunc, args any) (net.Conn, error) {
	f.dialed = address
	if f.viaDialFn {
		return dialFn(network, address)
	}
	if f.dialErr != nil {
		return nil, f.dialErr
	}
	return f.remote, nil
}

type stubServerFactory struct {
	wrapErr error
	remote  net.Conn
}

func (f *stubServerFactory) Transport() base.Transport { return stubTransport{} }
func (f *stubServerFactory) Args() *pt.Args            { return nil }
func (f *stubServerFactory) WrapConn(net.Conn) (net.Conn, error) {
	if f.wrapErr != nil {
		return nil, f.wrapErr
	}
	return f.remote, nil
}

type shape struct {
	desc string
	mk   func() error
}

// every leaf, bare and under every wrapper
func handlerShapes() []shape {
	var out []shape
	for _, l := range leaves() {
		l := l
		out = append(out, shape{l.desc, l.mk})
		for _, w := range wrappers() {
			w := w
			out = append(out, shape{w.desc + "{" + l.desc + "}", func() error { return w.wrap(l.mk()) }})
		}
	}
	return out
}

type target struct {
	addr  string // host:port as the SOCKS client asks for it / as the peer's address prints
	socks []byte // atyp + address + port
	tcp   *net.TCPAddr
}

func handlerTargets() []target {
	return []target{
		{"203.0.113.7:443", append([]byte{0x01, 203, 0, 113, 7}, 0x01, 0xbb), &net.TCPAddr{IP: net.ParseIP("203.0.113.7"), Port: 443}},
		{"[2001:db8::beef]:9001", append(append([]byte{0x04}, net.ParseIP("2001:db8::beef").To16()...), 0x23, 0x29), &net.TCPAddr{IP: net.ParseIP("2001:db8::beef"), Port: 9001}},
		{"bridge.secret.example:8080", append(append([]byte{0x03, byte(len("bridge.secret.example"))}, "bridge.secret.example"...), 0x1f, 0x90), &net.TCPAddr{IP: net.ParseIP("fe80::1"), Zone: "eth0", Port: 22}},
	}
}

type logTail struct {
	path string
	f    *os.File
}

func openLogTail() (*logTail, error) {
	tf, err := os.CreateTemp("", "verif-c20-*.log")
	if err != nil {
		return nil, err
	}
	tf.Close()
	if err := log.Init(true, tf.Name(), false); err != nil {
		return nil, err
	}
	if err := log.SetLogLevel("DEBUG"); err != nil {
		return nil, err
	}
	f, err := os.Open(tf.Name())
	if err != nil {
		return nil, err
	}
	return &logTail{tf.Name(), f}, nil
}

// next returns what was appended since the previous call
func (t *logTail) next() string {
	b, _ := io.ReadAll(t.f)
	return string(b)
}

func (t *logTail) close() {
	log.Init(false, "", false)
	log.SetLogLevel("INFO")
	t.f.Close()
	os.Remove(t.path)
}

func handlerLeak(text string, loopback bool) string {
	if l := leaks(text); l != "" {
		return l
	}
	if loopback && strings.Contains(text, "127.0.0.1") {
		return "127.0.0.1"
	}
	return ""
}

// via-<scheme>-proxy-unreachable: an upstream proxy is configured and the TCP
// connection to it is refused (a loopback port nobody listens on; the
// proxy's address 127.0.0.1 is the canary)
var clientStages = []string{"bad-args", "dial-fails", "reply-fails", "relay-error", "relay-clean", "via-http-proxy-unreachable", "via-socks5-proxy-unreachable", "via-socks4a-proxy-unreachable"}

// (no "OR port refused" stage: goptlib v1.5.0's DialOr asserts the nil
// connection of a failed dial to *net.TCPConn and panics before the handler
// can log anything -- a defect of the dependency, outside this repository)
var serverStages = []string{"handshake-fails", "relay-error", "relay-clean"}

func handlerScenarios(cfg *mc.Config, emit func(mc.Scenario)) {
	for _, st := range clientStages {
		emit(handlerScenario("client", st))
	}
	for _, st := range serverStages {
		emit(handlerScenario("server", st))
	}
}

func handlerScenario(role, stage string) mc.Scenario {
	return mc.Scenario{Name: "handler-log/" + role + "/" + stage, Params: map[string]any{"role": role, "stage": stage}, Weight: 300, Run: func(c *mc.Ctx) {
		if !verifHandlersAvailable {
			c.Count("handler_adapter_unavailable", 1)
			c.Trivial()
			return
		}
		verifEnsureTermMon()
		lt, err := openLogTail()
		if err != nil {
			fail(c, "setup", "handler-log/setup", "%v", err)
			return
		}
		defer lt.close()
		shapes := handlerShapes()
		usesShape := stage == "dial-fails" || stage == "reply-fails" || stage == "relay-error" || stage == "handshake-fails"
		if !usesShape {
			shapes = []shape{{"none", func() error { return nil }}}
		}
		// the OR port of the server role: a real loopback listener (goptlib dials TCP)
		var orLn *net.TCPListener
		var orAddr *net.TCPAddr
		var held []net.Conn
		var heldMu sync.Mutex
		if role == "server" {
			ln, err := net.ListenTCP("tcp", &net.TCPAddr{IP: net.IPv4(127, 0, 0, 1)})
			if err != nil {
				fail(c, "setup", "handler-log/setup", "%v", err)
				return
			}
			orLn, orAddr = ln, ln.Addr().(*net.TCPAddr)
			if stage == "orport-refused" {
				ln.Close()
			} else {
				go func() {
					for {
						cn, err := ln.Accept()
						if err != nil {
							return
						}
						heldMu.Lock()
						held = append(held, cn)
						heldMu.Unlock()
					}
				}()
				defer ln.Close()
			}
		}
		_ = orLn
		var proxyURI *url.URL
		if strings.HasPrefix(stage, "via-") {
			ln, err := net.ListenTCP("tcp", &net.TCPAddr{IP: net.IPv4(127, 0, 0, 1)})
			if err != nil {
				fail(c, "setup", "handler-log/setup", "%v", err)
				return
			}
			port := ln.Addr().(*net.TCPAddr).Port
			ln.Close()
			scheme := strings.TrimSuffix(strings.TrimPrefix(stage, "via-"), "-proxy-unreachable")
			proxyURI = &url.URL{Scheme: scheme, Host: fmt.Sprintf("127.0.0.1:%d", port)}
		}
		n, lines, withCanary := 0, 0, 0
		outcomes := map[string]bool{}
		for _, tg := range handlerTargets() {
			for _, sh := range shapes {
				e := sh.mk()
				remote := newScriptConn(nil, tg.tcp)
				switch stage {
				case "relay-error":
					remote.endErr = e
				case "relay-clean":
					remote.endErr = io.EOF
				}
				var conn *scriptConn
				if role == "client" {
					in := [][]byte{{0x05, 0x01, 0x00}, append([]byte{0x05, 0x01, 0x00}, tg.socks...)}
					conn = newScriptConn(in, &net.TCPAddr{IP: net.IPv4(127, 0, 0, 1), Port: 40000})
					f := &stubClientFactory{remote: remote}
					switch stage {
					case "bad-args":
						f.argsErr = errors.New("missing required argument")
					case "dial-fails":
						f.dialErr = e
					case "reply-fails":
						conn.failAt, conn.werr = 1, e
					}
					if proxyURI != nil {
						f.viaDialFn = true
						verifClientHandlerVia(f, conn, proxyURI)
					} else {
						verifClientHandler(f, conn)
					}
					if stage != "bad-args" && f.dialed != tg.addr {
						c.Count("socks_target_not_as_scripted", 1)
						c.Observe("dialed", f.dialed+" vs "+tg.addr)
					}
				} else {
					conn = newScriptConn(nil, tg.tcp)
					f := &stubServerFactory{remote: remote}
					if stage == "handshake-fails" {
						f.wrapErr = e
					}
					verifServerHandler(f, conn, &pt.ServerInfo{OrAddr: orAddr})
				}
				text := lt.next()
				n++
				lines += strings.Count(text, "\n")
				raw := tg.addr
				if e != nil {
					raw += " " + e.Error()
				}
				if leaks(raw) != "" {
					withCanary++
				}
				outcomes[stripStamp(text)] = true
				if os.Getenv("VERIF_C20_DEBUG") != "" && n <= 3 {
					fmt.Fprintf(os.Stderr, "DEBUG %s/%s %s: %q\n", role, stage, sh.desc, text)
				}
				if l := handlerLeak(text, role == "server" || proxyURI != nil); l != "" {
					fail(c, "scrubbed", "handler-log/"+role+"/"+stage, "safe logging, %s handler, connection ends at %q with error %s, peer/target %s: the log got %q, which reveals %q", role, stage, sh.desc, tg.addr, text, l)
					return
				}
				heldMu.Lock()
				for _, h := range held {
					h.Close()
				}
				held = held[:0]
				heldMu.Unlock()
			}
		}
		c.AddExecutions(int64(n))
		c.Count("handler_runs", int64(n))
		c.Count("handler_log_lines", int64(lines))
		c.Count("handler_runs_with_a_canary_in_play", int64(withCanary))
		if lines == 0 {
			c.Count("handler_runs_that_logged_nothing", int64(n))
			c.Trivial()
		}
		c.Observe("outcomes", len(outcomes))
		c.AddDistinct(int64(len(outcomes)))
	}}
}

// stripStamp drops the date/time prefix the standard logger adds
func stripStamp(text string) string {
	var out []string
	for _, ln := range strings.Split(text, "\n") {
		if i := strings.Index(ln, "["); i >= 0 {
			ln = ln[i:]
		}
		out = append(out, ln)
	}
	return strings.Join(out, "\n")
}

var _ = fmt.Sprintf
