//go:build verif

// C20: safe logging never reveals peer addresses or host names.
package main

import (
	"errors"
	"fmt"
	"net"
	"net/url"
	"os"
	"strings"
	"syscall"

	"gitlab.com/yawning/obfs4.git/common/log"
	"gitlab.com/yawning/obfs4.git/internal/zzverif/mc"
)

func fail(c *mc.Ctx, oracle, key, format string, a ...any) {
	c.Fail(oracle, "C20/"+key, format, a...)
}

// canaries: host parts that must never survive (ports may)
var hosts = []string{"203.0.113.7", "2001:db8::beef", "fe80::1%eth0", "bridge.secret.example", "198.51.100.53", "192.0.2.99"}

type addrForm struct {
	s    string // as it appears in an error / is passed to ElideAddr
	port string // port that may legitimately remain ("" none)
}

var addrForms = []addrForm{
	{"203.0.113.7", ""}, {"203.0.113.7:443", "443"}, {"2001:db8::beef", ""}, {"[2001:db8::beef]:9001", "9001"},
	{"fe80::1%eth0", ""}, {"[fe80::1%eth0]:22", "22"}, {"bridge.secret.example", ""}, {"bridge.secret.example:8080", "8080"},
	{"198.51.100.53:53", "53"},
}

func leaks(out string) string {
	for _, h := range hosts {
		if strings.Contains(out, h) {
			return h
		}
	}
	// partial IPv6 leaks (e.g. a cut at the first colon)
	for _, frag := range []string{"db8::beef", "2001:", "fe80", "eth0", "secret.example", "203.0.113", "198.51.100"} {
		if strings.Contains(out, frag) {
			return frag
		}
	}
	return ""
}

type node struct {
	desc string
	mk   func() error
}

func leaves() []node {
	var ls []node
	for _, a := range []string{"203.0.113.7:443", "[2001:db8::beef]:9001", "bridge.secret.example"} {
		a := a
		ls = append(ls, node{"AddrError(" + a + ")", func() error { return &net.AddrError{Err: "missing port in address", Addr: a} }})
	}
	ls = append(ls,
		node{"DNSError(host,server)", func() error {
			return &net.DNSError{Err: "no such host", Name: "bridge.secret.example", Server: "198.51.100.53:53", IsNotFound: true}
		}},
		node{"DNSError(host)", func() error { return &net.DNSError{Err: "server misbehaving", Name: "bridge.secret.example"} }},
		node{"DNSError(timeout)", func() error {
			return &net.DNSError{Err: "i/o timeout", Name: "bridge.secret.example", Server: "[2001:db8::beef]:53", IsTimeout: true}
		}},
		node{"InvalidAddrError", func() error { return net.InvalidAddrError("invalid address 203.0.113.7") }},
		node{"UnknownNetworkError", func() error { return net.UnknownNetworkError("tcp7") }},
		node{"SyscallError(ECONNREFUSED)", func() error { return os.NewSyscallError("connect", syscall.ECONNREFUSED) }},
		node{"Errno(ETIMEDOUT)", func() error { return syscall.ETIMEDOUT }},
		node{"plain", func() error { return errors.New("unexpected EOF") }},
	)
	return ls
}

type wrapper struct {
	desc string
	wrap func(error) error
}

func tcp(ip string, port int) net.Addr { return &net.TCPAddr{IP: net.ParseIP(ip), Port: port} }

func wrappers() []wrapper {
	return []wrapper{
		{"OpError(dial,addr)", func(e error) error {
			return &net.OpError{Op: "dial", Net: "tcp", Addr: tcp("203.0.113.7", 443), Err: e}
		}},
		{"OpError(read,src,addr)", func(e error) error {
			return &net.OpError{Op: "read", Net: "tcp", Source: tcp("192.0.2.99", 50000), Addr: tcp("2001:db8::beef", 9001), Err: e}
		}},
		{"OpError(write,noaddr)", func(e error) error { return &net.OpError{Op: "write", Net: "tcp", Err: e} }},
		{"url.Error", func(e error) error {
			return &url.Error{Op: "Post", URL: "https://bridge.secret.example/meek/", Err: e}
		}},
		{"SyscallError", func(e error) error { return os.NewSyscallError("read", e) }},
		{"Errorf(%w)", func(e error) error { return fmt.Errorf("handshake failed: %w", e) }},
	}
}

// initModes: how logging is (re-)initialised along an Init history -- disabled,
// or enabled and written to one log file (obfs4proxy's -enableLogging), the
// same path at every call of the history.
var initModes = []string{"disabled", "file"}

var initLogPath string

func initLog(mode string, unsafe bool) error {
	if mode == "disabled" {
		return log.Init(false, "", unsafe)
	}
	if initLogPath == "" {
		tf, err := os.CreateTemp(os.Getenv("VERIF_WORK"), "c20-init-*.log")
		if err != nil {
			return err
		}
		tf.Close()
		initLogPath = tf.Name()
	}
	return log.Init(true, initLogPath, unsafe)
}

// initToFileScenario: the Init histories with logging enabled and written to a
// file (the same path at every call, as a process that re-reads its flags
// does). Init opens the file at every call, so each history is applied once
// and every shape of depth <= 2 and every address form is evaluated under it.
func initToFileScenario() mc.Scenario {
	return mc.Scenario{Name: "init-histories/log-to-file", Run: func(c *mc.Ctx) {
		defer func() {
			log.Init(false, "", false)
			if initLogPath != "" {
				os.Remove(initLogPath)
				initLogPath = ""
			}
		}()
		ls, ws := leaves(), wrappers()
		type shape struct {
			desc string
			mk   func() error
		}
		var shapes []shape
		for _, l := range ls {
			l := l
			shapes = append(shapes, shape{l.desc, l.mk})
			for _, w := range ws {
				w := w
				shapes = append(shapes, shape{w.desc + "{" + l.desc + "}", func() error { return w.wrap(l.mk()) }})
			}
		}
		n := 0
		for _, hist := range initHistories() {
			for _, u := range hist {
				if err := initLog("file", u); err != nil {
					fail(c, "setup", "init", "%v", err)
					return
				}
			}
			unsafeOn := hist[len(hist)-1]
			for _, sh := range shapes {
				err := sh.mk()
				raw := err.Error()
				out := log.ElideError(err)
				n++
				if unsafeOn && out != raw {
					fail(c, "unsafe-unchanged", "unsafe-changed", "unsafe logging after Init history %v (logging to one file): ElideError(%s) = %q, original text %q", hist, sh.desc, out, raw)
				} else if l := leaks(out); !unsafeOn && l != "" {
					fail(c, "scrubbed", "leak/"+shapeKey(sh.desc), "safe logging (Init history %v, logging to one file): ElideError(%s) = %q reveals %q", hist, sh.desc, out, l)
				}
			}
			for _, f := range addrForms {
				out := log.ElideAddr(f.s)
				n++
				if unsafeOn && out != f.s {
					fail(c, "unsafe-unchanged", "addr/unsafe-changed", "unsafe logging after Init history %v (logging to one file): ElideAddr(%q) = %q", hist, f.s, out)
				} else if l := leaks(out); !unsafeOn && l != "" {
					fail(c, "scrubbed", "addr/leak", "safe logging (Init history %v, logging to one file): ElideAddr(%q) = %q reveals %q", hist, f.s, out, l)
				}
			}
		}
		c.AddExecutions(int64(n))
		c.Count("evaluations_logging_to_file", int64(n))
		c.Observe("n", n)
	}}
}

func initHistories() [][]bool {
	return [][]bool{{false}, {true}, {false, true}, {true, false}, {true, true, false}, {false, false}}
}

func treeScenario(depth int) mc.Scenario {
	return mc.Scenario{Name: fmt.Sprintf("error-trees/depth=%d", depth), Params: map[string]any{"depth": depth}, Weight: 1 << uint(2*depth), Run: func(c *mc.Ctx) {
		ls, ws := leaves(), wrappers()
		n, withCanary := 0, 0
		shapes := map[string]bool{}
		var rec func(d int, desc string, mk func() error)
		check := func(desc string, mk func() error) {
			for _, hist := range initHistories() {
				mode := "disabled"
				for _, u := range hist {
					if err := initLog(mode, u); err != nil {
						fail(c, "setup", "init", "%v", err)
						return
					}
				}
				unsafeOn := hist[len(hist)-1]
				err := mk()
				raw := err.Error()
				var out string
				func() {
					defer func() {
						if r := recover(); r != nil {
							fail(c, "no-panic", "panic", "ElideError(%s) panicked: %v", desc, r)
						}
					}()
					out = log.ElideError(err)
				}()
				n++
				if unsafeOn {
					if out != raw {
						fail(c, "unsafe-unchanged", "unsafe-changed", "unsafe logging after Init history %v: ElideError(%s) = %q, original text %q", hist, desc, out, raw)
					}
					continue
				}
				if leaks(raw) != "" {
					withCanary++
					shapes[desc+" -> "+out] = true
				}
				if l := leaks(out); l != "" {
					fail(c, "scrubbed", "leak/"+shapeKey(desc), "safe logging (Init history %v): ElideError(%s) = %q reveals %q", hist, desc, out, l)
					continue
				}
			}
		}
		rec = func(d int, desc string, mk func() error) {
			check(desc, mk)
			if d >= depth {
				return
			}
			for _, w := range ws {
				w := w
				rec(d+1, w.desc+"{"+desc+"}", func() error { return w.wrap(mk()) })
			}
		}
		for _, l := range ls {
			rec(1, l.desc, l.mk)
		}
		log.Init(false, "", false)
		c.AddExecutions(int64(n))
		c.Count("elide_error_evaluations", int64(n))
		c.Count("inputs_containing_a_canary", int64(withCanary))
		c.Observe("shapes", len(shapes))
		c.AddDistinct(int64(len(shapes)))
	}}
}

// chainScenario: "nested to any depth" -- every leaf under chains of 1..maxDepth
// layers built from one wrapper, and from every ordered pair of wrappers
// alternating (the full trees above stop at depth 4-6).
func chainScenario(maxDepth int) mc.Scenario {
	return mc.Scenario{Name: fmt.Sprintf("error-chains/depth<=%d", maxDepth), Params: map[string]any{"max_depth": maxDepth}, Weight: 50, Run: func(c *mc.Ctx) {
		ls, ws := leaves(), wrappers()
		n := 0
		if err := log.Init(false, "", false); err != nil {
			fail(c, "setup", "init", "%v", err)
			return
		}
		check := func(desc string, err error) {
			raw := err.Error()
			var out string
			func() {
				defer func() {
					if r := recover(); r != nil {
						fail(c, "no-panic", "panic", "ElideError(%s) panicked: %v", desc, r)
					}
				}()
				out = log.ElideError(err)
			}()
			n++
			if leaks(raw) == "" {
				return
			}
			if l := leaks(out); l != "" {
				fail(c, "scrubbed", "leak/deep/"+shapeKey(desc), "safe logging: ElideError(%s) = %q reveals %q", desc, out, l)
			}
		}
		for _, l := range ls {
			for i, w1 := range ws {
				for j, w2 := range ws {
					if j < i {
						continue // (w1,w2) and (w2,w1) differ only in which is outermost at a given depth: both parities are covered below
					}
					err := l.mk()
					desc := l.desc
					for d := 1; d <= maxDepth; d++ {
						w := w1
						if d%2 == 0 {
							w = w2
						}
						err = w.wrap(err)
						if d <= 3 || d >= 5 { // depths 1..3 are in the trees; keep them cheap but present
							desc = fmt.Sprintf("%s x%d{%s}", w.desc, d, l.desc)
							check(fmt.Sprintf("%s/%s alternating, depth %d, leaf %s", w1.desc, w2.desc, d, l.desc), err)
						}
						if c.Failed() {
							return
						}
					}
					_ = desc
				}
			}
		}
		c.AddExecutions(int64(n))
		c.Count("deep_chain_evaluations", int64(n))
		c.Observe("n", n)
	}}
}

// shapeKey: outermost wrapper + innermost leaf identify the failing call site
func shapeKey(desc string) string {
	outer := desc
	if i := strings.IndexAny(desc, "{("); i >= 0 {
		outer = desc[:i]
	}
	inner := desc
	if i := strings.LastIndex(desc, "{"); i >= 0 {
		inner = strings.TrimRight(desc[i+1:], "}")
	}
	if j := strings.Index(inner, "("); j >= 0 {
		inner = inner[:j]
	}
	if outer == inner {
		return outer
	}
	return outer + "/" + inner
}

func addrScenario() mc.Scenario {
	return mc.Scenario{Name: "elide-addr", Run: func(c *mc.Ctx) {
		junk := []string{"", ":", "::", "[", "]", "[]:", ":80", "a:b:c", "[::1", "host:port:extra", "%", "203.0.113.7:", "[2001:db8::beef]", "[2001:db8::beef]:", "2001:db8::beef:443"}
		n := 0
		for _, hist := range initHistories() {
			for _, u := range hist {
				log.Init(false, "", u)
			}
			unsafeOn := hist[len(hist)-1]
			for _, f := range addrForms {
				out := log.ElideAddr(f.s)
				n++
				if unsafeOn {
					if out != f.s {
						fail(c, "unsafe-unchanged", "addr/unsafe-changed", "unsafe logging: ElideAddr(%q) = %q", f.s, out)
					}
					continue
				}
				if l := leaks(out); l != "" {
					fail(c, "scrubbed", "addr/leak", "ElideAddr(%q) = %q reveals %q (Init history %v)", f.s, out, l, hist)
					continue
				}
				if f.port != "" && !strings.HasSuffix(out, ":"+f.port) {
					c.Count("addr_port_dropped", 1) // allowed: "at most the port survives"
				}
				if strings.ContainsAny(strings.TrimSuffix(out, ":"+f.port), "0123456789") {
					fail(c, "scrubbed", "addr/digits", "ElideAddr(%q) = %q keeps more than the port", f.s, out)
				}
				c.Observe(f.s, out)
			}
			for _, j := range junk {
				var out string
				func() {
					defer func() {
						if r := recover(); r != nil {
							fail(c, "no-panic", "addr/panic", "ElideAddr(%q) panicked: %v", j, r)
						}
					}()
					out = log.ElideAddr(j)
				}()
				n++
				if unsafeOn && out != j {
					fail(c, "unsafe-unchanged", "addr/unsafe-changed", "unsafe logging: ElideAddr(%q) = %q", j, out)
				}
				if !unsafeOn {
					if l := leaks(out); l != "" {
						fail(c, "scrubbed", "addr/leak", "ElideAddr(%q) = %q reveals %q", j, out, l)
					}
				}
			}
		}
		log.Init(false, "", false)
		c.AddExecutions(int64(n))
		c.Count("elide_addr_evaluations", int64(n))
	}}
}

func init() {
	if os.Getenv("VERIF_HARNESS") != "C20" {
		return
	}
	mc.Main("C20", func(cfg *mc.Config, emit func(mc.Scenario)) {
		d := 4
		if cfg.Thorough() {
			d = 6
		}
		for k := 1; k <= d; k++ {
			emit(treeScenario(k))
		}
		emit(addrScenario())
		emit(initToFileScenario())
		cd := 24
		if cfg.Thorough() {
			cd = 80
		}
		emit(chainScenario(cd))
		handlerScenarios(cfg, emit)
	})
	os.Exit(0)
}
