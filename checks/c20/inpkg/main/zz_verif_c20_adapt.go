//go:build verif

package main

import (
	"net"
	"net/url"
	"sync"

	pt "gitlab.torproject.org/tpo/anti-censorship/pluggable-transports/goptlib"

	"gitlab.com/yawning/obfs4.git/transports/base"
)

// (calls the private connection handlers directly; vcheck swaps in the .stub
// next to this file when it stops compiling)
const verifHandlersAvailable = true

var verifTermMonOnce sync.Once

// the handlers report to the package-level termination monitor, which
// obfs4proxy's main() creates and waits on
func verifEnsureTermMon() {
	verifTermMonOnce.Do(func() {
		termMon = newTermMonitor()
		go termMon.wait(false)
	})
}

func verifClientHandler(f base.ClientFactory, conn net.Conn) { clientHandler(f, conn, nil) }

func verifClientHandlerVia(f base.ClientFactory, conn net.Conn, proxyURI *url.URL) {
	clientHandler(f, conn, proxyURI)
}

func verifServerHandler(f base.ServerFactory, conn net.Conn, info *pt.ServerInfo) {
	serverHandler(f, conn, info)
}
