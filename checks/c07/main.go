//go:build verif

// C07: Elligator 2 key generation and decoding are consistent and uniform-looking.
package main

import (
	"bytes"
	"crypto/sha512"
	"fmt"
	"math/big"

	"golang.org/x/crypto/curve25519"

	"gitlab.com/yawning/obfs4.git/common/ntor"
	"gitlab.com/yawning/obfs4.git/internal/x25519ell2"
	"gitlab.com/yawning/obfs4.git/internal/zzverif/mc"
	"gitlab.com/yawning/obfs4.git/internal/zzverif/ref"
	"gitlab.com/yawning/obfs4.git/internal/zzverif/rnd"
	"gitlab.com/yawning/obfs4.git/internal/zzverif/sched"
)

func fail(c *mc.Ctx, oracle, key, format string, a ...any) {
	c.Fail(oracle, "C07/"+key, format, a...)
}

func arr(b []byte) *[32]byte {
	var a [32]byte
	copy(a[:], b)
	return &a
}

var half = new(big.Int).Rsh(new(big.Int).Sub(ref.P, big.NewInt(1)), 1)

// checkKey runs ScalarBaseMult for (priv, tweak) and compares with the reference.
// cosetOf records, per low-3-bit pattern, which torsion multiple was added.
func checkKey(c *mc.Ctx, priv []byte, tweaks []byte, cands []*big.Int, cosetOf map[byte]int, other []byte) (hadRepr bool) {
	low := priv[0] & 7
	for _, tw := range tweaks {
		var pub, repr [32]byte
		p := arr(priv)
		ok := x25519ell2.ScalarBaseMult(&pub, &repr, p, tw)
		if !bytes.Equal(p[:], priv) {
			fail(c, "no-side-effects", "side-effect/private-key", "ScalarBaseMult modified the private key argument")
			return
		}
		if !ok {
			// no representative: the dirty public key must be one the reference
			// says has none.  Which coset the key lands in is known once the
			// pattern has been seen with a successful key.
			if j, known := cosetOf[low]; known && ref.HasRepresentative(cands[j]) {
				fail(c, "exists", "exists/false-negative", "key %x tweak %#x: reported 'no representative' but the reference finds one for its public key", priv, tw)
				return
			}
			continue
		}
		hadRepr = true
		u := ref.LE(pub[:])
		// the public key is clean(priv) + one of the eight torsion points
		j := -1
		for k, cand := range cands {
			if cand.Cmp(u) == 0 {
				j = k
			}
		}
		if j < 0 {
			fail(c, "public-key", "public-key/not-a-coset-member", "key %x: public key %x is not clamp(k)*B + T for any 8-torsion point T", priv, pub)
			return
		}
		if prev, known := cosetOf[low]; known && prev != j {
			fail(c, "public-key", "public-key/coset-selection", "keys with low bits %03b land in different cosets (%d and %d)", low, prev, j)
			return
		}
		cosetOf[low] = j
		if !ref.HasRepresentative(u) {
			fail(c, "exists", "exists/false-positive", "key %x: returned a representative although the reference says the public key has none", priv)
			return
		}
		// representative: top bits from the tweak, low 254 bits a canonical preimage
		if repr[31]&0xc0 != tw&0xc0 {
			fail(c, "tweak-bits", "tweak-bits", "key %x tweak %#x: top two bits of the representative are %#x, tweak has %#x", priv, tw, repr[31]&0xc0, tw&0xc0)
			return
		}
		low254 := append([]byte{}, repr[:]...)
		low254[31] &= 0x3f
		r := ref.LE(low254)
		pre := ref.Preimages(u)
		if r.Cmp(half) > 0 || (r.Cmp(pre[0]) != 0 && r.Cmp(pre[1]) != 0) {
			fail(c, "representative", "representative/non-canonical", "key %x tweak %#x: representative value is not a canonical (<= (p-1)/2) preimage of the public key", priv, tw)
			return
		}
		if ref.RepresentativeToU(repr[:]).Cmp(u) != 0 {
			fail(c, "round-trip", "round-trip/reference", "key %x: reference decoding of the representative does not give the public key", priv)
			return
		}
		// decoding the representative yields exactly the public key, and leaves it alone
		var dec [32]byte
		before := repr
		x25519ell2.RepresentativeToPublicKey(&dec, &repr)
		if dec != pub {
			fail(c, "round-trip", "round-trip/decode", "key %x tweak %#x: decoding the representative gives %x, public key is %x", priv, tw, dec, pub)
			return
		}
		if repr != before {
			fail(c, "no-side-effects", "side-effect/representative", "RepresentativeToPublicKey modified its input (%x -> %x)", before, repr)
			return
		}
		// DH with the dirty key agrees with standard X25519 on the clean key
		cleanMine, _ := curve25519.X25519(priv, curve25519.Basepoint)
		otherPub, _ := curve25519.X25519(other, curve25519.Basepoint)
		a, errA := curve25519.X25519(other, pub[:])
		b, errB := curve25519.X25519(priv, otherPub)
		if errA != nil || errB != nil || !bytes.Equal(a, b) {
			fail(c, "dh", "dh/agreement", "key %x: X25519(k2, dirty pub) != X25519(k1, clean pub2) (%v %v)", priv, errA, errB)
			return
		}
		cleanDH, _ := curve25519.X25519(other, cleanMine)
		if !bytes.Equal(a, cleanDH) {
			fail(c, "dh", "dh/clean", "key %x: DH with the dirty public key differs from DH with the clean public key", priv)
			return
		}
		c.Observe(fmt.Sprintf("%x/%x", priv[:4], tw), fmt.Sprintf("%x", repr[:4]))
		c.Case(fmt.Sprintf("key %x tweak %x", priv, tw), fmt.Sprintf("%x", repr))
	}
	return
}

func keyScenario(name string, keys [][]byte, tweaks []byte, needAllCosets bool) mc.Scenario {
	return mc.Scenario{Name: name, Params: map[string]any{"keys": len(keys), "tweaks": len(tweaks)}, Weight: len(keys), Run: func(c *mc.Ctx) {
		other := rnd.New(1, "c07-other").Bytes(32)
		cosetOf := map[byte]int{}
		with := 0
		for _, k := range keys {
			cands := ref.DirtyCandidates(k)
			if checkKey(c, k, tweaks, cands, cosetOf, other) {
				with++
			}
			if c.Failed() {
				return
			}
		}
		c.AddExecutions(int64(len(keys) * len(tweaks)))
		c.Count("keys_with_representative", int64(with))
		c.Count("key_tweak_evaluations", int64(len(keys)*len(tweaks)))
		if needAllCosets {
			seen := map[int]bool{}
			for _, j := range cosetOf {
				seen[j] = true
			}
			if len(cosetOf) == 8 && len(seen) != 8 {
				fail(c, "cosets", "cosets/not-all-eight", "the eight low-bit patterns select only %d distinct cosets of the prime-order subgroup: %v", len(seen), cosetOf)
			}
			if len(cosetOf) < 8 {
				fail(c, "cosets", "cosets/pattern-never-succeeded", "only %d of the 8 low-bit patterns ever produced a representative", len(cosetOf))
			}
		}
	}}
}

func decodeScenario(name string, strs [][]byte) mc.Scenario {
	return mc.Scenario{Name: name, Params: map[string]any{"strings": len(strs)}, Weight: len(strs) / 4, Run: func(c *mc.Ctx) {
		n := 0
		for _, s := range strs {
			var outs [4][32]byte
			for tb := 0; tb < 4; tb++ {
				in := append([]byte{}, s...)
				in[31] = in[31]&0x3f | byte(tb)<<6
				a := arr(in)
				x25519ell2.RepresentativeToPublicKey(&outs[tb], a)
				n++
				if !bytes.Equal(a[:], in) {
					fail(c, "no-side-effects", "side-effect/representative", "RepresentativeToPublicKey modified its input (%x -> %x)", in, a[:])
					return
				}
				want := ref.ToLE(ref.RepresentativeToU(in))
				if !bytes.Equal(outs[tb][:], want) {
					fail(c, "decode", "decode/reference", "decoding %x gives %x, the independently computed Elligator 2 map gives %x", in, outs[tb], want)
					return
				}
				// via ntor.Representative
				var r ntor.Representative
				copy(r.Bytes()[:], in)
				pk := r.ToPublic()
				if !bytes.Equal(pk.Bytes()[:], want) || !bytes.Equal(r.Bytes()[:], in) {
					fail(c, "decode", "decode/ntor", "ntor.Representative.ToPublic differs from the reference or modified the representative (%x)", in)
					return
				}
			}
			for tb := 1; tb < 4; tb++ {
				if outs[tb] != outs[0] {
					fail(c, "decode", "decode/top-bits", "decoding %x depends on the two top bits", s)
					return
				}
			}
			c.Observe(fmt.Sprintf("%x", s[:6]), fmt.Sprintf("%x", outs[0][:4]))
			c.Case(fmt.Sprintf("decode %x", s), fmt.Sprintf("%x", outs[0]))
		}
		c.AddExecutions(int64(n))
		c.Count("decode_evaluations", int64(n))
	}}
}

// unluckyStreak: the random source yields a run of N candidates that have no
// representative before one that has: NewKeypair must still return a key pair
// that satisfies the property (or an error), whatever the length of the run.
func unluckyStreak(seed int64, N int) mc.Scenario {
	return mc.Scenario{Name: fmt.Sprintf("ntor-newkeypair/unlucky-streak-%d", N), Weight: 1 + N/20, Run: func(c *mc.Ctx) {
		src := rnd.New(seed, "c07-streak")
		var script []byte
		for n := 0; n < N; {
			in := src.Bytes(32)
			d := sha512.Sum512(in)
			var priv, pub, repr [32]byte
			copy(priv[:], d[:32])
			if !x25519ell2.ScalarBaseMult(&pub, &repr, &priv, d[63]) {
				script = append(script, in...)
				n++
			}
		}
		st := rnd.New(seed, "c07-streak-tail")
		st.Script = script
		rnd.Install(st)
		kp, err := ntor.NewKeypair(true)
		c.AddExecutions(1)
		if err != nil {
			c.Observe("streak", "error")
			return // reporting failure is allowed
		}
		if !checkKeypair(c, kp, fmt.Sprintf("NewKeypair after %d candidates without a representative", N)) {
			return
		}
		// (how much entropy an attempt consumes is not part of the property: if
		// the scripted run was not consumed as 32-byte candidates the scenario
		// merely covers less; the counter shows it)
		if st.Reads >= int64(32*(N+1)) {
			c.Count("streaks_fully_consumed", 1)
		}
		c.Observe("streak", fmt.Sprintf("%x", kp.Representative().Bytes()[:4]))
	}}
}

// concurrentKeygen: n threads generate (and decode) keys at the same time, with
// scheduling points at every statement of the x25519ell2 functions.  The
// functions are pure: every thread must obtain what it obtains alone.
func concurrentKeygen(seed int64, nthreads, bound int) mc.Scenario {
	return mc.Scenario{Name: fmt.Sprintf("concurrent-keygen/%d-threads", nthreads), Bound: bound, Weight: 100, Run: func(c *mc.Ctx) {
		type job struct {
			priv            [32]byte
			tweak           byte
			pub, repr, back [32]byte
			ok              bool
		}
		var want, got []*job
		src := rnd.New(seed, "c07-conc")
		for len(want) < nthreads {
			j := &job{tweak: byte(0x40 * len(want))}
			copy(j.priv[:], src.Bytes(32))
			j.ok = x25519ell2.ScalarBaseMult(&j.pub, &j.repr, &j.priv, j.tweak)
			if !j.ok && len(want) != nthreads-1 {
				continue // at most the last thread works on a key without representative
			}
			if j.ok {
				x25519ell2.RepresentativeToPublicKey(&j.back, &j.repr)
			}
			want = append(want, j)
			got = append(got, &job{priv: j.priv, tweak: j.tweak})
		}
		res := sched.Run(c, sched.Options{PreemptKinds: []string{"stmt"}, MaxSteps: 1_000_000}, func() {
			s := sched.Cur()
			for i := range got {
				j := got[i]
				s.Spawn(fmt.Sprintf("keygen%d", i), func() {
					j.ok = x25519ell2.ScalarBaseMult(&j.pub, &j.repr, &j.priv, j.tweak)
					if j.ok {
						x25519ell2.RepresentativeToPublicKey(&j.back, &j.repr)
					}
				})
			}
		})
		if len(res.Panics) > 0 {
			fail(c, "concurrent", "concurrent/panic", "%s", res.Panics[0])
			return
		}
		for i := range got {
			if *got[i] != *want[i] {
				fail(c, "concurrent", "concurrent/differs", "thread %d (private key %x): concurrently ok=%v pub=%x repr=%x decode=%x, alone ok=%v pub=%x repr=%x decode=%x", i, want[i].priv[:4], got[i].ok, got[i].pub[:6], got[i].repr[:6], got[i].back[:6], want[i].ok, want[i].pub[:6], want[i].repr[:6], want[i].back[:6])
				return
			}
		}
		c.Observe("ok", nthreads)
	}}
}

// entropyFailure: the random source breaks at its k-th read, possibly after a
// run of rejected candidates: NewKeypair reports the failure or returns a key
// pair that satisfies the property -- never garbage with a nil error.
func entropyFailure(seed int64, streak, failAt int) mc.Scenario {
	return mc.Scenario{Name: fmt.Sprintf("ntor-newkeypair/entropy-failure/after-%d-rejected/read-%d", streak, failAt), Weight: 1, Run: func(c *mc.Ctx) {
		src := rnd.New(seed, "c07-streak")
		var script []byte
		for n := 0; n < streak; {
			in := src.Bytes(32)
			d := sha512.Sum512(in)
			var priv, pub, repr [32]byte
			copy(priv[:], d[:32])
			if !x25519ell2.ScalarBaseMult(&pub, &repr, &priv, d[63]) {
				script = append(script, in...)
				n++
			}
		}
		for _, ell := range []bool{true, false} {
			st := rnd.New(seed, "c07-entropy-tail")
			st.Script = append([]byte{}, script...)
			st.FailAfter = failAt
			rnd.Install(st)
			kp, err := ntor.NewKeypair(ell)
			c.AddExecutions(1)
			if err != nil {
				c.Observe(fmt.Sprint(ell), "error")
				continue
			}
			if ell {
				if !checkKeypair(c, kp, fmt.Sprintf("NewKeypair(elligator) with the random source failing at its read %d after %d rejected candidates returned no error", failAt, streak)) {
					return
				}
			} else {
				var want [32]byte
				curve25519.ScalarBaseMult(&want, kp.Private().Bytes())
				if want != *kp.Public().Bytes() {
					fail(c, "keypair", "keypair/entropy-failure", "NewKeypair(false) with the random source failing at its read %d returned no error and a public key that is not the public key of its private key", failAt)
					return
				}
				var zero [32]byte
				if *kp.Private().Bytes() == zero {
					fail(c, "keypair", "keypair/entropy-failure", "NewKeypair(false) with a failing random source returned an all-zero private key and no error")
					return
				}
			}
			c.Observe(fmt.Sprint(ell), "keypair")
		}
	}}
}

// checkKeypair applies the C07 oracle to one generated ntor key pair.
func checkKeypair(c *mc.Ctx, kp *ntor.Keypair, what string) bool {
	repr0 := *kp.Representative()
	pk := kp.Representative().ToPublic()
	if !bytes.Equal(pk.Bytes()[:], kp.Public().Bytes()[:]) {
		fail(c, "keypair", "keypair/round-trip", "%s: Representative().ToPublic() != Public()", what)
		return false
	}
	if ref.RepresentativeToU(repr0[:]).Cmp(ref.LE(kp.Public().Bytes()[:])) != 0 {
		fail(c, "keypair", "keypair/reference", "%s: reference decoding of the representative differs from the public key", what)
		return false
	}
	found := false
	for _, cand := range ref.DirtyCandidates(kp.Private().Bytes()[:]) {
		if cand.Cmp(ref.LE(kp.Public().Bytes()[:])) == 0 {
			found = true
		}
	}
	if !found {
		fail(c, "keypair", "keypair/coset", "%s: public key %x is not clamp(k)*B + T for the returned private key", what, kp.Public().Bytes()[:])
		return false
	}
	return true
}

func keypairScenario(seed int64, K int) mc.Scenario {
	return mc.Scenario{Name: "ntor-newkeypair", Weight: K / 8, Run: func(c *mc.Ctx) {
		topBits := map[byte]bool{}
		for i := 0; i < K; i++ {
			rnd.Install(rnd.New(seed, fmt.Sprint("c07-nk-", i)))
			kp, err := ntor.NewKeypair(true)
			if err != nil {
				fail(c, "keypair", "keypair/error", "%v", err)
				return
			}
			repr0 := *kp.Representative()
			pk := kp.Representative().ToPublic()
			if !bytes.Equal(pk.Bytes()[:], kp.Public().Bytes()[:]) {
				fail(c, "keypair", "keypair/round-trip", "NewKeypair: Representative().ToPublic() != Public()")
				return
			}
			if *kp.Representative() != repr0 {
				fail(c, "no-side-effects", "side-effect/keypair-representative", "ToPublic() changed the keypair's own representative (%x -> %x)", repr0, *kp.Representative())
				return
			}
			if ref.RepresentativeToU(repr0[:]).Cmp(ref.LE(kp.Public().Bytes()[:])) != 0 {
				fail(c, "keypair", "keypair/reference", "NewKeypair: reference decoding of the representative differs from the public key")
				return
			}
			// the public key is a dirty key of the private key
			found := false
			for _, cand := range ref.DirtyCandidates(kp.Private().Bytes()[:]) {
				if cand.Cmp(ref.LE(kp.Public().Bytes()[:])) == 0 {
					found = true
				}
			}
			if !found {
				fail(c, "keypair", "keypair/coset", "NewKeypair: public key is not clamp(k)*B + T")
				return
			}
			topBits[repr0[31]&0xc0] = true
			c.Observe(fmt.Sprint(i), fmt.Sprintf("%x", repr0[:4]))
		}
		if K >= 64 && len(topBits) != 4 {
			fail(c, "tweak-bits", "tweak-bits/keypair", "%d generated representatives show only %d of the 4 top-bit patterns", K, len(topBits))
		}
		c.AddExecutions(int64(K))
	}}
}

func main() {
	mc.Main("C07", func(cfg *mc.Config, emit func(mc.Scenario)) {
		thorough := cfg.Thorough()
		allTweaks := make([]byte, 256)
		for i := range allTweaks {
			allTweaks[i] = byte(i)
		}
		fewTweaks := []byte{0, 1, 0x3f, 0x40, 0x80, 0xc0, 0xff}
		le := func(x *big.Int) []byte { return ref.ToLE(x) }
		one := big.NewInt(1)
		pow := func(n uint) *big.Int { return new(big.Int).Lsh(one, n) }
		structured := [][]byte{
			make([]byte, 32), le(one), bytes.Repeat([]byte{0xff}, 32), le(new(big.Int).Sub(pow(254), one)),
			le(new(big.Int).Sub(ref.P, one)), le(ref.P),
		}
		emit(keyScenario("keys/structured/all-tweaks", structured, allTweaks, false))
		var single, adjacent [][]byte
		for b := uint(0); b < 256; b++ {
			single = append(single, le(pow(b)))
			if b < 255 {
				adjacent = append(adjacent, le(new(big.Int).Add(pow(b), pow(b+1))))
			}
		}
		step := 2
		if thorough {
			step = 1
		}
		var sel [][]byte
		for i := 0; i < len(single); i += step {
			sel = append(sel, single[i])
		}
		for lo := 0; lo < len(sel); lo += 16 {
			hi := lo + 16
			if hi > len(sel) {
				hi = len(sel)
			}
			emit(keyScenario(fmt.Sprintf("keys/single-bit/%d", lo), sel[lo:hi], fewTweaks, false))
		}
		sel = nil
		for i := 0; i < len(adjacent); i += step * 2 {
			sel = append(sel, adjacent[i])
		}
		for lo := 0; lo < len(sel); lo += 16 {
			hi := lo + 16
			if hi > len(sel) {
				hi = len(sel)
			}
			emit(keyScenario(fmt.Sprintf("keys/adjacent-bits/%d", lo), sel[lo:hi], fewTweaks, false))
		}
		// the eight low-3-bit patterns on K pseudo-random high parts: all eight cosets
		K := 16
		if thorough {
			K = 512
		}
		for h := 0; h < K; h += 2 {
			var ks [][]byte
			for hh := h; hh < h+2; hh++ {
				base := rnd.New(cfg.Seed, fmt.Sprint("c07-high-", hh)).Bytes(32)
				for lowbits := byte(0); lowbits < 8; lowbits++ {
					k := append([]byte{}, base...)
					k[0] = k[0]&^7 | lowbits
					ks = append(ks, k)
				}
			}
			emit(keyScenario(fmt.Sprintf("keys/low-bits/high%d", h), ks, fewTweaks, false))
		}
		// one scenario that needs all eight patterns to succeed at least once
		{
			var ks [][]byte
			for i := 0; i < 10; i++ {
				base := rnd.New(cfg.Seed, fmt.Sprint("c07-cos-", i)).Bytes(32)
				for lowbits := byte(0); lowbits < 8; lowbits++ {
					k := append([]byte{}, base...)
					k[0] = k[0]&^7 | lowbits
					ks = append(ks, k)
				}
			}
			emit(keyScenario("keys/all-eight-cosets", ks, []byte{0, 0xc1}, true))
		}
		// decoding of arbitrary strings
		vals := []*big.Int{big.NewInt(0), one, big.NewInt(2), half, new(big.Int).Sub(half, one), new(big.Int).Add(half, one),
			new(big.Int).Sub(ref.P, one), new(big.Int).Sub(pow(254), one), pow(254), new(big.Int).Add(pow(254), one),
			new(big.Int).Sub(pow(255), one), new(big.Int).Sub(pow(256), one), new(big.Int).Sub(pow(255), big.NewInt(19))}
		var strs [][]byte
		for _, v := range vals {
			strs = append(strs, le(v))
		}
		strs = append(strs, single...)
		for _, u := range ref.LowOrderU() {
			for _, p := range ref.Preimages(new(big.Int).Mod(u, ref.P)) {
				strs = append(strs, le(p))
			}
		}
		KR := 256
		if thorough {
			KR = 60000
		}
		for i := 0; i < KR; i++ {
			strs = append(strs, rnd.New(cfg.Seed, fmt.Sprint("c07-str-", i)).Bytes(32))
		}
		for lo := 0; lo < len(strs); lo += 48 {
			hi := lo + 48
			if hi > len(strs) {
				hi = len(strs)
			}
			emit(decodeScenario(fmt.Sprintf("decode/%d", lo), strs[lo:hi]))
		}
		nk := 64
		if thorough {
			nk = 8192
		}
		emit(keypairScenario(cfg.Seed, nk))
		if thorough {
			emit(concurrentKeygen(cfg.Seed, 2, 3))
			emit(concurrentKeygen(cfg.Seed, 3, 2))
		} else {
			emit(concurrentKeygen(cfg.Seed, 2, 2))
			emit(concurrentKeygen(cfg.Seed, 3, 1))
		}
		for _, streak := range []int{0, 1, 3} {
			emit(entropyFailure(cfg.Seed, streak, streak+1))
			emit(entropyFailure(cfg.Seed, streak, streak+2))
		}
		for _, n := range []int{1, 63, 64, 65, 130} {
			emit(unluckyStreak(cfg.Seed, n))
		}
	})
}
