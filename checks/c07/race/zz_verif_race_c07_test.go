//go:build verif

package x25519ell2

// Free-running -race body for C07: concurrent obfuscated key generation and
// decoding (every obfs4 connection does this on its own goroutine).

import (
	"crypto/sha512"
	"os"
	"strconv"
	"sync"
	"testing"
)

func TestVerifRaceC07Keygen(t *testing.T) {
	iters, _ := strconv.Atoi(os.Getenv("VERIF_RACE_ITERS"))
	if iters < 1 {
		iters = 1
	}
	for it := 0; it < iters; it++ {
		var wg sync.WaitGroup
		for g := 0; g < 8; g++ {
			wg.Add(1)
			go func(g int) {
				defer wg.Done()
				for i := 0; i < 40; i++ {
					d := sha512.Sum512([]byte{byte(g), byte(i), byte(it)})
					var priv, pub, repr, back [32]byte
					copy(priv[:], d[:32])
					if !ScalarBaseMult(&pub, &repr, &priv, d[63]) {
						continue
					}
					RepresentativeToPublicKey(&back, &repr)
					if back != pub {
						t.Errorf("decode(representative) != public key")
					}
				}
			}(g)
		}
		wg.Wait()
	}
}
