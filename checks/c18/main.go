//go:build verif

// C18: a bridge keeps its identity across restarts and crashes; bridge lines round-trip.
package main

import (
	"bytes"
	"encoding/base32"
	"encoding/hex"
	"encoding/json"
	"fmt"
	"net"
	"os"
	"os/exec"
	"path/filepath"
	"regexp"
	"sort"
	"strconv"
	"strings"
	"time"

	pt "gitlab.torproject.org/tpo/anti-censorship/pluggable-transports/goptlib"

	"gitlab.com/yawning/obfs4.git/internal/zzverif/mc"
	"gitlab.com/yawning/obfs4.git/internal/zzverif/ref"
	"gitlab.com/yawning/obfs4.git/internal/zzverif/rnd"
	"gitlab.com/yawning/obfs4.git/internal/zzverif/sched"
	"gitlab.com/yawning/obfs4.git/internal/zzverif/wire"
	"gitlab.com/yawning/obfs4.git/transports/obfs4"
	"gitlab.com/yawning/obfs4.git/transports/scramblesuit"
)

func fail(c *mc.Ctx, oracle, key, format string, a ...any) {
	c.Fail(oracle, "C18/"+key, format, a...)
}

// ---- helper mode (runs in a child process, possibly under strace) --------------------------

type startOut struct {
	OK         bool   `json:"ok"`
	Err        string `json:"err,omitempty"`
	Cert       string `json:"cert,omitempty"`
	IAT        string `json:"iat,omitempty"`
	NodeID     string `json:"nodeid,omitempty"`     // from ParseArgs(cert form)
	PubKey     string `json:"pubkey,omitempty"`     // from ParseArgs(cert form)
	LegacyNode string `json:"legacynode,omitempty"` // from ParseArgs(legacy form built from the state file)
	LegacyPub  string `json:"legacypub,omitempty"`
	StateNode  string `json:"statenode,omitempty"` // node-id in obfs4_state.json
	StatePriv  string `json:"statepriv,omitempty"`
	StatePub   string `json:"statepub,omitempty"`
	StateIAT   int    `json:"stateiat"`
	BridgeLine string `json:"bridgeline,omitempty"`
	Kind       string `json:"kind,omitempty"` // ss-connect: handshake the server saw
	Ticket     string `json:"ticket,omitempty"`
}

func helperStart(dir string, kvs []string) startOut {
	var o startOut
	args := pt.Args{}
	for _, kv := range kvs {
		if i := strings.IndexByte(kv, '='); i > 0 {
			args.Add(kv[:i], kv[i+1:])
		}
	}
	sf, err := (&obfs4.Transport{}).ServerFactory(dir, &args)
	if err != nil {
		o.Err = err.Error()
		return o
	}
	o.OK = true
	a := sf.Args()
	o.Cert, _ = a.Get("cert")
	o.IAT, _ = a.Get("iat-mode")
	cf, _ := (&obfs4.Transport{}).ClientFactory("")
	if pa, err := cf.ParseArgs(a); err == nil {
		if n, p, _, ok := obfs4.VerifClientArgs(pa); ok {
			o.NodeID, o.PubKey = hex.EncodeToString(n), hex.EncodeToString(p)
		}
	} else {
		o.Err = "ParseArgs(cert form): " + err.Error()
	}
	// the state file as persisted by this start
	if b, err := os.ReadFile(filepath.Join(dir, "obfs4_state.json")); err == nil {
		var js map[string]any
		if json.Unmarshal(b, &js) == nil {
			o.StateNode, _ = js["node-id"].(string)
			o.StatePriv, _ = js["private-key"].(string)
			o.StatePub, _ = js["public-key"].(string)
			if f, ok := js["iat-mode"].(float64); ok {
				o.StateIAT = int(f)
			}
		}
	}
	// legacy form: node-id + public-key (hex) + iat-mode
	if o.StateNode != "" && o.PubKey != "" {
		la := pt.Args{}
		la.Add("node-id", o.StateNode)
		la.Add("public-key", o.PubKey)
		la.Add("iat-mode", o.IAT)
		if pa, err := cf.ParseArgs(&la); err == nil {
			if n, p, _, ok := obfs4.VerifClientArgs(pa); ok {
				o.LegacyNode, o.LegacyPub = hex.EncodeToString(n), hex.EncodeToString(p)
			}
		} else {
			o.Err = "ParseArgs(legacy form): " + err.Error()
		}
	}
	if b, err := os.ReadFile(filepath.Join(dir, "obfs4_bridgeline.txt")); err == nil {
		for _, l := range strings.Split(string(b), "\n") {
			if strings.HasPrefix(l, "Bridge obfs4") {
				o.BridgeLine = l
			}
		}
	}
	return o
}

var ssKB = bytes.Repeat([]byte{0x42}, 20)

// helperSS performs ClientFactory(dir) and optionally one connection against the
// in-process reference server (issuing a ticket if issue is set).  tickets is
// the server's table (hex ticket -> hex key) passed through a file.
func helperSS(dir string, connect bool, issue bool, tableFile string) startOut {
	var o startOut
	cf, err := (&scramblesuit.Transport{}).ClientFactory(dir)
	if err != nil {
		o.Err = "ClientFactory: " + err.Error()
		return o
	}
	o.OK = true
	if !connect {
		return o
	}
	table := map[string]string{}
	if b, err := os.ReadFile(tableFile); err == nil {
		json.Unmarshal(b, &table)
	}
	tickets := map[string][]byte{}
	for t, k := range table {
		tb, _ := hex.DecodeString(t)
		kb, _ := hex.DecodeString(k)
		tickets[string(tb)] = kb
	}
	r := rnd.New(int64(os.Getpid()), "c18-ss")
	var newT []byte
	if issue {
		newT = make([]byte, 144)
		f, _ := os.Open("/dev/urandom")
		f.Read(newT)
		f.Close()
	}
	var dialErr, srvErr error
	var rs *ref.SSSession
	finished := false
	res := runSched(func() {
		s := sched.Cur()
		cw, sw := wire.Pipe("client", "server")
		if a := os.Getenv("VERIF_C18_SS_ADDR"); a != "" {
			// which bridge this connection goes to (the ticket store is keyed by
			// the address of the connection the dial function returns)
			if ta, err := net.ResolveTCPAddr("tcp", a); err == nil {
				cw.Remote = ta
			}
		}
		_ = s
		done := false
		s.Spawn("ref-server", func() {
			defer func() { done = true }()
			rs, srvErr = ref.SSServe(sw, ref.SSServerOpts{KB: ssKB, Priv: r.Bytes(192), PadLen: 3, Hour: time.Now().Unix() / 3600, Seed: bytes.Repeat([]byte{9}, 32), Issue: newT, Tickets: tickets, Separate: true}, r)
			if srvErr != nil {
				sw.Close()
				return
			}
			// answer the client's first bytes (data coalesced with the handshake
			// response is only delivered once more traffic follows)
			if err := rs.RecvUntil(4); err != nil {
				srvErr = err
				sw.Close()
				return
			}
			rs.Send([]byte("hello"), 0)
			for {
				if _, err := rs.RecvOnce(); err != nil {
					break
				}
			}
			sw.Close()
		})
		a := pt.Args{}
		a.Add("password", base32.StdEncoding.EncodeToString(ssKB))
		pa, err := cf.ParseArgs(&a)
		if err != nil {
			dialErr = err
			return
		}
		conn, err := cf.Dial("tcp", "x", func(string, string) (net.Conn, error) { return cw, nil }, pa)
		if err != nil {
			dialErr = err
			cw.Close()
			return
		}
		conn.Write([]byte("ping"))
		buf := make([]byte, 16)
		got := 0
		for got < 5 {
			n, err := conn.Read(buf)
			got += n
			if err != nil {
				dialErr = fmt.Errorf("Read: %w", err)
				break
			}
		}
		if os.Getenv("C18_DEBUG") != "" {
			ents, _ := os.ReadDir(dir)
			fmt.Fprintln(os.Stderr, "DEBUG client reads", cw.ReadSizes, "got", got, "dir entries", len(ents), "remote", conn.RemoteAddr())
		}
		conn.Close()
		finished = true
		s.Point("wait", func() bool { return done })
	})
	if res == "" && !finished && dialErr == nil && srvErr == nil {
		res = "the client connection never completed (stuck)"
	}
	if res != "" {
		o.OK, o.Err = false, "panic: "+res
		return o
	}
	if dialErr != nil || srvErr != nil {
		o.OK = false
		o.Err = fmt.Sprintf("connect: client=%v server=%v", dialErr, srvErr)
		return o
	}
	o.Kind = rs.Kind
	o.Ticket = hex.EncodeToString([]byte(rs.Ticket))
	if os.Getenv("C18_DEBUG") != "" {
		fmt.Fprintln(os.Stderr, "DEBUG pktends", rs.PktEnds, "newT", len(newT), "issue", issue)
	}
	if newT != nil {
		table[hex.EncodeToString(newT[32:])] = hex.EncodeToString(newT[:32])
		b, _ := json.Marshal(table)
		os.WriteFile(tableFile, b, 0o600)
	}
	return o
}

func runSched(body func()) string {
	st := mc.NewStandaloneCtx()
	res := sched.Run(st, sched.Options{NoPreempt: true, NoEarlyTimers: true}, body)
	if len(res.Panics) > 0 {
		return res.Panics[0]
	}
	return ""
}

func helperMain(args []string) {
	var o startOut
	// identities a start generates come from a scripted random source chosen by
	// the parent (scenario name + call number), so that a failure that depends
	// on the generated identity reproduces
	if l := os.Getenv("VERIF_C18_RND"); l != "" {
		rnd.Install(rnd.New(1, "c18-helper-"+l))
	}
	switch args[0] {
	case "start":
		o = helperStart(args[1], args[2:])
	case "ss-factory":
		o = helperSS(args[1], false, false, "")
	case "ss-connect":
		o = helperSS(args[1], true, args[2] == "1", args[3])
	}
	b, _ := json.Marshal(o)
	fmt.Println("HELPER-RESULT " + string(b))
}

// ---- parent side: running the helper, tracing, crash-state construction ----------------------

var self string

// helperScope/helperCalls name the scripted random source of the next helper
// process: set at the start of every scenario body.
var (
	helperScope string
	helperCalls int
)

func runHelper(trace string, args ...string) (startOut, error) {
	var cmd *exec.Cmd
	full := append([]string{"helper"}, args...)
	if trace != "" {
		sa := []string{"-f", "-xx", "-s", "4000000", "-e", "trace=openat,open,creat,write,pwrite64,writev,rename,renameat,renameat2,unlink,unlinkat,mkdir,mkdirat,rmdir,truncate,ftruncate,close,link,linkat,symlink,symlinkat", "-o", trace, self}
		cmd = exec.Command("strace", append(sa, full...)...)
	} else {
		cmd = exec.Command(self, full...)
	}
	helperCalls++
	cmd.Env = append(os.Environ(), "GOMAXPROCS=1", fmt.Sprintf("VERIF_C18_RND=%s#%d", helperScope, helperCalls))
	out, err := cmd.CombinedOutput()
	var o startOut
	for _, l := range strings.Split(string(out), "\n") {
		if strings.HasPrefix(l, "HELPER-RESULT ") {
			if e := json.Unmarshal([]byte(strings.TrimPrefix(l, "HELPER-RESULT ")), &o); e != nil {
				return o, e
			}
			return o, nil
		}
	}
	return o, fmt.Errorf("helper produced no result (%v): %s", err, tail(string(out), 600))
}

func tail(s string, n int) string {
	if len(s) > n {
		return s[len(s)-n:]
	}
	return s
}

// fsOp is one file-system mutating call inside the state directory.
type fsOp struct {
	Kind  string // "open" (create/trunc), "write", "rename", "unlink", "mkdir", "truncate"
	Path  string // relative to the state dir
	Path2 string
	Data  []byte
	Off   int64
	Trunc bool
	Creat bool
	Size  int64
	Raw   string
}

var reLine = regexp.MustCompile(`^(\d+)\s+(.*)$`)

func unhex(s string) string {
	var b []byte
	for i := 0; i < len(s); {
		if s[i] == '\\' && i+3 < len(s) && s[i+1] == 'x' {
			v, err := strconv.ParseUint(s[i+2:i+4], 16, 8)
			if err == nil {
				b = append(b, byte(v))
				i += 4
				continue
			}
		}
		b = append(b, s[i])
		i++
	}
	return string(b)
}

func quoted(s string) []string {
	var out []string
	for {
		i := strings.IndexByte(s, '"')
		if i < 0 {
			return out
		}
		j := strings.IndexByte(s[i+1:], '"')
		if j < 0 {
			return out
		}
		out = append(out, unhex(s[i+1:i+1+j]))
		s = s[i+1+j+1:]
	}
}

// parseTrace extracts the mutating calls that touch dir, in order.
func parseTrace(file, dir string) ([]fsOp, error) {
	b, err := os.ReadFile(file)
	if err != nil {
		return nil, err
	}
	// merge unfinished/resumed pairs
	pending := map[string]string{}
	var lines []string
	for _, l := range strings.Split(string(b), "\n") {
		m := reLine.FindStringSubmatch(l)
		if m == nil {
			continue
		}
		pid, rest := m[1], m[2]
		if strings.HasSuffix(rest, "<unfinished ...>") {
			pending[pid] = strings.TrimSuffix(rest, "<unfinished ...>")
			lines = append(lines, "@"+pid)
			continue
		}
		if strings.HasPrefix(rest, "<...") {
			if i := strings.Index(rest, "resumed>"); i >= 0 {
				full := pending[pid] + rest[i+len("resumed>"):]
				delete(pending, pid)
				for k := len(lines) - 1; k >= 0; k-- {
					if lines[k] == "@"+pid {
						lines[k] = full
						break
					}
				}
			}
			continue
		}
		lines = append(lines, rest)
	}
	fds := map[string]string{} // fd -> relative path
	offs := map[string]int64{}
	rel := func(p string) (string, bool) {
		if !strings.HasPrefix(p, dir+"/") {
			return "", false
		}
		return strings.TrimPrefix(p, dir+"/"), true
	}
	var ops []fsOp
	for _, l := range lines {
		if strings.HasPrefix(l, "@") || strings.Contains(l, "= -1 ") {
			continue
		}
		name := l
		if i := strings.IndexByte(l, '('); i > 0 {
			name = l[:i]
		}
		ret := ""
		if i := strings.LastIndex(l, "= "); i >= 0 {
			ret = strings.Fields(l[i+2:])[0]
		}
		q := quoted(l)
		switch name {
		case "openat", "open", "creat":
			if len(q) < 1 {
				continue
			}
			p, ok := rel(q[0])
			if !ok {
				continue
			}
			fds[ret] = p
			offs[ret] = 0
			tr, cr := strings.Contains(l, "O_TRUNC") || name == "creat", strings.Contains(l, "O_CREAT") || name == "creat"
			if strings.Contains(l, "O_APPEND") {
				offs[ret] = -1
			}
			if tr || cr {
				ops = append(ops, fsOp{Kind: "open", Path: p, Trunc: tr, Creat: cr, Raw: short(l)})
			}
		case "write", "pwrite64":
			fd := strings.TrimSuffix(strings.TrimPrefix(strings.SplitN(l, ",", 2)[0], name+"("), " ")
			p, ok := fds[fd]
			if !ok || len(q) < 1 {
				continue
			}
			n, _ := strconv.Atoi(ret)
			data := []byte(q[0])
			if n < len(data) {
				data = data[:n]
			}
			ops = append(ops, fsOp{Kind: "write", Path: p, Data: data, Off: offs[fd], Raw: short(l)})
			if offs[fd] >= 0 {
				offs[fd] += int64(len(data))
			}
		case "writev":
			fd := strings.TrimSuffix(strings.TrimPrefix(strings.SplitN(l, ",", 2)[0], name+"("), " ")
			if _, ok := fds[fd]; ok {
				return nil, fmt.Errorf("writev on a state file is not modelled: %s", short(l))
			}
		case "close":
			fd := strings.TrimSuffix(strings.TrimPrefix(l[:strings.IndexByte(l, ')')], "close("), " ")
			delete(fds, fd)
		case "rename", "renameat", "renameat2":
			if len(q) < 2 {
				continue
			}
			p1, ok1 := rel(q[0])
			p2, ok2 := rel(q[1])
			if ok1 && ok2 {
				ops = append(ops, fsOp{Kind: "rename", Path: p1, Path2: p2, Raw: short(l)})
			} else if ok1 || ok2 {
				return nil, fmt.Errorf("rename across the state directory boundary: %s", short(l))
			}
		case "unlink", "unlinkat", "rmdir":
			if len(q) >= 1 {
				if p, ok := rel(q[0]); ok {
					ops = append(ops, fsOp{Kind: "unlink", Path: p, Raw: short(l)})
				}
			}
		case "mkdir", "mkdirat":
			if len(q) >= 1 {
				if p, ok := rel(q[0]); ok {
					ops = append(ops, fsOp{Kind: "mkdir", Path: p, Raw: short(l)})
				}
			}
		case "truncate":
			if len(q) >= 1 {
				if p, ok := rel(q[0]); ok {
					ops = append(ops, fsOp{Kind: "truncate", Path: p, Raw: short(l)})
				}
			}
		case "ftruncate":
			fd := strings.TrimSuffix(strings.TrimPrefix(strings.SplitN(l, ",", 2)[0], name+"("), " ")
			if p, ok := fds[fd]; ok {
				ops = append(ops, fsOp{Kind: "truncate", Path: p, Raw: short(l)})
			}
		case "link", "linkat", "symlink", "symlinkat":
			for _, s := range q {
				if _, ok := rel(s); ok {
					return nil, fmt.Errorf("%s inside the state directory is not modelled: %s", name, short(l))
				}
			}
		}
	}
	return ops, nil
}

func short(s string) string {
	if len(s) > 160 {
		return s[:120] + "..." + s[len(s)-30:]
	}
	return s
}

func copyDir(src, dst string) error {
	os.RemoveAll(dst)
	if err := os.MkdirAll(dst, 0o700); err != nil {
		return err
	}
	ents, err := os.ReadDir(src)
	if err != nil {
		return err
	}
	for _, e := range ents {
		b, err := os.ReadFile(filepath.Join(src, e.Name()))
		if err != nil {
			return err
		}
		if err := os.WriteFile(filepath.Join(dst, e.Name()), b, 0o600); err != nil {
			return err
		}
	}
	return nil
}

// applyOps materialises pre + ops[:k] (+ torn variant of op k-1) in dst.
func applyOps(pre, dst string, ops []fsOp, k int, tornLen int) error {
	if err := copyDir(pre, dst); err != nil {
		return err
	}
	for i := 0; i < k; i++ {
		op := ops[i]
		p := filepath.Join(dst, op.Path)
		switch op.Kind {
		case "open":
			if _, err := os.Stat(p); err != nil && !op.Creat {
				continue
			}
			if op.Trunc {
				if err := os.WriteFile(p, nil, 0o600); err != nil {
					return err
				}
			} else if _, err := os.Stat(p); err != nil {
				os.WriteFile(p, nil, 0o600)
			}
		case "write":
			data := op.Data
			if i == k-1 && tornLen >= 0 && tornLen < len(data) {
				data = data[:tornLen]
			}
			f, err := os.OpenFile(p, os.O_WRONLY|os.O_CREATE, 0o600)
			if err != nil {
				return err
			}
			if op.Off < 0 {
				f.Seek(0, 2)
			} else {
				f.Seek(op.Off, 0)
			}
			f.Write(data)
			f.Close()
		case "rename":
			os.Rename(p, filepath.Join(dst, op.Path2))
		case "unlink":
			os.Remove(p)
		case "mkdir":
			os.MkdirAll(p, 0o700)
		case "truncate":
			os.Truncate(p, 0)
		}
	}
	return nil
}

type crashState struct {
	k    int
	torn int // -1: the k-th call completed
	desc string
}

func crashStates(ops []fsOp, thorough bool) []crashState {
	var out []crashState
	for k := 0; k <= len(ops); k++ {
		d := "before any call"
		if k > 0 {
			d = fmt.Sprintf("after call %d/%d %s(%s)", k, len(ops), ops[k-1].Kind, ops[k-1].Path)
		}
		out = append(out, crashState{k, -1, d})
		if k > 0 && ops[k-1].Kind == "write" {
			n := len(ops[k-1].Data)
			lens := []int{0, 1, n / 2, n - 1}
			if thorough {
				lens = nil
				for t := 0; t < n; t++ {
					lens = append(lens, t)
				}
			}
			seen := map[int]bool{}
			for _, t := range lens {
				if t >= 0 && t < n && !seen[t] {
					seen[t] = true
					out = append(out, crashState{k, t, fmt.Sprintf("call %d/%d write(%s) torn after %d of %d bytes", k, len(ops), ops[k-1].Path, t, n)})
				}
			}
		}
	}
	return out
}

// ---- obfs4 bridge state ------------------------------------------------------------------

type startKind struct {
	name string
	args []string
}

func identityArgs(seed int64, label string) []string {
	s := rnd.New(seed, "c18-id-"+label)
	id := ref.NewIdentity(s)
	return []string{"node-id=" + hex.EncodeToString(id.NodeID[:]), "private-key=" + hex.EncodeToString(id.Priv[:]), "drbg-seed=" + hex.EncodeToString(s.Bytes(24))}
}

func startAlphabet(seed int64) []startKind {
	a := identityArgs(seed, "A")
	b := identityArgs(seed, "B")
	return []startKind{
		{"plain", nil}, {"iat=0", []string{"iat-mode=0"}}, {"iat=1", []string{"iat-mode=1"}}, {"iat=2", []string{"iat-mode=2"}},
		{"explicit-A", a}, {"explicit-B+iat=2", append(append([]string{}, b...), "iat-mode=2")},
	}
}

// refusedAlphabet: starts that must be refused (invalid arguments).  A refused
// start leaves whatever was persisted untouched.
func refusedAlphabet(seed int64, thorough bool) []startKind {
	c := identityArgs(seed, "C")
	badSeed := append([]string{}, c...)
	badSeed[2] = "drbg-seed=" + strings.Repeat("zz", 24)
	ks := []startKind{
		{"refused/iat=3", []string{"iat-mode=3"}},
		{"refused/explicit-C-bad-seed", badSeed},
	}
	if thorough {
		shortKey := append([]string{}, c...)
		shortKey[1] = "private-key=abcd"
		ks = append(ks, startKind{"refused/iat=-1", []string{"iat-mode=-1"}},
			startKind{"refused/explicit-C+iat=7", append(append([]string{}, c...), "iat-mode=7")},
			startKind{"refused/explicit-C-short-key", shortKey})
	}
	return ks
}

// model of what must be presented
type persisted struct {
	have   bool
	nodeID string // "" = generated (unknown until first seen)
	cert   string
	iat    string
}

func workDir(tag string) string {
	d := filepath.Join(os.Getenv("VERIF_WORK"), fmt.Sprintf("c18-%d-%s", os.Getpid(), tag))
	if os.Getenv("VERIF_WORK") == "" {
		d = filepath.Join(os.TempDir(), fmt.Sprintf("c18-%d-%s", os.Getpid(), tag))
	}
	os.RemoveAll(d)
	os.MkdirAll(d, 0o700)
	return d
}

func checkStart(c *mc.Ctx, o startOut, err error, st *persisted, sk startKind, what string) bool {
	if err != nil {
		fail(c, "machinery", "helper", "%s: %v", what, err)
		return false
	}
	if strings.HasPrefix(sk.name, "refused/") {
		// invalid arguments: the start is refused and nothing persisted changes
		// (the next starts are checked against the unchanged model)
		if o.OK {
			c.Count("invalid_arguments_accepted", 1)
		}
		return true
	}
	if !o.OK {
		fail(c, "start", "start-fails/"+sk.name, "%s: start failed: %s", what, o.Err)
		return false
	}
	explicit := strings.HasPrefix(sk.name, "explicit")
	wantIAT := st.iat
	for _, a := range sk.args {
		if strings.HasPrefix(a, "iat-mode=") {
			wantIAT = strings.TrimPrefix(a, "iat-mode=")
		}
	}
	if explicit {
		hasIAT := false
		for _, a := range sk.args {
			if strings.HasPrefix(a, "iat-mode=") {
				hasIAT = true
			}
		}
		if !hasIAT {
			wantIAT = "0"
		}
		// reconfiguration: the given identity becomes the persisted one
		for _, a := range sk.args {
			if strings.HasPrefix(a, "node-id=") {
				if o.StateNode != strings.TrimPrefix(a, "node-id=") {
					fail(c, "identity", "explicit-not-persisted", "%s: explicit node-id was not persisted (state file has %q)", what, o.StateNode)
				}
			}
		}
		st.cert = ""
	}
	if !st.have || explicit {
		if wantIAT == "" {
			wantIAT = "0"
		}
	}
	if st.have && !explicit && st.cert != "" && o.Cert != st.cert {
		fail(c, "identity", "identity-changed/"+sk.name, "%s: this start advertises cert %.16s..., the persisted identity is %.16s...", what, o.Cert, st.cert)
		return false
	}
	if o.IAT != wantIAT {
		fail(c, "client-args", "iat/"+sk.name, "%s: advertised iat-mode=%s, want %s", what, o.IAT, wantIAT)
	}
	if strconv.Itoa(o.StateIAT) != wantIAT {
		fail(c, "client-args", "iat-not-persisted/"+sk.name, "%s: iat-mode %s was advertised/requested but %d was persisted", what, wantIAT, o.StateIAT)
	}
	// parsing the advertised arguments yields exactly the persisted node ID and public key
	if o.NodeID != o.StateNode || o.LegacyNode != o.StateNode {
		fail(c, "round-trip", "round-trip/node-id", "%s: ParseArgs gives node id cert-form=%s legacy-form=%s, the state file has %s (%s)", what, o.NodeID, o.LegacyNode, o.StateNode, o.Err)
	}
	if o.StatePub != "" && (o.PubKey != o.StatePub || o.LegacyPub != o.StatePub) {
		fail(c, "round-trip", "round-trip/public-key", "%s: ParseArgs gives public key %s / %s, the state file has %s", what, o.PubKey, o.LegacyPub, o.StatePub)
	}
	// independent cert computation
	nb, _ := hex.DecodeString(o.StateNode)
	pb, _ := hex.DecodeString(o.PubKey)
	if priv, err := hex.DecodeString(o.StatePriv); err == nil && len(priv) == 32 {
		id := &ref.Identity{}
		copy(id.Priv[:], priv)
		want := ref.NewIdentityFromPriv(priv)
		if hex.EncodeToString(want) != o.PubKey {
			fail(c, "round-trip", "round-trip/public-key-of-private", "%s: advertised public key is not the public key of the persisted private key", what)
		}
	}
	if refCert := refCertOf(nb, pb); refCert != o.Cert {
		fail(c, "round-trip", "round-trip/cert", "%s: cert %q is not base64(nodeID|publicKey) without padding (%q)", what, o.Cert, refCert)
	}
	wantLine := fmt.Sprintf("Bridge obfs4 <IP ADDRESS>:<PORT> <FINGERPRINT> cert=%s iat-mode=%s", o.Cert, o.IAT)
	if o.BridgeLine != wantLine {
		fail(c, "round-trip", "bridgeline-file", "%s: obfs4_bridgeline.txt has %q, want %q", what, o.BridgeLine, wantLine)
	}
	st.have, st.cert, st.iat = true, o.Cert, wantIAT
	return true
}

func refCertOf(nodeID, pub []byte) string {
	raw := append(append([]byte{}, nodeID...), pub...)
	const b64 = "ABCDEFGHIJKLMNOPQRSTUVWXYZabcdefghijklmnopqrstuvwxyz0123456789+/"
	var sb strings.Builder
	for i := 0; i < len(raw); i += 3 {
		var v uint32
		n := 0
		for j := 0; j < 3; j++ {
			v <<= 8
			if i+j < len(raw) {
				v |= uint32(raw[i+j])
				n++
			}
		}
		for j := 0; j <= n; j++ {
			sb.WriteByte(b64[(v>>(18-6*uint(j)))&63])
		}
	}
	return sb.String()
}

func historyScenario(hist []int, alpha []startKind, crash bool, thorough bool) mc.Scenario {
	var names []string
	for _, h := range hist {
		names = append(names, alpha[h].name)
	}
	name := "starts/" + strings.Join(names, ",")
	if crash {
		name = "crash/" + strings.Join(names, ",")
	}
	return mc.Scenario{Name: name, Params: map[string]any{"history": names, "crash_enumeration": crash}, Weight: 1 + len(hist)*3, Run: func(c *mc.Ctx) {
		helperScope, helperCalls = name, 0
		dir := workDir("state")
		defer os.RemoveAll(dir)
		pre := workDir("pre")
		defer os.RemoveAll(pre)
		cdir := workDir("crash")
		defer os.RemoveAll(cdir)
		trace := filepath.Join(os.Getenv("VERIF_WORK"), fmt.Sprintf("c18-%d.trace", os.Getpid()))
		defer os.Remove(trace)
		var st persisted
		nCrash := 0
		outcomes := map[string]bool{}
		for i, h := range hist {
			sk := alpha[h]
			what := fmt.Sprintf("start %d (%s) of history %v", i+1, sk.name, names)
			doCrash := crash && i == len(hist)-1 && st.have
			var ops []fsOp
			if doCrash {
				if err := copyDir(dir, pre); err != nil {
					fail(c, "machinery", "copy", "%v", err)
					return
				}
			}
			tr := ""
			if doCrash {
				tr = trace
			}
			o, err := runHelper(tr, append([]string{"start", dir}, sk.args...)...)
			before := st
			if !checkStart(c, o, err, &st, sk, what) {
				return
			}
			if !doCrash {
				continue
			}
			ops, err = parseTrace(trace, dir)
			if err != nil {
				fail(c, "machinery", "trace", "%v", err)
				return
			}
			if len(ops) == 0 {
				// a start that changes nothing on disk (e.g. it skips rewriting
				// unchanged files) has no crash states; make sure that is what
				// happened and not a trace that recorded nothing at all
				raw, _ := os.ReadFile(trace)
				if n := len(reLine.FindAllIndex(raw, -1)); n < 5 && bytes.Count(raw, []byte("\n")) < 5 {
					fmt.Fprintf(os.Stderr, "MACHINERY: %s: strace recorded nothing (%d bytes)\n", what, len(raw))
					os.Exit(3)
				}
				c.Count("starts_without_file_system_mutation", 1)
				continue
			}
			c.Count("traced_mutating_calls", int64(len(ops)))
			for _, cs := range crashStates(ops, thorough) {
				if err := applyOps(pre, cdir, ops, cs.k, cs.torn); err != nil {
					fail(c, "machinery", "apply", "%v", err)
					return
				}
				ro, rerr := runHelper("", "start", cdir)
				nCrash++
				c.AddExecutions(1)
				if rerr != nil {
					fail(c, "machinery", "helper", "recovery: %v", rerr)
					return
				}
				// the identity persisted before this start, or the one this start persists
				okCert := ro.OK && (ro.Cert == before.cert || ro.Cert == st.cert)
				outcomes[fmt.Sprintf("%s -> ok=%v same=%v", cs.desc, ro.OK, okCert)] = true
				site := ops[max(cs.k-1, 0)].Kind + "(" + ops[max(cs.k-1, 0)].Path + ")"
				if cs.k == 0 {
					site = "none"
				}
				torn := "complete"
				if cs.torn >= 0 {
					torn = "torn"
				}
				if !ro.OK {
					fail(c, "crash-identity", "crash/identity-lost/"+site+"/"+torn, "%s, process killed %s: the next start fails (%s) -- the only copy of the bridge identity is lost", what, cs.desc, ro.Err)
					continue
				}
				if !okCert {
					fail(c, "crash-identity", "crash/identity-replaced/"+site+"/"+torn, "%s, process killed %s: the next start silently presents a different identity (cert %.16s..., persisted %.16s...)", what, cs.desc, ro.Cert, before.cert)
					continue
				}
				// the same crash state, but the operator reconfigures first: a start
				// with an explicit identity, then a plain one (whatever the crash
				// left behind -- a stale temporary file, say -- must not spoil them)
				if err := applyOps(pre, cdir, ops, cs.k, cs.torn); err != nil {
					fail(c, "machinery", "apply", "%v", err)
					return
				}
				expl := identityArgs(1, "R")
				r1, e1 := runHelper("", append([]string{"start", cdir}, expl...)...)
				r2, e2 := runHelper("", "start", cdir)
				nCrash++
				c.AddExecutions(1)
				if e1 != nil || e2 != nil {
					fail(c, "machinery", "helper", "recovery: %v %v", e1, e2)
					return
				}
				if !r1.OK || !r2.OK {
					fail(c, "crash-identity", "crash/later-start-fails/"+site+"/"+torn, "%s, process killed %s, then a start with an explicit identity (ok=%v %s) and a plain start (ok=%v %s): a start fails", what, cs.desc, r1.OK, r1.Err, r2.OK, r2.Err)
					continue
				}
				if wantNode := strings.TrimPrefix(expl[0], "node-id="); r2.StateNode != wantNode || r1.Cert != r2.Cert {
					fail(c, "crash-identity", "crash/explicit-after-crash-lost/"+site+"/"+torn, "%s, process killed %s: the explicit identity given afterwards (node id %.12s...) is not what the following plain start presents (%.12s...)", what, cs.desc, wantNode, r2.StateNode)
				}
			}
		}
		c.Count("crash_states", int64(nCrash))
		c.Observe("history", fmt.Sprint(names, st.cert != "", st.iat, len(outcomes)))
		c.AddDistinct(int64(len(outcomes)))
	}}
}

func max(a, b int) int {
	if a > b {
		return a
	}
	return b
}

// ---- ScrambleSuit ticket store ----------------------------------------------------------------

func ticketScenario(thorough bool) mc.Scenario {
	return mc.Scenario{Name: "tickets/crash", Weight: 40, Run: func(c *mc.Ctx) {
		helperScope, helperCalls = "tickets/crash", 0
		dir := workDir("ss")
		defer os.RemoveAll(dir)
		pre := workDir("sspre")
		defer os.RemoveAll(pre)
		cdir := workDir("sscrash")
		defer os.RemoveAll(cdir)
		table := filepath.Join(os.Getenv("VERIF_WORK"), fmt.Sprintf("c18-%d.table", os.Getpid()))
		defer os.Remove(table)
		trace := filepath.Join(os.Getenv("VERIF_WORK"), fmt.Sprintf("c18-%d.sstrace", os.Getpid()))
		defer os.Remove(trace)
		nCrash := 0
		outcomes := map[string]bool{}
		// history: connect+issue (stores a ticket), connect+issue (redeems it and stores a new one), connect (redeems)
		steps := []string{"1", "1", "0"}
		wantKinds := []string{"uniformdh", "ticket", "ticket"}
		for i, issue := range steps {
			copyDir(dir, pre)
			o, err := runHelper(trace, "ss-connect", dir, issue, table)
			what := fmt.Sprintf("connection %d (issue=%s)", i+1, issue)
			if err != nil {
				fail(c, "machinery", "helper", "%s: %v", what, err)
				return
			}
			if !o.OK {
				fail(c, "tickets", "tickets/connect-fails", "%s: %s", what, o.Err)
				return
			}
			if o.Kind != wantKinds[i] {
				fail(c, "tickets", "tickets/kind", "%s: the server saw a %s handshake, expected %s", what, o.Kind, wantKinds[i])
			}
			ops, err := parseTrace(trace, dir)
			if err != nil {
				fail(c, "machinery", "trace", "%v", err)
				return
			}
			c.Count("traced_mutating_calls", int64(len(ops)))
			for _, cs := range crashStates(ops, thorough) {
				if err := applyOps(pre, cdir, ops, cs.k, cs.torn); err != nil {
					fail(c, "machinery", "apply", "%v", err)
					return
				}
				ro, rerr := runHelper("", "ss-factory", cdir)
				nCrash++
				c.AddExecutions(1)
				if rerr != nil {
					fail(c, "machinery", "helper", "recovery: %v", rerr)
					return
				}
				outcomes[fmt.Sprintf("%d %s -> %v", i, cs.desc, ro.OK)] = true
				if !ro.OK {
					torn := "complete"
					if cs.torn >= 0 {
						torn = "torn"
					}
					fail(c, "crash-tickets", "crash/tickets-block-startup/"+torn, "%s, process killed %s: ClientFactory on the resulting directory fails (%s): a damaged ticket store blocks start-up", what, cs.desc, ro.Err)
					continue
				}
				// and a connection still works from there (tickets at worst forgotten)
				if cs.torn >= 0 || cs.k == len(ops) {
					t2 := table + ".tmp"
					b, _ := os.ReadFile(table)
					os.WriteFile(t2, b, 0o600)
					co, cerr := runHelper("", "ss-connect", cdir, "0", t2)
					os.Remove(t2)
					c.AddExecutions(1)
					if cerr != nil || !co.OK {
						fail(c, "crash-tickets", "crash/tickets-connect-fails", "%s, process killed %s: a later connection fails: %v %s", what, cs.desc, cerr, co.Err)
					}
				}
			}
		}
		c.Count("ticket_crash_states", int64(nCrash))
		c.Observe("tickets", len(outcomes))
		c.AddDistinct(int64(len(outcomes)))
	}}
}

// twoBridgeTickets: a client that uses two bridges; every helper call is a new
// process (a restart). Once the store holds a ticket of each bridge, every
// later connection to either bridge works and presents a ticket that bridge
// issued (each bridge has its own table) or none: persisted tickets are at
// worst forgotten, never replaced by something else.
func twoBridgeTickets() mc.Scenario {
	return mc.Scenario{Name: "tickets/two-bridges", Weight: 10, Run: func(c *mc.Ctx) {
		helperScope, helperCalls = "tickets/two-bridges", 0
		dir := workDir("ss2")
		defer os.RemoveAll(dir)
		defer os.Unsetenv("VERIF_C18_SS_ADDR")
		addrs := map[string]string{"A": "192.0.2.77:443", "B": "198.51.100.9:9001"}
		tables := map[string]string{}
		for b := range addrs {
			tables[b] = filepath.Join(os.Getenv("VERIF_WORK"), fmt.Sprintf("c18-%d-%s.table", os.Getpid(), b))
			defer os.Remove(tables[b])
		}
		var sum []string
		for i, b := range []string{"A", "B", "A", "B", "B", "A"} {
			os.Setenv("VERIF_C18_SS_ADDR", addrs[b])
			o, err := runHelper("", "ss-connect", dir, "1", tables[b])
			c.AddExecutions(1)
			what := fmt.Sprintf("connection %d (to bridge %s; one start per connection, tickets of both bridges stored)", i+1, b)
			if err != nil {
				fail(c, "machinery", "helper", "%s: %v", what, err)
				return
			}
			if !o.OK {
				fail(c, "tickets", "tickets/two-bridges/connect-fails", "%s: %s", what, o.Err)
				return
			}
			sum = append(sum, b+":"+o.Kind)
			if i < 2 && o.Kind != "uniformdh" {
				fail(c, "tickets", "tickets/two-bridges/kind", "%s: the server saw a %s handshake before it had issued any ticket", what, o.Kind)
				return
			}
		}
		c.Observe("two-bridges", fmt.Sprint(sum))
		c.AddDistinct(1)
	}}
}

func main() {
	self, _ = os.Executable()
	if len(os.Args) > 2 && os.Args[1] == "helper" {
		helperMain(os.Args[2:])
		return
	}
	mc.WatchdogLimit = 600e9
	mc.Main("C18", func(cfg *mc.Config, emit func(mc.Scenario)) {
		if _, err := exec.LookPath("strace"); err != nil {
			fmt.Fprintln(os.Stderr, "MACHINERY: strace not found")
			os.Exit(3)
		}
		alpha := startAlphabet(cfg.Seed)
		var hists [][]int
		for a := range alpha {
			hists = append(hists, []int{a})
			for b := range alpha {
				hists = append(hists, []int{a, b})
				for cc := range alpha {
					hists = append(hists, []int{a, b, cc})
				}
			}
		}
		// refused starts in between: (valid, refused, valid) and (refused, valid),
		// (valid, refused) -- the start after a refused one shows whether the
		// persisted identity survived it
		nValid := len(alpha)
		alpha = append(alpha, refusedAlphabet(cfg.Seed, cfg.Thorough())...)
		for r := nValid; r < len(alpha); r++ {
			for a := 0; a < nValid; a++ {
				hists = append(hists, []int{r, a})
				for b := 0; b < nValid; b++ {
					if cfg.Thorough() || b == 0 || b == a {
						hists = append(hists, []int{a, r, b})
					}
				}
			}
		}
		sort.SliceStable(hists, func(i, j int) bool { return len(hists[i]) < len(hists[j]) })
		for _, h := range hists {
			emit(historyScenario(h, alpha, false, cfg.Thorough()))
		}
		for _, h := range hists {
			if len(h) == 2 || (cfg.Thorough() && len(h) == 3) {
				emit(historyScenario(h, alpha, true, cfg.Thorough()))
			}
		}
		emit(ticketScenario(cfg.Thorough()))
		emit(twoBridgeTickets())
	})
}
