//go:build verif

package socks5

// Free-running -race body for C17: many SOCKS5 exchanges at the same time,
// replies issued after other exchanges have started.

import (
	"bytes"
	"fmt"
	"io"
	"net"
	"os"
	"strconv"
	"sync"
	"testing"
)

func TestVerifRaceC17Exchanges(t *testing.T) {
	iters, _ := strconv.Atoi(os.Getenv("VERIF_RACE_ITERS"))
	if iters < 1 {
		iters = 1
	}
	ln, err := net.Listen("tcp", "127.0.0.1:0")
	if err != nil {
		t.Fatal(err)
	}
	defer ln.Close()
	go func() {
		for {
			c, err := ln.Accept()
			if err != nil {
				return
			}
			go func() {
				defer c.Close()
				req, err := Handshake(c)
				if err != nil {
					return
				}
				v, _ := req.Args.Get("k")
				code := ReplySucceeded
				if v == "refuse" {
					code = ReplyConnectionRefused
				}
				req.Reply(code)
			}()
		}
	}()
	for it := 0; it < iters; it++ {
		var wg sync.WaitGroup
		for g := 0; g < 16; g++ {
			wg.Add(1)
			go func(g int) {
				defer wg.Done()
				c, err := net.Dial("tcp", ln.Addr().String())
				if err != nil {
					t.Errorf("dial: %v", err)
					return
				}
				defer c.Close()
				val, want := fmt.Sprintf("v%d", g), byte(ReplySucceeded)
				if g%3 == 0 {
					val, want = "refuse", byte(ReplyConnectionRefused)
				}
				buf := make([]byte, 16)
				c.Write([]byte{5, 1, 2})
				io.ReadFull(c, buf[:2])
				u := "k=" + val
				c.Write(append(append([]byte{1, byte(len(u))}, u...), 1, 0))
				io.ReadFull(c, buf[:2])
				c.Write([]byte{5, 1, 0, 1, 192, 0, 2, byte(g), 0x1f, 0x90})
				if _, err := io.ReadFull(c, buf[:10]); err != nil || !bytes.Equal(buf[:2], []byte{5, want}) {
					t.Errorf("client %d: reply % x err=%v, want code %d", g, buf[:10], err, want)
				}
			}(g)
		}
		wg.Wait()
	}
}
