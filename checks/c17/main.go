//go:build verif

// C17: the SOCKS5 front end hands the transport exactly the target and arguments tor sent.
package main

import (
	"bytes"
	"errors"
	"fmt"
	"net"
	"sort"
	"strconv"
	"strings"
	"time"

	"gitlab.com/yawning/obfs4.git/common/socks5"
	"gitlab.com/yawning/obfs4.git/internal/zzverif/mc"
	"gitlab.com/yawning/obfs4.git/internal/zzverif/sched"
	"gitlab.com/yawning/obfs4.git/internal/zzverif/wire"
)

func fail(c *mc.Ctx, oracle, key, format string, a ...any) {
	c.Fail(oracle, "C17/"+key, format, a...)
}

// ---- reference: PT argument grammar ------------------------------------------------

type kv struct{ k, v string }

func esc(s string) string {
	var b strings.Builder
	for i := 0; i < len(s); i++ {
		if s[i] == '\\' || s[i] == '=' || s[i] == ';' {
			b.WriteByte('\\')
		}
		b.WriteByte(s[i])
	}
	return b.String()
}

func encodeArgs(pairs []kv) string {
	var parts []string
	for _, p := range pairs {
		parts = append(parts, esc(p.k)+"="+esc(p.v))
	}
	return strings.Join(parts, ";")
}

// refParse is the reference grammar: pairs separated by unescaped ';', key and
// value separated by the first unescaped '=', '\' escapes exactly '\', '=', ';'.
func refParse(s string) (map[string][]string, error) {
	out := map[string][]string{}
	if s == "" {
		return out, nil
	}
	// tokenise into (byte, escaped?) units
	type unit struct {
		b   byte
		esc bool
	}
	var us []unit
	for i := 0; i < len(s); i++ {
		if s[i] == '\\' {
			if i+1 >= len(s) {
				return nil, errors.New("dangling escape")
			}
			n := s[i+1]
			if n != '\\' && n != '=' && n != ';' {
				return nil, errors.New("bad escape")
			}
			us = append(us, unit{n, true})
			i++
			continue
		}
		us = append(us, unit{s[i], false})
	}
	var pairs [][]unit
	cur := []unit{}
	for _, u := range us {
		if u.b == ';' && !u.esc {
			pairs = append(pairs, cur)
			cur = []unit{}
			continue
		}
		cur = append(cur, u)
	}
	pairs = append(pairs, cur)
	for _, p := range pairs {
		eq := -1
		for i, u := range p {
			if u.b == '=' && !u.esc {
				eq = i
				break
			}
		}
		if eq <= 0 {
			return nil, errors.New("pair without key or '='")
		}
		var k, v []byte
		for _, u := range p[:eq] {
			k = append(k, u.b)
		}
		for _, u := range p[eq+1:] {
			v = append(v, u.b)
		}
		out[string(k)] = append(out[string(k)], string(v))
	}
	return out, nil
}

func argsString(m map[string][]string) string {
	var ks []string
	for k := range m {
		ks = append(ks, k)
	}
	sort.Strings(ks)
	var b strings.Builder
	for _, k := range ks {
		fmt.Fprintf(&b, "%q=%q;", k, m[k])
	}
	return b.String()
}

// ---- reference: SOCKS5 client encoder and spec decoder ------------------------------

type target struct {
	atyp byte
	addr []byte // 4, 16 or domain bytes
	port int
}

func (t target) encode() []byte {
	m := []byte{5, 1, 0, t.atyp}
	if t.atyp == 3 {
		m = append(m, byte(len(t.addr)))
	}
	m = append(m, t.addr...)
	return append(m, byte(t.port>>8), byte(t.port))
}

func userPass(argStr string, split int) []byte {
	u, p := argStr, "\x00"
	if split > 0 && split < len(argStr) {
		u, p = argStr[:split], argStr[split:]
	} else if len(argStr) > 255 {
		u, p = argStr[:255], argStr[255:]
	}
	m := []byte{1, byte(len(u))}
	m = append(m, u...)
	m = append(m, byte(len(p)))
	return append(m, p...)
}

type expect struct {
	err     string // "" = success; else the stage that fails: "methods", "auth", "request"
	method  byte
	args    map[string][]string
	host    string // for domains: exact; for IPs: canonical
	ip      net.IP
	port    int
	replies [][]byte // replies that must have been written before the failing stage
	// trailing: the failing message is a well-formed message followed by
	// extra bytes; its ordinary reply may already be on the wire when the
	// trailing data is noticed
	trailing []byte
}

// decode is the spec decoder of a step-by-step transcript (m2 is ignored when
// method 0 is selected).  Every message must have exactly its declared length.
func decode(m1, m2, m3 []byte) expect {
	var e expect
	if len(m1) >= 2 && m1[0] == 5 && len(m1) > 2+int(m1[1]) {
		ms := m1[2 : 2+int(m1[1])]
		sel := byte(0xff)
		if bytes.IndexByte(ms, 2) >= 0 {
			sel = 2
		} else if bytes.IndexByte(ms, 0) >= 0 {
			sel = 0
		}
		e.err = "methods"
		e.trailing = []byte{5, sel}
		return e
	}
	if len(m1) < 2 || m1[0] != 5 || len(m1) != 2+int(m1[1]) {
		e.err = "methods"
		return e
	}
	methods := m1[2:]
	switch {
	case bytes.IndexByte(methods, 2) >= 0:
		e.method = 2
	case bytes.IndexByte(methods, 0) >= 0:
		e.method = 0
	default:
		e.method = 0xff
		e.err = "methods"
		e.replies = [][]byte{{5, 0xff}}
		return e
	}
	e.replies = [][]byte{{5, e.method}}
	e.args = map[string][]string{}
	if e.method == 2 {
		ok := len(m2) >= 2 && m2[0] == 1 && m2[1] >= 1 && len(m2) >= 2+int(m2[1])+1
		var ulen, plen int
		if ok {
			ulen = int(m2[1])
			plen = int(m2[2+ulen])
			if plen >= 1 && len(m2) > 2+ulen+1+plen {
				// well-formed prefix + trailing bytes
				pm := m2[:2+ulen+1+plen]
				sub := decode(m1, pm, []byte{5, 1, 0, 1, 0, 0, 0, 0, 0, 0})
				e.err = "auth"
				if sub.err == "" {
					e.trailing = []byte{1, 0}
				}
				return e
			}
			ok = plen >= 1 && len(m2) == 2+ulen+1+plen
		}
		if !ok {
			e.err = "auth"
			return e
		}
		uname, passwd := m2[2:2+ulen], m2[3+ulen:]
		s := string(uname)
		if !(plen == 1 && passwd[0] == 0) {
			s += string(passwd)
		}
		a, err := refParse(s)
		if err != nil {
			e.err = "auth"
			return e
		}
		e.args = a
		e.replies = append(e.replies, []byte{1, 0})
	}
	if len(m3) < 5 || m3[0] != 5 || m3[1] != 1 || m3[2] != 0 {
		e.err = "request"
		return e
	}
	rest := m3[4:]
	switch m3[3] {
	case 1:
		if len(rest) != 4+2 {
			e.err = "request"
			return e
		}
		e.ip = net.IP(rest[:4])
		rest = rest[4:]
	case 4:
		if len(rest) != 16+2 {
			e.err = "request"
			return e
		}
		e.ip = net.IP(rest[:16])
		rest = rest[16:]
	case 3:
		if len(rest) < 1 || rest[0] == 0 || len(rest) != 1+int(rest[0])+2 {
			e.err = "request"
			return e
		}
		e.host = string(rest[1 : 1+int(rest[0])])
		rest = rest[1+int(rest[0]):]
	default:
		e.err = "request"
		return e
	}
	e.port = int(rest[0])<<8 | int(rest[1])
	return e
}

// ---- driver ---------------------------------------------------------------------------

type delivery struct {
	cuts [3][]int // cut points inside message 1..3 (nil: whole)
	// after: what the client does after the last byte of message `stopAt`
	stopAfter int    // 0: complete exchange; k: stop after message k (possibly truncated by trunc)
	trunc     int    // bytes of message stopAfter actually sent (-1 all)
	end       string // "eof" or "stall" when stopAfter > 0
}

type result struct {
	req      *socks5.Request
	err      error
	events   []wire.Event
	panics   []string
	replyErr error
	endAt    time.Duration
	stuck    bool
}

var start = time.Unix(1_700_000_000, 0)

func checkDeadlines(c *mc.Ctx, r result, what string) {
	// The handshake deadline (armed at entry, cleared at exit) is C10's clause,
	// not C17's: it is observed here and judged there (C10 deadline/socks5).
	var dl []wire.Event
	for _, e := range r.events {
		if e.Kind == "SetDeadline" {
			dl = append(dl, e)
		}
	}
	if len(dl) < 2 || !dl[0].T.Equal(start.Add(5*time.Second)) || !dl[len(dl)-1].T.IsZero() {
		c.Count("exchanges_with_unusual_deadline_handling", 1)
	}
}

func targetMatches(e expect, got string) bool {
	if e.ip == nil {
		// domain: exact "host:port" string (the name may itself contain ':')
		return got == e.host+":"+strconv.Itoa(e.port)
	}
	host, port, err := net.SplitHostPort(got)
	if err != nil || port != strconv.Itoa(e.port) {
		return false
	}
	ip := net.ParseIP(host)
	return ip != nil && ip.Equal(e.ip)
}

// verdict compares one run with the reference reading.
func verdict(c *mc.Ctx, r result, e expect, sw []byte, what, fam string) {
	if len(r.panics) > 0 {
		fail(c, "no-panic", "panic/"+fam, "%s: %s", what, r.panics[0])
		return
	}
	if r.stuck {
		fail(c, "terminates", "stuck/"+fam, "%s: Handshake did not return", what)
		return
	}
	checkDeadlines(c, r, what)
	if e.err == "" {
		if r.err != nil {
			fail(c, "accept", "rejected/"+fam, "%s: well-formed exchange rejected: %v", what, r.err)
			return
		}
		if !targetMatches(e, r.req.Target) {
			fail(c, "target", "target/"+fam, "%s: Target = %q, the client encoded host=%q ip=%v port=%d", what, r.req.Target, e.host, e.ip, e.port)
		}
		got := map[string][]string(r.req.Args)
		if argsString(got) != argsString(e.args) {
			fail(c, "args", "args/"+fam, "%s: Args = %s, the client encoded %s", what, argsString(got), argsString(e.args))
		}
		want := bytes.Join(append(append([][]byte{}, e.replies...), []byte{5, 0, 0, 1, 0, 0, 0, 0, 0, 0}), nil)
		if !bytes.Equal(sw, want) {
			fail(c, "replies", "replies/"+fam, "%s: server wrote %x, want %x", what, sw, want)
		}
		return
	}
	if r.err == nil {
		fail(c, "reject", "accepted/"+fam, "%s: malformed exchange (reference: fails at %s) was accepted: Target=%q Args=%s", what, e.err, r.req.Target, argsString(map[string][]string(r.req.Args)))
		return
	}
	// replies: those of the completed stages, then nothing or the proper failure reply
	pre := bytes.Join(e.replies, nil)
	if !bytes.HasPrefix(sw, pre) {
		fail(c, "replies", "failure-replies/"+fam, "%s: server wrote %x, the completed stages require the prefix %x", what, sw, pre)
		return
	}
	rest := sw[len(pre):]
	ok := len(rest) == 0 || (e.trailing != nil && bytes.Equal(rest, e.trailing))
	switch e.err {
	case "methods":
		ok = ok || bytes.Equal(rest, []byte{5, 0xff})
	case "auth":
		ok = ok || bytes.Equal(rest, []byte{1, 1})
	case "request":
		ok = ok || (len(rest) == 10 && rest[0] == 5 && rest[1] != 0 && rest[2] == 0 && rest[3] == 1 && bytes.Equal(rest[4:], make([]byte, 6)))
	}
	if !ok {
		fail(c, "replies", "failure-reply/"+fam, "%s: after failing at %s the server wrote %x (want nothing or the proper failure reply)", what, e.err, rest)
	}
}

func runCase(c *mc.Ctx, m1, m2, m3 []byte, d delivery, e expect, what, fam string) {
	r, sw := runFull(c, m1, m2, m3, d)
	c.AddExecutions(1)
	c.Case(what, fmt.Sprintf("%v %x", r.err != nil, sw))
	verdict(c, r, e, sw, what, fam)
}

// runFull also returns every byte the server wrote.
func runFull(c *mc.Ctx, m1, m2, m3 []byte, d delivery) (result, []byte) {
	var out []byte
	r := runTap(c, m1, m2, m3, d, &out)
	return r, out
}

func runTap(c *mc.Ctx, m1, m2, m3 []byte, d delivery, out *[]byte) result {
	var r result
	cw, sw := wire.Pipe("tor", "socks-server")
	sw.Out.Tap = func(off int64, p []byte) []byte { *out = append(*out, p...); return p }
	res := sched.Run(c, sched.Options{NoPreempt: true, NoEarlyTimers: true, Start: start, MaxSteps: 1_000_000}, func() {
		s := sched.Cur()
		s.Spawn("client", func() {
			msgs := [][]byte{m1, m2, m3}
			replyLens := []int{2, 2, 10}
			buf := make([]byte, 64)
			for i, m := range msgs {
				if m == nil {
					continue
				}
				n := len(m)
				if d.stopAfter == i+1 && d.trunc >= 0 {
					n = d.trunc
				}
				prev := 0
				for _, cut := range append(append([]int{}, d.cuts[i]...), n) {
					if cut <= prev || cut > n {
						continue
					}
					cw.Write(m[prev:cut])
					prev = cut
					if cut < n {
						sched.Sleep(time.Millisecond)
					}
				}
				if d.stopAfter == i+1 {
					if d.end == "eof" {
						cw.CloseWrite()
					}
					for {
						if _, err := cw.Read(buf); err != nil {
							return
						}
					}
				}
				got := 0
				for got < replyLens[i] {
					k, err := cw.Read(buf)
					got += k
					if err != nil {
						return
					}
				}
			}
			// stay until the server is done
			for {
				if _, err := cw.Read(buf); err != nil {
					return
				}
			}
		})
		r.req, r.err = socks5.Handshake(sw)
		if r.err == nil && r.req != nil {
			r.replyErr = r.req.Reply(socks5.ReplySucceeded)
		}
		r.endAt = s.Now().Sub(start)
		sw.Close()
	})
	r.panics = res.Panics
	r.events = sw.Events
	r.stuck = res.Livelock
	return r
}

// ---- scenarios -----------------------------------------------------------------------

func targets() []target {
	dom := func(s string) []byte { return []byte(s) }
	return []target{
		{1, []byte{0, 0, 0, 0}, 0}, {1, []byte{1, 2, 3, 4}, 443}, {1, []byte{255, 255, 255, 255}, 65535},
		{4, net.ParseIP("::"), 1}, {4, net.ParseIP("::1"), 80}, {4, net.ParseIP("2001:db8::1"), 9001},
		{4, net.ParseIP("::ffff:1.2.3.4").To16(), 443}, {4, bytes.Repeat([]byte{0xff}, 16), 65535},
		{3, dom("a"), 80}, {3, dom("ab"), 0}, {3, dom(strings.Repeat("x", 255)), 65535}, {3, dom("h\x00st"), 443},
		{3, dom("caf\xe9\x80.example"), 8080}, {3, dom("v6:ish:name"), 1}, {3, dom("bridge.example.com"), 443},
	}
}

func argMaps(thorough bool) [][]kv {
	alpha := []string{"a", ";", "=", "\\", "\x80"}
	var strs []string
	var gen func(p string, n int)
	maxLen := 2
	if thorough {
		maxLen = 3
	}
	gen = func(p string, n int) {
		if p != "" {
			strs = append(strs, p)
		}
		if n == maxLen {
			return
		}
		for _, a := range alpha {
			gen(p+a, n+1)
		}
	}
	gen("", 0)
	var out [][]kv
	out = append(out, nil)
	for _, s := range strs {
		out = append(out, []kv{{s, "v"}}, []kv{{"k", s}})
	}
	out = append(out, []kv{{"k", ""}}, []kv{{"a", "1"}, {"b", "2"}}, []kv{{"a", "1"}, {"a", "2"}}, []kv{{"cert", "AAA+/=;x"}, {"iat-mode", "1"}})
	return out
}

func offers() [][]byte {
	return [][]byte{{0}, {2}, {0, 2}, {2, 0}, {1, 2}, {0, 1, 2}, {1, 0}}
}

func twoChunkCuts(n int) [][]int {
	var out [][]int
	for k := 1; k < n; k++ {
		out = append(out, []int{k})
	}
	return out
}

func scenarios(cfg *mc.Config, emit func(mc.Scenario)) {
	thorough := cfg.Thorough()
	// (1) product of targets x offers x argument maps, whole-segment delivery
	tg := targets()
	for ti := range tg {
		ti := ti
		emit(mc.Scenario{Name: fmt.Sprintf("product/target%d", ti), Weight: 20, Run: func(c *mc.Ctx) {
			t := tg[ti]
			n := 0
			for _, of := range offers() {
				for _, am := range argMaps(thorough) {
					m1 := append([]byte{5, byte(len(of))}, of...)
					var m2 []byte
					uses2 := bytes.IndexByte(of, 2) >= 0
					if uses2 {
						if am == nil {
							continue // no arguments cannot be expressed with username/password
						}
						m2 = userPass(encodeArgs(am), 0)
					} else if am != nil {
						continue
					}
					m3 := t.encode()
					e := decode(m1, m2, m3)
					// cross-check the reference encoder against the reference decoder
					want := map[string][]string{}
					for _, p := range am {
						want[p.k] = append(want[p.k], p.v)
					}
					if e.err != "" || argsString(e.args) != argsString(want) {
						panic(fmt.Sprintf("reference encoder/decoder disagree on %v: %+v", am, e))
					}
					runCase(c, m1, m2, m3, delivery{trunc: -1}, e, fmt.Sprintf("target %d offer %v args %q", ti, of, encodeArgs(am)), "product")
					n++
					if c.Failed() {
						return
					}
				}
			}
			c.Count("product_cases", int64(n))
			c.Observe("n", n)
		}})
	}
	// (2) every segmentation of each client message
	for ti := range tg {
		ti := ti
		emit(mc.Scenario{Name: fmt.Sprintf("segmentation/target%d", ti), Weight: 40, Run: func(c *mc.Ctx) {
			t := tg[ti]
			if len(t.addr) > 40 && !thorough {
				t.addr = t.addr[:40]
			}
			am := []kv{{"cert", "AAA+/=;x"}, {"iat-mode", "1"}}
			m1 := []byte{5, 2, 0, 2}
			m2 := userPass(encodeArgs(am), 0)
			m3 := t.encode()
			e := decode(m1, m2, m3)
			msgs := [][]byte{m1, m2, m3}
			n := 0
			for mi, m := range msgs {
				cutsets := twoChunkCuts(len(m))
				var dribble []int
				for k := 1; k < len(m); k++ {
					dribble = append(dribble, k)
				}
				cutsets = append(cutsets, dribble)
				if (thorough && len(m) <= 24) || len(m) <= 12 {
					for a := 1; a < len(m); a++ {
						for b := a + 1; b < len(m); b++ {
							cutsets = append(cutsets, []int{a, b})
						}
					}
				}
				for _, cs := range cutsets {
					d := delivery{trunc: -1}
					d.cuts[mi] = cs
					runCase(c, m1, m2, m3, d, e, fmt.Sprintf("target %d, message %d cut at %v", ti, mi+1, cs), "segmentation")
					n++
					if c.Failed() {
						return
					}
				}
			}
			c.Count("segmentation_cases", int64(n))
			c.Observe("n", n)
		}})
	}
	// (3) long values spilling from username into password at every split, lengths around 255/256
	emit(mc.Scenario{Name: "spill", Weight: 30, Run: func(c *mc.Ctx) {
		n := 0
		for total := 250; total <= 262; total++ {
			val := strings.Repeat("A", total-len("cert=;iat-mode=1"))
			am := []kv{{"cert", val}, {"iat-mode", "1"}}
			s := encodeArgs(am)
			if len(s) != total {
				panic("length")
			}
			for split := 0; split <= 255; split++ {
				if split != 0 && (split < 250 || total-split > 255 || total-split < 1) {
					continue
				}
				if split == 0 && total > 510 {
					continue
				}
				if split == 0 && total <= 255 {
					// whole string in the username, NUL password
				}
				// the byte the password field starts with (and the one the username
				// ends with): as encoded ('A'), and NUL / 0xff / 0x01 -- values are
				// arbitrary 8-bit strings, only a password that IS one NUL means "empty"
				for _, edge := range []int{-1, 0x00, 0xff, 0x01} {
					sv := s
					if edge >= 0 {
						if split == 0 || split >= total-len(";iat-mode=1") || split < len("cert=")+1 {
							continue
						}
						bs := []byte(s)
						bs[split] = byte(edge)
						bs[split-1] = byte(edge)
						sv = string(bs)
					}
					m1 := []byte{5, 1, 2}
					m2 := userPass(sv, split)
					m3 := target{1, []byte{1, 2, 3, 4}, 443}.encode()
					e := decode(m1, m2, m3)
					if e.err != "" {
						panic("reference rejects its own encoding")
					}
					runCase(c, m1, m2, m3, delivery{trunc: -1}, e, fmt.Sprintf("argument string of %d bytes split at %d (bytes %#x around the split)", total, split, edge), "spill")
					n++
					if c.Failed() {
						return
					}
				}
			}
		}
		c.Count("spill_cases", int64(n))
		c.Observe("n", n)
	}})
	// (4) the argument grammar: all strings up to a length over {a,b,;,=,\}
	maxLen := 7
	if thorough {
		maxLen = 8
	}
	alpha := []byte{'a', 'b', ';', '=', '\\'}
	for _, first := range alpha {
		first := first
		emit(mc.Scenario{Name: fmt.Sprintf("grammar/first=%q", first), Weight: 100, Run: func(c *mc.Ctx) {
			n, okN := 0, 0
			var rec func(s []byte)
			m1 := []byte{5, 1, 2}
			m3 := target{3, []byte("h"), 1}.encode()
			rec = func(s []byte) {
				if c.Failed() {
					return
				}
				m2 := userPass(string(s), 0)
				e := decode(m1, m2, m3)
				if e.err == "" {
					okN++
				}
				runCase(c, m1, m2, m3, delivery{trunc: -1}, e, fmt.Sprintf("argument string %q", s), "grammar")
				n++
				if len(s) == maxLen {
					return
				}
				for _, a := range alpha {
					rec(append(append([]byte{}, s...), a))
				}
			}
			rec([]byte{first})
			c.Count("grammar_strings", int64(n))
			c.Count("grammar_strings_wellformed", int64(okN))
			c.Observe("n", fmt.Sprint(n, okN))
		}})
	}
	// (5) malformed: every single-byte substitution, truncation + EOF/stall, trailing byte
	for mi := 0; mi < 3; mi++ {
		mi := mi
		emit(mc.Scenario{Name: fmt.Sprintf("malformed/message%d", mi+1), Weight: 100, Run: func(c *mc.Ctx) {
			base := [][]byte{{5, 2, 0, 2}, userPass("k=v;x=\\;y", 0), target{3, []byte("host.example"), 443}.encode()}
			variants := [][]byte{base[mi]}
			if mi == 2 {
				variants = append(variants, target{1, []byte{1, 2, 3, 4}, 80}.encode(), target{4, net.ParseIP("2001:db8::1"), 80}.encode())
			}
			if mi == 1 {
				variants = append(variants, userPass(strings.Repeat("k=v;", 63)+"z=1;q=2", 255))
			}
			n := 0
			for _, orig := range variants {
				offs := len(orig)
				if offs > 40 && !thorough {
					offs = 40
				}
				for off := 0; off < offs; off++ {
					for v := 0; v < 256; v++ {
						if byte(v) == orig[off] {
							continue
						}
						m := append([]byte{}, orig...)
						m[off] = byte(v)
						msgs := [][]byte{base[0], base[1], base[2]}
						msgs[mi] = m
						e := decode(msgs[0], msgs[1], msgs[2])
						d := delivery{trunc: -1}
						if e.err != "" {
							// the client stops after the message the reference rejects and waits
							switch e.err {
							case "methods":
								d.stopAfter = 1
							case "auth":
								d.stopAfter = 2
							case "request":
								d.stopAfter = 3
							}
							d.end = "stall"
						}
						if e.method == 0 {
							msgs[1] = nil
						}
						runCase(c, msgs[0], msgs[1], msgs[2], d, e, fmt.Sprintf("message %d byte %d set to %#x", mi+1, off, v), "substitution")
						n++
						if c.Failed() {
							return
						}
					}
				}
				// truncation at every offset followed by EOF / by the 5 s deadline
				for cut := 0; cut < len(orig); cut++ {
					if cut > 40 && cut < len(orig)-3 && !thorough {
						continue
					}
					for _, end := range []string{"eof", "stall"} {
						msgs := [][]byte{base[0], base[1], base[2]}
						msgs[mi] = orig
						e := decode(msgs[0], msgs[1], msgs[2])
						e.err = []string{"methods", "auth", "request"}[mi]
						e.replies = e.replies[:mi]
						d := delivery{stopAfter: mi + 1, trunc: cut, end: end}
						r, sw := runFull(c, msgs[0], msgs[1], msgs[2], d)
						c.AddExecutions(1)
						what := fmt.Sprintf("message %d truncated at %d then %s", mi+1, cut, end)
						verdict(c, r, e, sw, what, "truncation")
						if end == "stall" && r.err != nil && r.endAt != 5*time.Second {
							c.Count("stalled_exchanges_not_ended_at_5s", 1) // (C10's clause)
						}
						n++
						if c.Failed() {
							return
						}
					}
				}
				// one trailing byte behind the message, in the same segment
				{
					msgs := [][]byte{base[0], base[1], base[2]}
					msgs[mi] = append(append([]byte{}, orig...), 0x00)
					e := decode(base[0], base[1], base[2])
					e.err = []string{"methods", "auth", "request"}[mi]
					// the reply of this stage may already have been written when the trailing byte is noticed
					d := delivery{stopAfter: mi + 1, trunc: -1, end: "stall"}
					r, sw := runFull(c, msgs[0], msgs[1], msgs[2], d)
					c.AddExecutions(1)
					what := fmt.Sprintf("message %d followed by a trailing byte in the same segment", mi+1)
					if len(r.panics) > 0 {
						fail(c, "no-panic", "panic/trailing", "%s: %s", what, r.panics[0])
					} else if r.err == nil {
						fail(c, "reject", "accepted/trailing", "%s: accepted (Target %q); server wrote %x", what, r.req.Target, sw)
					}
					checkDeadlines(c, r, what)
					n++
				}
			}
			c.Count("malformed_cases", int64(n))
			c.Observe("n", n)
		}})
	}
}

// overlapScenario: several clients are served by one process.  Every order
// of the events {handshake of connection i, reply to connection i} with each
// handshake before its reply is one history; every client must obtain its own
// request (target and arguments) and read exactly the reply issued for it --
// state carried from one exchange into another would show here.
// intruder: the last connection is not a SOCKS5 client at all (an HTTP request
// with bytes to spare): its exchange is refused, and the other connections'
// requests and replies are what they would have been without it.
func overlapScenario(nconn int, intruder bool) mc.Scenario {
	name := fmt.Sprintf("overlap/%d-connections", nconn)
	if intruder {
		name += "/last-one-not-socks5"
	}
	return mc.Scenario{Name: name, Weight: 5, Run: func(c *mc.Ctx) {
		tg := targets()
		codes := []socks5.ReplyCode{socks5.ReplySucceeded, socks5.ReplyConnectionRefused, socks5.ReplyHostUnreachable}
		// events: 2*i = handshake of i, 2*i+1 = reply to i
		var orders [][]int
		var rec func(cur []int, done []int)
		rec = func(cur []int, done []int) {
			if len(cur) == 2*nconn {
				orders = append(orders, append([]int{}, cur...))
				return
			}
			for i := 0; i < nconn; i++ {
				if done[i] < 2 {
					done[i]++
					rec(append(cur, 2*i+done[i]-1), done)
					done[i]--
				}
			}
		}
		rec(nil, make([]int, nconn))
		n := 0
		for _, order := range orders {
			type cl struct {
				cw, sw   *wire.Conn
				m        [3][]byte
				after    []byte // everything the client read after its three replies-so-far
				e        expect
				req      *socks5.Request
				err      error
				replyErr error
			}
			cls := make([]*cl, nconn)
			for i := range cls {
				x := &cl{}
				x.cw, x.sw = wire.Pipe(fmt.Sprintf("tor%d", i), fmt.Sprintf("socks%d", i))
				x.m[0] = []byte{5, 1, 2}
				x.m[1] = userPass(encodeArgs([]kv{{fmt.Sprintf("key%d", i), fmt.Sprintf("value-%d;=", i)}}), 0)
				x.m[2] = tg[i%len(tg)].encode()
				x.e = decode(x.m[0], x.m[1], x.m[2])
				if intruder && i == nconn-1 {
					x.m[0] = []byte("GET / HTTP/1.1\r\nHost: www.example.com\r\nUser-Agent: curl/8\r\nAccept: */*\r\n\r\n")
				}
				cls[i] = x
			}
			res := sched.Run(c, sched.Options{NoPreempt: true, NoEarlyTimers: true, Start: start, MaxSteps: 1_000_000}, func() {
				s := sched.Cur()
				for i := range cls {
					x := cls[i]
					s.Spawn(fmt.Sprintf("client%d", i), func() {
						buf := make([]byte, 64)
						for k, m := range x.m {
							x.cw.Write(m)
							if k == 2 {
								break
							}
							got := 0
							for got < 2 {
								j, err := x.cw.Read(buf)
								got += j
								if err != nil {
									return
								}
							}
						}
						for {
							j, err := x.cw.Read(buf)
							x.after = append(x.after, buf[:j]...)
							if err != nil {
								return
							}
						}
					})
				}
				for _, ev := range order {
					x := cls[ev/2]
					if ev%2 == 0 {
						x.req, x.err = socks5.Handshake(x.sw)
					} else if x.req != nil {
						if (ev/2)%2 == 1 {
							// the outgoing dial took a while: the reply is issued long
							// after the 5 s allowed for the client's own messages
							s.Advance(42 * time.Second)
						}
						x.replyErr = x.req.Reply(codes[(ev/2)%len(codes)])
					}
				}
				for _, x := range cls {
					x.sw.Close()
				}
			})
			n++
			what := fmt.Sprintf("event order %v (2i = handshake of connection i, 2i+1 = its reply)", order)
			if len(res.Panics) > 0 {
				fail(c, "no-panic", "overlap/panic", "%s: %s", what, res.Panics[0])
				return
			}
			for i, x := range cls {
				if intruder && i == nconn-1 {
					if x.err == nil {
						fail(c, "reject", "overlap/intruder-accepted", "%s: an HTTP request was accepted as a SOCKS5 exchange", what)
						return
					}
					continue
				}
				if x.err != nil || x.req == nil {
					fail(c, "accept", "overlap/rejected", "%s: connection %d: Handshake failed: %v", what, i, x.err)
					return
				}
				if !targetMatches(x.e, x.req.Target) || argsString(x.req.Args) != argsString(x.e.args) {
					fail(c, "request", "overlap/request", "%s: connection %d obtained target %q args %s, the client sent target %s:%d args %s", what, i, x.req.Target, argsString(x.req.Args), x.e.host, x.e.port, argsString(x.e.args))
					return
				}
				want := []byte{5, byte(codes[i%len(codes)]), 0, 1, 0, 0, 0, 0, 0, 0}
				if x.replyErr != nil || !bytes.Equal(x.after, want) {
					fail(c, "reply", "overlap/reply", "%s: client %d read %x after its request (Reply error: %v), the reply issued for it is %x", what, i, x.after, x.replyErr, want)
					return
				}
			}
		}
		c.AddExecutions(int64(n))
		c.Count("overlap_histories", int64(n))
		c.Observe("overlap", n)
	}}
}

func main() {
	mc.Main("C17", func(cfg *mc.Config, emit func(mc.Scenario)) {
		scenarios(cfg, emit)
		emit(overlapScenario(2, false))
		emit(overlapScenario(3, false))
		emit(overlapScenario(2, true))
		emit(overlapScenario(3, true))
	})
}
