//go:build verif

package obfs4

// Free-running -race body for C01: one reader and one writer goroutine per
// endpoint, both directions at once, all IAT mode pairs, over loopback TCP
// (the kernel is invisible to the race detector, so the transport adds no
// happens-before edges between the two endpoints or between the reader and
// the writer of one endpoint).

import (
	"io"
	"net"
	"os"
	"strconv"
	"sync"
	"testing"
	"time"

	pt "gitlab.torproject.org/tpo/anti-censorship/pluggable-transports/goptlib"
)

func verifRaceIters() int {
	n, _ := strconv.Atoi(os.Getenv("VERIF_RACE_ITERS"))
	if n < 1 {
		n = 1
	}
	return n
}

func verifRaceDuplexOnce(t *testing.T, siat, ciat int) {
	sargs := &pt.Args{}
	sargs.Add("iat-mode", strconv.Itoa(siat))
	sf, err := (&Transport{}).ServerFactory(t.TempDir(), sargs)
	if err != nil {
		t.Fatalf("ServerFactory: %v", err)
	}
	cf, err := (&Transport{}).ClientFactory(t.TempDir())
	if err != nil {
		t.Fatalf("ClientFactory: %v", err)
	}
	cargs := &pt.Args{}
	cert, _ := sf.Args().Get("cert")
	cargs.Add("cert", cert)
	cargs.Add("iat-mode", strconv.Itoa(ciat))
	pa, err := cf.ParseArgs(cargs)
	if err != nil {
		t.Fatalf("ParseArgs: %v", err)
	}
	ln, err := net.Listen("tcp", "127.0.0.1:0")
	if err != nil {
		t.Fatalf("listen: %v", err)
	}
	defer ln.Close()

	sizes := []int{1, 100, 1427, 1428, 2500, 17, 0, 700}
	total := 0
	for _, n := range sizes {
		total += n
	}
	pump := func(wg *sync.WaitGroup, conn net.Conn, tag byte) {
		// writer
		wg.Add(2)
		go func() {
			defer wg.Done()
			for _, n := range sizes {
				b := make([]byte, n)
				for i := range b {
					b[i] = tag
				}
				if _, err := conn.Write(b); err != nil {
					t.Errorf("write: %v", err)
					return
				}
			}
		}()
		// reader
		go func() {
			defer wg.Done()
			buf := make([]byte, 997)
			got := 0
			for got < total {
				n, err := conn.Read(buf)
				got += n
				if err != nil {
					if err != io.EOF || got < total {
						t.Errorf("read after %d/%d bytes: %v", got, total, err)
					}
					return
				}
			}
		}()
	}
	var wg sync.WaitGroup
	done := make(chan struct{})
	var sconn net.Conn
	go func() {
		defer close(done)
		raw, err := ln.Accept()
		if err != nil {
			t.Errorf("accept: %v", err)
			return
		}
		c, err := sf.WrapConn(raw)
		if err != nil {
			t.Errorf("WrapConn: %v", err)
			raw.Close()
			return
		}
		sconn = c
		var swg sync.WaitGroup
		pump(&swg, c, 'S')
		swg.Wait()
	}()
	cconn, err := cf.Dial("tcp", ln.Addr().String(), net.Dial, pa)
	if err != nil {
		t.Fatalf("Dial: %v", err)
	}
	pump(&wg, cconn, 'C')
	fin := make(chan struct{})
	go func() { wg.Wait(); <-done; close(fin) }()
	select {
	case <-fin:
	case <-time.After(90 * time.Second):
		t.Errorf("duplex transfer siat=%d ciat=%d did not finish in 90 s", siat, ciat)
	}
	cconn.Close()
	if sconn != nil {
		sconn.Close()
	}
}

func TestVerifRaceC01Duplex(t *testing.T) {
	for it := 0; it < verifRaceIters(); it++ {
		var wg sync.WaitGroup
		for siat := 0; siat <= 2; siat++ {
			for ciat := 0; ciat <= 2; ciat++ {
				wg.Add(1)
				go func(siat, ciat int) {
					defer wg.Done()
					verifRaceDuplexOnce(t, siat, ciat)
				}(siat, ciat)
			}
		}
		wg.Wait()
	}
}
