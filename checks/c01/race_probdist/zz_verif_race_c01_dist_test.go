//go:build verif

package probdist

// Free-running -race body for C01: the length/IAT distributions are shared by
// an obfs4 connection's writer (Sample) and reader (Reset when the server's
// PRNG seed packet arrives).  String() is a debugging aid that no transport
// calls and that is not synchronised; it is deliberately not exercised.

import (
	"os"
	"strconv"
	"sync"
	"testing"

	"gitlab.com/yawning/obfs4.git/common/drbg"
)

func TestVerifRaceC01Dist(t *testing.T) {
	iters, _ := strconv.Atoi(os.Getenv("VERIF_RACE_ITERS"))
	if iters < 1 {
		iters = 1
	}
	for it := 0; it < iters; it++ {
		for _, biased := range []bool{false, true} {
			seed, err := drbg.NewSeed()
			if err != nil {
				t.Fatal(err)
			}
			w := New(seed, 0, 1448, biased)
			var wg sync.WaitGroup
			for g := 0; g < 4; g++ {
				wg.Add(1)
				go func() {
					defer wg.Done()
					for i := 0; i < 2000; i++ {
						if v := w.Sample(); v < 0 || v > 1448 {
							t.Errorf("sample %d out of range", v)
						}
					}
				}()
			}
			wg.Add(1)
			go func() {
				defer wg.Done()
				for i := 0; i < 20; i++ {
					s, _ := drbg.NewSeed()
					w.Reset(s)
				}
			}()
			wg.Wait()
		}
	}
}
