//go:build verif

// C01: obfs4 delivers the exact byte stream, both ways, under any segmentation.
package main

import (
	"bytes"
	"encoding/hex"
	"errors"
	"fmt"
	"io"
	"net"
	"time"

	"gitlab.com/yawning/obfs4.git/internal/zzverif/mc"
	"gitlab.com/yawning/obfs4.git/internal/zzverif/o4h"
	"gitlab.com/yawning/obfs4.git/internal/zzverif/ref"
	"gitlab.com/yawning/obfs4.git/internal/zzverif/rnd"
	"gitlab.com/yawning/obfs4.git/internal/zzverif/sched"
	"gitlab.com/yawning/obfs4.git/internal/zzverif/wire"
	"gitlab.com/yawning/obfs4.git/transports/base"
	"gitlab.com/yawning/obfs4.git/transports/obfs4"
)

func fail(c *mc.Ctx, oracle, key, format string, a ...any) {
	c.Fail(oracle, "C01/"+key, format, a...)
}

type script struct {
	name string
	c, s []int
}

func total(xs []int) int {
	t := 0
	for _, x := range xs {
		t += x
	}
	return t
}

// reader drains conn until an error, appending to *got.
// rbuf < 0: the application changes its buffer size from one Read to the next
// (a 1-byte Read in the middle of a transfer, then a large one, ...).
var mixedBufs = []int{1, 4096, 7, 1500, 1, 1, 3000, 2}

func reader(conn net.Conn, rbuf int, got *[]byte, errp *error) {
	full := make([]byte, 4096)
	b := full
	if rbuf > 0 {
		b = full[:rbuf]
	}
	for i := 0; ; i++ {
		if rbuf < 0 {
			b = full[:mixedBufs[i%len(mixedBufs)]]
		}
		n, err := conn.Read(b)
		*got = append(*got, b[:n]...)
		if err != nil {
			*errp = err
			return
		}
		if n == 0 {
			*errp = fmt.Errorf("Read returned 0, nil")
			return
		}
	}
}

func writer(conn net.Conn, tag byte, sizes []int, done *int, errp *error) {
	off := 0
	for _, n := range sizes {
		k, err := wire.WriteOwned(conn, o4h.Pattern(tag, off, n))
		if err != nil {
			*errp = fmt.Errorf("Write(%d): %w", n, err)
			return
		}
		if k != n {
			*errp = fmt.Errorf("Write(%d) returned %d", n, k)
			return
		}
		off += n
		*done = off
	}
}

// ---- variant A: real client <-> real server, four application threads -----------

func realReal(name string, iat int, bias bool, seedNo int, sc script, rbuf int, bound int, chunk func(*wire.Conn, int, int) []int, seed int64) mc.Scenario {
	return mc.Scenario{
		Name:   name,
		Params: map[string]any{"iat": iat, "bias": bias, "seed": seedNo, "client_writes": sc.c, "server_writes": sc.s, "rbuf": rbuf},
		Bound:  bound,
		Weight: 10 + (total(sc.c)+total(sc.s))/200*(1+iat),
		Run: func(c *mc.Ctx) {
			br := o4h.NewBridge(seed, fmt.Sprint("c01/", seedNo), iat, bias)
			rnd.Install(rnd.New(seed, "c01-"+name))
			sf, err := br.ServerFactory()
			if err != nil {
				fail(c, "setup", "setup", "ServerFactory: %v", err)
				return
			}
			cw, sw := wire.Pipe("client", "server")
			cw.AutoMark, sw.AutoMark = true, true
			cw.Chunker, sw.Chunker = chunk, chunk
			var dialErr, wrapErr, crErr, srErr, cwErr, swErr error
			var cGot, sGot []byte
			var cDone, sDone int
			res := sched.Run(c, sched.Options{PreemptKinds: []string{"write", "sleep"}, NoEarlyTimers: true, MaxSteps: 2_000_000}, func() {
				s := sched.Cur()
				s.Spawn("server", func() {
					var conn net.Conn
					conn, wrapErr = sf.WrapConn(sw)
					if wrapErr != nil {
						return
					}
					s.Spawn("server-reader", func() { reader(conn, rbuf, &sGot, &srErr) })
					writer(conn, 'S', sc.s, &sDone, &swErr)
				})
				var conn net.Conn
				conn, dialErr = o4h.Dial(br.ClientArgs("cert", sf), cw)
				if dialErr != nil {
					return
				}
				s.Spawn("client-reader", func() { reader(conn, rbuf, &cGot, &crErr) })
				writer(conn, 'C', sc.c, &cDone, &cwErr)
			})
			verdict(c, res, dialErr, wrapErr, cwErr, swErr, crErr, srErr, cGot, sGot, cDone, sDone, sc, cw, sw)
		},
	}
}

func verdict(c *mc.Ctx, res *sched.Result, dialErr, wrapErr, cwErr, swErr, crErr, srErr error, cGot, sGot []byte, cDone, sDone int, sc script, cw, sw *wire.Conn) {
	if len(res.Panics) > 0 {
		fail(c, "no-panic", "panic", "%s", res.Panics[0])
		return
	}
	if res.Livelock {
		fail(c, "terminates", "livelock", "step budget exceeded: %+v", res.Blocked)
		return
	}
	c.Observe("reads", fmt.Sprint(cw.ReadSizes, sw.ReadSizes))
	c.Observe("outcome", fmt.Sprintf("dial=%v wrap=%v cGot=%d sGot=%d cDone=%d sDone=%d", dialErr, wrapErr, len(cGot), len(sGot), cDone, sDone))
	if dialErr != nil || wrapErr != nil {
		fail(c, "handshake", "handshake", "handshake between real endpoints failed: Dial=%v WrapConn=%v", dialErr, wrapErr)
		return
	}
	for _, e := range []error{cwErr, swErr, crErr, srErr} {
		if e != nil {
			fail(c, "io-error", "io-error", "unexpected error on a healthy connection: %v", e)
			return
		}
	}
	wantC := o4h.Pattern('S', 0, total(sc.s)) // what the client must read
	wantS := o4h.Pattern('C', 0, total(sc.c))
	if !bytes.HasPrefix(wantC, cGot) {
		fail(c, "prefix", "prefix/s2c", "bytes read by the client are not a prefix of what the server wrote (read %d, first difference at %d)", len(cGot), firstDiff(wantC, cGot))
		return
	}
	if !bytes.HasPrefix(wantS, sGot) {
		fail(c, "prefix", "prefix/c2s", "bytes read by the server are not a prefix of what the client wrote (read %d, first difference at %d)", len(sGot), firstDiff(wantS, sGot))
		return
	}
	// liveness at quiescence: every byte whose Write returned has been read,
	// without any further traffic
	if len(cGot) < sDone {
		key := "stuck/s2c"
		if len(cw.ReadSizes) <= 2 && cGot == nil {
			key = "stuck/s2c/coalesced-with-handshake"
		}
		fail(c, "delivery", key, "quiescent, but the client has read only %d of the %d bytes the server wrote (client wire reads %v; undelivered bytes sit inside the endpoint, the wire holds %d)", len(cGot), sDone, cw.ReadSizes, len(cw.In.Buf))
	}
	if len(sGot) < cDone {
		fail(c, "delivery", "stuck/c2s", "quiescent, but the server has read only %d of the %d bytes the client wrote (server wire reads %v, the wire holds %d)", len(sGot), cDone, sw.ReadSizes, len(sw.In.Buf))
	}
	if cDone != total(sc.c) || sDone != total(sc.s) {
		fail(c, "delivery", "writer-stuck", "a writer did not finish: client %d/%d server %d/%d; blocked: %+v", cDone, total(sc.c), sDone, total(sc.s), res.Blocked)
	}
}

func firstDiff(a, b []byte) int {
	for i := 0; i < len(a) && i < len(b); i++ {
		if a[i] != b[i] {
			return i
		}
	}
	if len(a) < len(b) {
		return len(a)
	}
	return len(b)
}

// ---- variant B: real client against the reference server ------------------------
// The reference knows its own frame boundaries and coalesces response + seed
// frame + first payload into one segment; the client's reads are split at
// every declared boundary -1/0/+1 (thorough: at every offset).

func realClientRefServer(name string, iat int, bias bool, seedNo int, pad int, withData, later []int, coalesce bool, rbuf int, bound int, every bool, seed int64) mc.Scenario {
	return mc.Scenario{
		Name:   name,
		Params: map[string]any{"iat": iat, "bias": bias, "seed": seedNo, "server_pad": pad, "coalesced": withData, "later": later, "rbuf": rbuf},
		Bound:  bound,
		Weight: 10,
		Run: func(c *mc.Ctx) {
			br := o4h.NewBridge(seed, fmt.Sprint("c01/", seedNo), iat, bias)
			o4h.SetBias(bias)
			rnd.Install(rnd.New(seed, "c01-"+name))
			refRnd := rnd.New(seed, "c01-ref-"+name)
			cw, sw := wire.Pipe("client", "server")
			if every {
				cw.Chunker = wire.ChunkEvery
			} else {
				cw.Chunker = wire.ChunkMarks
			}
			var dialErr, refErr, crErr error
			var cGot []byte
			var rs *o4h.RefSession
			sent := 0
			all := append(append([]int{}, withData...), later...)
			// (the client keeps reading after the server's last byte: main stays parked in Read)
			res := sched.Run(c, sched.Options{NoPreempt: true, NoEarlyTimers: true, MaxSteps: 2_000_000, MainMayBlock: true}, func() {
				s := sched.Cur()
				s.Spawn("ref-server", func() {
					opts := o4h.ServerOpts{PadLen: pad, LenSeed: br.Seed}
					if coalesce && len(withData) > 0 {
						opts.WithData = o4h.Pattern('S', 0, total(withData))
					}
					rs, refErr = o4h.RefServer(sw, br.ID, opts, refRnd)
					if refErr != nil {
						sw.Close()
						return
					}
					if coalesce {
						sent = total(withData)
					}
					for _, e := range rs.FrameEnds {
						for _, d := range []int64{0, 2, 18} { // frame end, after the length field, after the tag
							sw.Mark(e + d)
						}
					}
					rest := later
					if !coalesce {
						rest = all
					}
					for _, n := range rest {
						base := int64(sw.Out.Total)
						if err := rs.Send(o4h.Pattern('S', sent, n), 0); err != nil {
							refErr = err
							return
						}
						sent += n
						_ = base
						for _, e := range rs.FrameEnds {
							sw.Mark(e)
						}
					}
				})
				var conn net.Conn
				conn, dialErr = o4h.Dial(br.ClientArgs("cert", nil), cw)
				if dialErr != nil {
					return
				}
				reader(conn, rbuf, &cGot, &crErr)
			})
			if len(res.Panics) > 0 {
				fail(c, "no-panic", "panic", "%s", res.Panics[0])
				return
			}
			c.Observe("reads", fmt.Sprint(cw.ReadSizes))
			c.Observe("outcome", fmt.Sprintf("dial=%v ref=%v got=%d sent=%d", dialErr, refErr, len(cGot), sent))
			if dialErr != nil || refErr != nil {
				fail(c, "handshake", "refserver/handshake", "handshake failed: Dial=%v reference server=%v (client wire reads %v)", dialErr, refErr, cw.ReadSizes)
				return
			}
			if crErr != nil {
				fail(c, "io-error", "refserver/io-error", "client Read failed on a healthy connection: %v (client wire reads %v)", crErr, cw.ReadSizes)
				return
			}
			want := o4h.Pattern('S', 0, total(all))
			if !bytes.HasPrefix(want, cGot) {
				fail(c, "prefix", "refserver/prefix", "bytes read by the client are not a prefix of what the reference server sent (first difference at %d)", firstDiff(want, cGot))
				return
			}
			if len(cGot) < sent {
				key := "refserver/stuck"
				if coalesce && len(later) == 0 {
					key = "stuck/s2c/coalesced-with-handshake"
				}
				fail(c, "delivery", key, "quiescent, but the client has read only %d of the %d bytes the server sent (client wire reads %v, wire holds %d)", len(cGot), sent, cw.ReadSizes, len(cw.In.Buf))
			}
		},
	}
}

// ---- variant C: writes that end just short of a sampled target -----------------
// The real server writes, for every value T of its length table and k in
// {1, 10, 21, 22}, a record whose framed length is T-k while the sampler is
// scripted to return T first: the padding arithmetic takes its "smaller than
// a header" path (two padding frames, or a resample in paranoid mode).  The
// reference client must still decode exactly the written stream.

func nearTarget(name string, iat int, bias bool, seedNo int, seed int64) mc.Scenario {
	return mc.Scenario{
		Name:   name,
		Params: map[string]any{"iat": iat, "bias": bias, "seed": seedNo},
		Weight: 30,
		Run: func(c *mc.Ctx) {
			br := o4h.NewBridge(seed, fmt.Sprint("c01/", seedNo), iat, bias)
			stream := rnd.New(seed, "c01-"+name)
			rnd.Install(stream)
			refRnd := rnd.New(seed, "c01-ref-"+name)
			sf, err := br.ServerFactory()
			if err != nil {
				fail(c, "setup", "setup", "ServerFactory: %v", err)
				return
			}
			d := ref.NewDist(br.Seed, 0, 1448, bias)
			cw, sw := wire.Pipe("client", "server")
			var wrapErr, refErr, wErr error
			var rs *o4h.RefSession
			var want []byte
			records := 0
			res := sched.Run(c, sched.Options{NoPreempt: true, NoEarlyTimers: true, MaxSteps: 5_000_000}, func() {
				s := sched.Cur()
				s.Spawn("ref-client", func() {
					rs, _, refErr = o4h.RefClient(cw, br.ID.Pub[:], br.ID.NodeID[:], o4h.ClientOpts{PadLen: 90}, refRnd)
					if refErr != nil {
						cw.Close()
						return
					}
					for {
						if _, err := rs.RecvOnce(); err != nil {
							break
						}
					}
				})
				var conn net.Conn
				conn, wrapErr = sf.WrapConn(sw)
				if wrapErr != nil {
					return
				}
				for i, v := range d.Values {
					for _, k := range []int{1, 10, 21, 22} {
						size := v - k - 21
						if size < 1 {
							continue
						}
						p := o4h.Pattern(byte(i), records, size)
						stream.Script = rnd.ScriptSample(i, 0) // coin 0: the die's own value
						n, err := wire.WriteOwned(conn, p)
						if err != nil || n != size {
							wErr = fmt.Errorf("Write(%d) = %d, %v", size, n, err)
							return
						}
						want = append(want, p...)
						records++
					}
				}
				conn.Close()
			})
			if len(res.Panics) > 0 {
				fail(c, "no-panic", "panic", "%s", res.Panics[0])
				return
			}
			c.Observe("near", fmt.Sprintf("records=%d wrap=%v ref=%v w=%v", records, wrapErr, refErr, wErr))
			c.Count("near_target_records", int64(records))
			if wrapErr != nil || refErr != nil || wErr != nil {
				fail(c, "io-error", "near/io-error", "unexpected error: WrapConn=%v ref=%v write=%v", wrapErr, refErr, wErr)
				return
			}
			if rs.RxErr != nil && !bytes.Equal(rs.Payload, want) {
				fail(c, "prefix", "near/desync", "the reference client could not decode the server's stream after %d of %d bytes: %v", len(rs.Payload), len(want), rs.RxErr)
				return
			}
			if !bytes.Equal(rs.Payload, want) {
				fail(c, "prefix", "near/stream", "the reference client decoded %d bytes, the server wrote %d (first difference at %d)", len(rs.Payload), len(want), firstDiff(want, rs.Payload))
			}
		},
	}
}

// tinyTable: bridges whose length table is a single tiny value (2..16 bytes: a
// paranoid-mode write is shorter than a frame header); every write size must
// still be delivered.
func tinyTable(name string, iat int, seedHex string, seed int64) mc.Scenario {
	return mc.Scenario{
		Name:   name,
		Params: map[string]any{"iat": iat, "drbg_seed": seedHex},
		Weight: 30,
		Run: func(c *mc.Ctx) {
			id := o4h.NewBridge(seed, "c01/tiny", iat, false).ID
			ls, _ := hex.DecodeString(seedHex)
			br := &o4h.Bridge{ID: id, Seed: ls, IAT: iat}
			o4h.SetBias(false)
			rnd.Install(rnd.New(seed, "c01-"+name))
			refRnd := rnd.New(seed, "c01-ref-"+name)
			sf, err := br.ServerFactory()
			if err != nil {
				fail(c, "setup", "setup", "ServerFactory: %v", err)
				return
			}
			cw, sw := wire.Pipe("client", "server")
			var wrapErr, refErr, wErr error
			var rs *o4h.RefSession
			var want []byte
			res := sched.Run(c, sched.Options{NoPreempt: true, NoEarlyTimers: true, MaxSteps: 5_000_000}, func() {
				s := sched.Cur()
				s.Spawn("ref-client", func() {
					rs, _, refErr = o4h.RefClient(cw, br.ID.Pub[:], br.ID.NodeID[:], o4h.ClientOpts{PadLen: 90}, refRnd)
					if refErr != nil {
						cw.Close()
						return
					}
					for {
						if _, err := rs.RecvOnce(); err != nil {
							break
						}
					}
				})
				var conn net.Conn
				conn, wrapErr = sf.WrapConn(sw)
				if wrapErr != nil {
					return
				}
				for i, size := range []int{1, 2, 5, 13, 30, 100, 1500} {
					p := o4h.Pattern(byte('a'+i), len(want), size)
					if n, err := wire.WriteOwned(conn, p); err != nil || n != size {
						wErr = fmt.Errorf("Write(%d) = %d, %v", size, n, err)
						return
					}
					want = append(want, p...)
				}
				conn.Close()
			})
			table := ref.NewDist(ls, 0, 1448, false).Abs()
			if len(res.Panics) > 0 {
				fail(c, "no-panic", "tiny-table/panic", "length table %v, iat-mode %d: %s", table, iat, res.Panics[0])
				return
			}
			if res.Livelock {
				fail(c, "delivery", "tiny-table/livelock", "length table %v, iat-mode %d: Write did not return within the step budget", table, iat)
				return
			}
			if wrapErr != nil || refErr != nil || wErr != nil {
				fail(c, "io-error", "tiny-table/io-error", "length table %v: WrapConn=%v ref=%v write=%v", table, wrapErr, refErr, wErr)
				return
			}
			if !bytes.Equal(rs.Payload, want) {
				fail(c, "prefix", "tiny-table/stream", "length table %v, iat-mode %d: the reference client decoded %d bytes, the server wrote %d (error %v)", table, iat, len(rs.Payload), len(want), rs.RxErr)
			}
			c.Observe("table", fmt.Sprint(table))
		},
	}
}

// ---- variant D: seed adoption while the writer samples -----------------------------
// The client's reader thread processes the server's PRNG-seed packet (which
// re-seeds the length distribution) while its writer thread samples that
// distribution; the distribution code is instrumented at statement
// granularity, so every interleaving of the two critical sections with at
// most b preemptions is explored.  Every sample must come from the old or the
// new table, nothing may panic, and afterwards the table is the bridge's.

func seedAdoption(name string, iat int, bias bool, seedNo int, bound int, seed int64) mc.Scenario {
	return mc.Scenario{
		Name:   name,
		Params: map[string]any{"iat": iat, "bias": bias, "seed": seedNo},
		Bound:  bound,
		Weight: 400,
		Run: func(c *mc.Ctx) {
			br := o4h.NewBridge(seed, fmt.Sprint("c01/", seedNo), iat, bias)
			o4h.SetBias(bias)
			rnd.Install(rnd.New(seed, "c01-"+name))
			refRnd := rnd.New(seed, "c01-ref-"+name)
			want := ref.NewDist(br.Seed, 0, 1448, bias)
			cw, sw := wire.Pipe("client", "server")
			var dialErr, refErr, rdErr error
			var samples []int
			var before, after []int
			unreadable := false
			res := sched.Run(c, sched.Options{PreemptKinds: []string{"stmt", "lock"}, NoEarlyTimers: true, MaxSteps: 2_000_000}, func() {
				s := sched.Cur()
				var rs *o4h.RefSession
				s.Spawn("ref-server", func() {
					rs, refErr = o4h.RefServer(sw, br.ID, o4h.ServerOpts{PadLen: 4, LenSeed: br.Seed, WithData: []byte("x")}, refRnd)
					_ = rs
				})
				conn, err := o4h.Dial(br.ClientArgs("cert", nil), cw)
				dialErr = err
				if err != nil {
					return
				}
				before, _, _ = obfs4.VerifDists(conn)
				ld := obfs4.VerifLenDist(conn)
				if ld == nil || before == nil {
					unreadable = true // (private representation unknown to the accessor)
					return
				}
				done := false
				s.Spawn("client-reader", func() {
					b := make([]byte, 8)
					_, rdErr = conn.Read(b) // decodes the seed packet, then the byte of payload
					done = true
				})
				for i := 0; i < 2; i++ {
					samples = append(samples, ld.Sample())
				}
				s.Point("join", func() bool { return done })
				after, _, _ = obfs4.VerifDists(conn)
			})
			if unreadable {
				c.Count("seed_adoption_scenarios_without_readable_distribution", 1)
				c.Trivial()
				return
			}
			if len(res.Panics) > 0 {
				fail(c, "no-panic", "seed-adoption/panic", "%s", res.Panics[0])
				return
			}
			c.Observe("samples", fmt.Sprint(samples, len(before), len(after)))
			if dialErr != nil || refErr != nil || rdErr != nil {
				fail(c, "io-error", "seed-adoption/io-error", "Dial=%v ref=%v read=%v", dialErr, refErr, rdErr)
				return
			}
			if res.Quiescent || res.Livelock {
				fail(c, "delivery", "seed-adoption/stuck", "threads never finished: %+v", res.Blocked)
				return
			}
			in := func(xs []int, v int) bool {
				for _, x := range xs {
					if x == v {
						return true
					}
				}
				return false
			}
			for _, v := range samples {
				if !in(before, v) && !in(after, v) {
					fail(c, "sample", "seed-adoption/mixed-table", "a sample taken while the seed was being adopted is %d: neither in the client's own table nor in the bridge's", v)
				}
			}
			if fmt.Sprint(after) != fmt.Sprint(want.Abs()) {
				fail(c, "sample", "seed-adoption/table", "after adopting the seed the length table differs from the reference table of the bridge seed")
			}
		},
	}
}

// ---- variant E: reader and writer of one endpoint at statement granularity -------
// The endpoint's Read/readPackets/processPackets and Write/makePacket/padBurst are
// instrumented with a scheduling point before every statement; one reader and
// one writer thread of the same real endpoint run against the reference peer
// with at most b preemptions at statement points.  Any state the two paths
// share without synchronisation (a scratch buffer, a cursor) shows up as a
// corrupted or stuck stream.

func duplexStmt(name string, role string, iat int, bound int, seed int64) mc.Scenario {
	return mc.Scenario{
		Name:   name,
		Params: map[string]any{"role": role, "iat": iat},
		Bound:  bound,
		Weight: 500,
		Run: func(c *mc.Ctx) {
			br := o4h.NewBridge(seed, "c01/0", iat, false)
			o4h.SetBias(false)
			rnd.Install(rnd.New(seed, "c01-"+name))
			refRnd := rnd.New(seed, "c01-ref-"+name)
			cw, sw := wire.Pipe("client", "server")
			var hsErr, refErr, rdErr, wrErr error
			var got []byte
			var rs *o4h.RefSession
			inbound := o4h.Pattern('I', 0, 300)
			outbound := o4h.Pattern('O', 0, 200)
			res := sched.Run(c, sched.Options{PreemptKinds: []string{"stmt"}, NoEarlyTimers: true, MaxSteps: 3_000_000}, func() {
				s := sched.Cur()
				var conn net.Conn
				refDone := false
				s.Spawn("ref-peer", func() {
					defer func() { refDone = true }()
					if role == "client" {
						rs, refErr = o4h.RefServer(sw, br.ID, o4h.ServerOpts{PadLen: 4, LenSeed: br.Seed}, refRnd)
					} else {
						rs, _, refErr = o4h.RefClient(cw, br.ID.Pub[:], br.ID.NodeID[:], o4h.ClientOpts{PadLen: 90}, refRnd)
					}
					if refErr != nil {
						return
					}
					rs.Send(inbound[:150], 3)
					rs.Send(inbound[150:], 0)
					for len(rs.Payload) < len(outbound) {
						if _, err := rs.RecvOnce(); err != nil {
							return
						}
					}
				})
				if role == "client" {
					conn, hsErr = o4h.Dial(br.ClientArgs("cert", nil), cw)
				} else {
					sf, err := br.ServerFactory()
					if err != nil {
						hsErr = err
						return
					}
					conn, hsErr = sf.WrapConn(sw)
				}
				if hsErr != nil {
					return
				}
				rdone := false
				s.Spawn("reader", func() {
					b := make([]byte, 64)
					for len(got) < len(inbound) {
						n, err := conn.Read(b)
						got = append(got, b[:n]...)
						if err != nil {
							rdErr = err
							break
						}
					}
					rdone = true
				})
				if _, err := wire.WriteOwned(conn, outbound[:120]); err != nil {
					wrErr = err
				} else if _, err := wire.WriteOwned(conn, outbound[120:]); err != nil {
					wrErr = err
				}
				s.Point("join", func() bool { return rdone && refDone })
			})
			if len(res.Panics) > 0 {
				fail(c, "no-panic", "duplex/panic", "%s", res.Panics[0])
				return
			}
			c.Observe("out", fmt.Sprintf("hs=%v ref=%v rd=%v wr=%v got=%d", hsErr, refErr, rdErr, wrErr, len(got)))
			if hsErr != nil || refErr != nil {
				fail(c, "handshake", "duplex/handshake", "handshake: real=%v ref=%v", hsErr, refErr)
				return
			}
			if rdErr != nil || wrErr != nil {
				fail(c, "io-error", "duplex/io-error", "read=%v write=%v on an untampered link (delivered %d bytes)", rdErr, wrErr, len(got))
				return
			}
			if !bytes.Equal(got, inbound) {
				fail(c, "prefix", "duplex/stream-in", "the endpoint delivered %d bytes that differ from what the peer sent (first difference at %d; quiescent=%v)", len(got), firstDiff(inbound, got), res.Quiescent)
				return
			}
			if rs.RxErr != nil || !bytes.HasPrefix(rs.Payload, outbound) && !bytes.HasPrefix(outbound, rs.Payload) {
				fail(c, "prefix", "duplex/stream-out", "the peer could not decode what the endpoint wrote: %v (%d bytes)", rs.RxErr, len(rs.Payload))
				return
			}
			if len(rs.Payload) < len(outbound) {
				fail(c, "delivery", "duplex/stuck", "the peer received %d of %d bytes; blocked: %+v", len(rs.Payload), len(outbound), res.Blocked)
			}
		},
	}
}

// twoConnStmt: two established connections of one process (two clients, or two
// connections wrapped by one server factory), each with a reader and a writer
// thread, interleaved at every statement of Read/Write/packet/framing code.
// Connections must not influence each other (no state shared across them).
// prior: an earlier connection of the same process (same factory) that carried
// data and was then closed TWICE -- obfs4proxy's relay closes every connection
// from both copy directions and once more on the way out.
func twoConnStmt(name string, role string, iat int, bound int, seed int64, prior bool) mc.Scenario {
	return mc.Scenario{
		Name:   name,
		Params: map[string]any{"role": role, "iat": iat, "connections": 2, "earlier_connection_closed_twice": prior},
		Bound:  bound,
		Weight: 500,
		Run: func(c *mc.Ctx) {
			br := o4h.NewBridge(seed, "c01/0", iat, false)
			o4h.SetBias(false)
			rnd.Install(rnd.New(seed, "c01-"+name))
			type cn struct {
				cw, sw     *wire.Conn
				rs         *o4h.RefSession
				conn       net.Conn
				in, out    []byte
				got        []byte
				hsErr      error
				refErr     error
				rdErr      error
				wrErr      error
				rdone, ref bool
			}
			var cs []*cn
			for i := 0; i < 2; i++ {
				x := &cn{in: o4h.Pattern(byte('I'+i), 0, 90+i), out: o4h.Pattern(byte('O'+i), 0, 70+i)}
				x.cw, x.sw = wire.Pipe(fmt.Sprintf("client%d", i), fmt.Sprintf("server%d", i))
				cs = append(cs, x)
			}
			res := sched.Run(c, sched.Options{PreemptKinds: []string{"stmt"}, NoEarlyTimers: true, MaxSteps: 3_000_000}, func() {
				s := sched.Cur()
				var sf base.ServerFactory
				if role == "server" {
					var err error
					if sf, err = br.ServerFactory(); err != nil {
						cs[0].hsErr = err
						return
					}
				}
				if prior {
					inb := o4h.Pattern('p', 0, 200)
					p := establish(s, role, br, sf, "-earlier", rnd.New(seed, "c01-ref-earlier-"+name), func(p *pairT) {
						p.rs.Send(inb, 1)
						for {
							if _, err := p.rs.RecvOnce(); err != nil {
								return
							}
						}
					})
					if p.hsErr != nil {
						cs[0].hsErr = fmt.Errorf("earlier connection: %v", p.hsErr)
						return
					}
					if _, err := io.ReadFull(p.conn, make([]byte, len(inb))); err != nil {
						cs[0].hsErr = fmt.Errorf("earlier connection: read: %v", err)
						return
					}
					wire.WriteOwned(p.conn, o4h.Pattern('q', 0, 100))
					p.conn.Close()
					p.conn.Close()
				}
				hsDone := 0
				for i, x := range cs {
					i, x := i, x
					refRnd := rnd.New(seed, fmt.Sprint("c01-ref-", name, i))
					s.Spawn(fmt.Sprintf("ref-peer%d", i), func() {
						defer func() { x.ref = true }()
						if role == "client" {
							x.rs, x.refErr = o4h.RefServer(x.sw, br.ID, o4h.ServerOpts{PadLen: 4, LenSeed: br.Seed}, refRnd)
						} else {
							x.rs, _, x.refErr = o4h.RefClient(x.cw, br.ID.Pub[:], br.ID.NodeID[:], o4h.ClientOpts{PadLen: 90}, refRnd)
						}
						if x.refErr != nil {
							return
						}
						// the peer's data is on the wire before the readers start
						x.rs.Send(x.in, 2)
						s.Point("hs-done", func() bool { return hsDone == len(cs) })
						for len(x.rs.Payload) < len(x.out) {
							if _, err := x.rs.RecvOnce(); err != nil {
								return
							}
						}
					})
				}
				for _, x := range cs {
					if role == "client" {
						x.conn, x.hsErr = o4h.Dial(br.ClientArgs("cert", nil), x.cw)
					} else {
						x.conn, x.hsErr = sf.WrapConn(x.sw)
					}
					if x.hsErr != nil {
						return
					}
					hsDone++
				}
				for i, x := range cs {
					x := x
					s.Spawn(fmt.Sprintf("reader%d", i), func() {
						b := make([]byte, 64)
						for len(x.got) < len(x.in) {
							n, err := x.conn.Read(b)
							x.got = append(x.got, b[:n]...)
							if err != nil {
								x.rdErr = err
								break
							}
						}
						x.rdone = true
					})
					s.Spawn(fmt.Sprintf("writer%d", i), func() {
						_, x.wrErr = wire.WriteOwned(x.conn, x.out)
					})
				}
				s.Point("join", func() bool { return cs[0].rdone && cs[1].rdone && cs[0].ref && cs[1].ref })
			})
			if len(res.Panics) > 0 {
				fail(c, "no-panic", "two-conn/panic", "%s", res.Panics[0])
				return
			}
			for i, x := range cs {
				if x.hsErr != nil || x.refErr != nil {
					fail(c, "handshake", "two-conn/handshake", "connection %d handshake: real=%v ref=%v", i, x.hsErr, x.refErr)
					return
				}
				if x.rdErr != nil || x.wrErr != nil {
					fail(c, "io-error", "two-conn/io-error", "connection %d: read=%v write=%v on an untampered link", i, x.rdErr, x.wrErr)
					return
				}
				if !bytes.Equal(x.got, x.in) {
					fail(c, "prefix", "two-conn/stream-in", "connection %d delivered %d bytes that differ from what its peer sent (first difference at %d; quiescent=%v): connections influence each other", i, len(x.got), firstDiff(x.in, x.got), res.Quiescent)
					return
				}
				if x.rs.RxErr != nil || !bytes.Equal(x.rs.Payload, x.out) {
					fail(c, "prefix", "two-conn/stream-out", "the peer of connection %d decoded %d of %d bytes (err=%v): connections influence each other", i, len(x.rs.Payload), len(x.out), x.rs.RxErr)
					return
				}
			}
			c.Observe("ok", 2)
		},
	}
}

// pairT is one real endpoint (role) against a reference peer.
type pairT struct {
	cw, sw       *wire.Conn
	real         *wire.Conn // the real endpoint's side of the wire
	conn         net.Conn
	rs           *o4h.RefSession
	hsErr, rfErr error
	refDone      bool
}

// establish spawns the reference peer (which runs peerBody once established)
// and performs the real endpoint's handshake on the calling thread.
func establish(s *sched.Sched, role string, br *o4h.Bridge, sf base.ServerFactory, tag string, refRnd *rnd.Stream, peerBody func(p *pairT)) *pairT {
	p := &pairT{}
	p.cw, p.sw = wire.Pipe("client"+tag, "server"+tag)
	p.real = p.cw
	if role == "server" {
		p.real = p.sw
	}
	s.Spawn("ref-peer"+tag, func() {
		defer func() { p.refDone = true }()
		if role == "client" {
			p.rs, p.rfErr = o4h.RefServer(p.sw, br.ID, o4h.ServerOpts{PadLen: 4, LenSeed: br.Seed}, refRnd)
		} else {
			p.rs, _, p.rfErr = o4h.RefClient(p.cw, br.ID.Pub[:], br.ID.NodeID[:], o4h.ClientOpts{PadLen: 90}, refRnd)
		}
		if p.rfErr == nil {
			peerBody(p)
		}
	})
	if role == "client" {
		p.conn, p.hsErr = o4h.Dial(br.ClientArgs("cert", nil), p.cw)
	} else {
		p.conn, p.hsErr = sf.WrapConn(p.sw)
	}
	return p
}

// edgeScenario: boundary coincidences and end-of-stream / error paths of one
// real endpoint (kind):
//
//	exact-buffer/<frames>: the peer's burst is exactly <frames> maximum frames
//	    (16 = the endpoint's whole read buffer) and then the peer is silent;
//	close-with-data/<end>: the peer writes and ends (eof / reset); the last
//	    bytes arrive in the same Read as the end (the wire's CoalesceEnd mode);
//	other-conn-write-failure/<n>: the n-th wire write of ANOTHER connection of
//	    the same process fails; this connection's stream must be unaffected.
var sessionPauses = []time.Duration{time.Second, 29 * time.Second, 2 * time.Second, 61 * time.Second, 10 * time.Minute, 25 * time.Hour}

func edgeScenario(name, role string, iat int, kind string, arg int, seed int64) mc.Scenario {
	return mc.Scenario{
		Name:   name,
		Params: map[string]any{"role": role, "iat": iat, "kind": kind, "arg": arg},
		Weight: 60,
		Run: func(c *mc.Ctx) {
			br := o4h.NewBridge(seed, "c01/0", iat, false)
			o4h.SetBias(false)
			rnd.Install(rnd.New(seed, "c01-"+name))
			var got []byte
			var rdErr, wrErr, otherErr error
			var inbound, outbound []byte
			var p, other *pairT
			finished := false
			pausedRound := 0
			res := sched.Run(c, sched.Options{NoPreempt: true, NoEarlyTimers: true, MaxSteps: 3_000_000}, func() {
				s := sched.Cur()
				var sf base.ServerFactory
				if role == "server" {
					var err error
					if sf, err = br.ServerFactory(); err != nil {
						rdErr = err
						return
					}
				}
				switch kind {
				case "exact-buffer":
					inbound = o4h.Pattern('I', 0, arg*1427)
					p = establish(s, role, br, sf, "", rnd.New(seed, "c01-ref-"+name), func(p *pairT) {
						p.rs.Send(inbound, 0) // arg maximum frames in one write, then silence
					})
				case "close-with-data":
					inbound = o4h.Pattern('I', 0, 100+2*1427)
					p = establish(s, role, br, sf, "", rnd.New(seed, "c01-ref-"+name), func(p *pairT) {
						p.rs.Send(inbound[:100], 3)
						p.rs.Send(inbound[100:], 0)
						peer := p.sw
						if role == "server" {
							peer = p.cw
						}
						if arg == 0 {
							peer.CloseWrite()
						} else {
							peer.Out.Err = errors.New("connection reset by peer")
						}
					})
					if p.hsErr == nil {
						p.real.CoalesceEnd = true
					}
				case "paused-session":
					// rounds of traffic in both directions separated by idle periods
					// longer than every handshake timeout; arg 0: this endpoint pauses
					// before it writes, arg 1: the peer pauses while this endpoint
					// waits in Read
					const blk = 300
					inbound, outbound = o4h.Pattern('I', 0, blk*len(sessionPauses)), o4h.Pattern('O', 0, blk*len(sessionPauses))
					p = establish(s, role, br, sf, "", rnd.New(seed, "c01-ref-"+name), func(p *pairT) {
						for r := range sessionPauses {
							for len(p.rs.Payload) < (r+1)*blk {
								if _, err := p.rs.RecvOnce(); err != nil {
									return
								}
							}
							if arg == 1 {
								sched.Sleep(sessionPauses[r])
							}
							p.rs.Send(inbound[r*blk:(r+1)*blk], 0)
						}
					})
					if p.hsErr != nil {
						return
					}
					rb := make([]byte, blk)
					for r := range sessionPauses {
						if arg == 0 {
							sched.Sleep(sessionPauses[r])
						}
						pausedRound = r
						if _, wrErr = wire.WriteOwned(p.conn, outbound[r*blk : (r+1)*blk]); wrErr != nil {
							return
						}
						n, err := io.ReadFull(p.conn, rb)
						got = append(got, rb[:n]...)
						if err != nil {
							rdErr = err
							return
						}
					}
					s.Point("peer-done", func() bool { return p.refDone })
					finished = true
					return
				case "read-deadline-poll":
					// the application polls with SetReadDeadline (the one deadline
					// an obfs4 connection supports): a Read times out -- on an idle
					// link (arg 0) or with half a frame received (arg 1) --, the
					// deadline is cleared and the Read is retried
					inbound = o4h.Pattern('I', 0, 900)
					p = establish(s, role, br, sf, "", rnd.New(seed, "c01-ref-"+name), func(p *pairT) {
						raw := p.rs.Tx.Seal(ref.Packet(ref.PktPayload, inbound, 11))
						if arg == 1 {
							p.rs.SendRaw(raw[:len(raw)/2])
							raw = raw[len(raw)/2:]
						}
						sched.Sleep(10 * time.Second)
						p.rs.SendRaw(raw)
					})
					if p.hsErr != nil {
						return
					}
					rb := make([]byte, 4096)
					timeouts := 0
					for round := 0; len(got) < len(inbound) && round < 6; round++ {
						if err := p.conn.SetReadDeadline(s.Now().Add(4 * time.Second)); err != nil {
							rdErr = fmt.Errorf("SetReadDeadline: %w", err)
							return
						}
						n, err := p.conn.Read(rb)
						got = append(got, rb[:n]...)
						if err != nil {
							if !wire.IsTimeout(err) {
								rdErr = err
								return
							}
							timeouts++
						}
					}
					pausedRound = timeouts
					if err := p.conn.SetReadDeadline(time.Time{}); err != nil {
						rdErr = fmt.Errorf("SetReadDeadline: %w", err)
						return
					}
					s.Point("peer-done", func() bool { return p.refDone })
					finished = true
					return
				case "other-conn-write-failure":
					outbound = o4h.Pattern('O', 0, 2000)
					other = establish(s, role, br, sf, "-other", rnd.New(seed, "c01-ref-other-"+name), func(p *pairT) {
						for {
							if _, err := p.rs.RecvOnce(); err != nil {
								return
							}
						}
					})
					if other.hsErr != nil {
						rdErr = other.hsErr
						return
					}
					p = establish(s, role, br, sf, "", rnd.New(seed, "c01-ref-"+name), func(p *pairT) {
						for len(p.rs.Payload) < len(outbound) {
							if _, err := p.rs.RecvOnce(); err != nil {
								return
							}
						}
					})
					if p.hsErr != nil {
						return
					}
					base0 := other.real.NWrites
					other.real.WriteFault = func(n int, _ []byte) error {
						if n-base0 >= arg {
							return errors.New("injected write failure")
						}
						return nil
					}
					_, otherErr = wire.WriteOwned(other.conn, o4h.Pattern('X', 0, 3000))
					_, wrErr = wire.WriteOwned(p.conn, outbound)
					other.real.Close()
					s.Point("peer-done", func() bool { return p.refDone })
					finished = true
					return
				}
				if p.hsErr != nil {
					return
				}
				b := make([]byte, 4096)
				for {
					n, err := p.conn.Read(b)
					got = append(got, b[:n]...)
					if err != nil {
						rdErr = err
						break
					}
					if kind == "exact-buffer" && len(got) >= len(inbound) {
						break
					}
				}
				finished = true
			})
			if len(res.Panics) > 0 {
				fail(c, "no-panic", "edge/panic/"+kind, "%s", res.Panics[0])
				return
			}
			if p == nil || p.hsErr != nil || p.rfErr != nil {
				fail(c, "handshake", "edge/handshake", "setup failed: %v / %+v", rdErr, p)
				return
			}
			c.Observe("out", fmt.Sprintf("got=%d rd=%v wr=%v other=%v finished=%v", len(got), rdErr, wrErr, otherErr, finished))
			switch kind {
			case "exact-buffer":
				if !bytes.Equal(got, inbound) || !finished {
					fail(c, "delivery", "edge/exact-buffer/stuck", "the peer wrote %d bytes as exactly %d maximum frames (%d bytes on the wire) and went silent: the endpoint delivered %d bytes (finished=%v, read error %v, blocked %+v)", len(inbound), arg, arg*1448, len(got), finished, rdErr, res.Blocked)
				}
			case "close-with-data":
				if !bytes.HasPrefix(inbound, got) {
					fail(c, "prefix", "edge/close-with-data/prefix", "delivered bytes are not a prefix of what the peer wrote")
				} else if len(got) != len(inbound) {
					fail(c, "delivery", "edge/close-with-data/lost", "the peer wrote %d bytes and ended; its last bytes arrived together with the end of the stream: the endpoint delivered only %d bytes (then %v)", len(inbound), len(got), rdErr)
				} else if rdErr == nil {
					fail(c, "delivery", "edge/close-with-data/no-end", "the stream ended but Read never reported it")
				}
			case "paused-session":
				var sofar time.Duration
				for r := 0; r <= pausedRound; r++ {
					sofar += sessionPauses[r]
				}
				who := []string{"this endpoint", "the peer"}[arg]
				if wrErr != nil {
					fail(c, "io-error", "edge/paused-session/write", "established %s connection, %s idle for %v (%v of pauses since the handshake): Write failed with %v", role, who, sessionPauses[pausedRound], sofar, wrErr)
				} else if rdErr != nil {
					fail(c, "io-error", "edge/paused-session/read", "established %s connection, %s idle for %v (%v of pauses since the handshake): Read failed with %v", role, who, sessionPauses[pausedRound], sofar, rdErr)
				} else if !finished || !bytes.Equal(got, inbound) {
					fail(c, "delivery", "edge/paused-session/inbound", "over a session with pauses the peer wrote %d bytes, the endpoint delivered %d (finished=%v, blocked %+v)", len(inbound), len(got), finished, res.Blocked)
				} else if p.rs.RxErr != nil || !bytes.Equal(p.rs.Payload, outbound) {
					fail(c, "delivery", "edge/paused-session/outbound", "over a session with pauses the endpoint wrote %d bytes, the peer decoded %d (error: %v)", len(outbound), len(p.rs.Payload), p.rs.RxErr)
				}
			case "read-deadline-poll":
				if pausedRound == 0 {
					c.Trivial() // no Read timed out
				}
				if rdErr != nil {
					fail(c, "io-error", "edge/read-deadline-poll/error", "an application polling with 4 s read deadlines (%d Reads timed out, the peer sent after 10 s): %v", pausedRound, rdErr)
				} else if !finished || !bytes.Equal(got, inbound) {
					fail(c, "delivery", "edge/read-deadline-poll/lost", "after %d timed-out Reads the peer's %d bytes were written, but Read delivered %d (finished=%v, blocked %+v)", pausedRound, len(inbound), len(got), finished, res.Blocked)
				}
			case "other-conn-write-failure":
				if otherErr == nil {
					c.Trivial() // the other connection issued fewer wire writes than the fault index
				}
				if wrErr != nil {
					fail(c, "io-error", "edge/other-conn/write-error", "Write on a healthy connection failed after another connection's write failure: %v", wrErr)
				} else if p.rs.RxErr != nil || !bytes.Equal(p.rs.Payload, outbound) {
					fail(c, "prefix", "edge/other-conn/stream-out", "after a failed Write on another connection of the same process, the peer of this connection decoded %d of %d bytes (error: %v)", len(p.rs.Payload), len(outbound), p.rs.RxErr)
				}
			}
		},
	}
}

func main() {
	mc.Main("C01", func(cfg *mc.Config, emit func(mc.Scenario)) {
		scripts := []script{
			{"small", []int{1, 0, 1}, []int{1}},
			{"edges", []int{1427, 1428}, []int{2855}},
			{"bulk", []int{4000}, []int{1428, 4000, 1}},
		}
		b := 2
		if cfg.Thorough() {
			b = 3
			scripts = append(scripts, script{"more", []int{0, 1428, 2855}, []int{1, 1427, 0}})
		}
		K := 2
		if cfg.Thorough() {
			K = 4
		}
		for iat := 0; iat <= 2; iat++ {
			for _, bias := range []bool{false, true} {
				for sd := 0; sd < K; sd++ {
					for _, sc := range scripts {
						rbufs := []int{4096}
						if sc.name == "small" || cfg.Thorough() {
							rbufs = []int{1, 7, 4096}
						} else if sc.name == "edges" {
							rbufs = []int{1000, 4096}
						}
						if sc.name != "small" && (iat == 0 || cfg.Thorough()) {
							rbufs = append(rbufs, -1)
						}
						for _, rb := range rbufs {
							bb := b
							if iat > 0 && sc.name == "bulk" && !cfg.Thorough() {
								bb = 1
							}
							name := fmt.Sprintf("real-real/iat%d/bias=%v/seed%d/%s/rbuf=%d", iat, bias, sd, sc.name, rb)
							emit(realReal(name, iat, bias, sd, sc, rb, bb, wire.ChunkMarks, cfg.Seed))
						}
					}
				}
			}
		}
		for iat := 0; iat <= 2; iat++ {
			for _, bias := range []bool{false, true} {
				for sd := 0; sd < K+1; sd++ {
					emit(nearTarget(fmt.Sprintf("near-target/iat%d/bias=%v/seed%d", iat, bias, sd), iat, bias, sd, cfg.Seed))
				}
			}
		}
		// single-value tables 3, 11, 12, 14, 16 (seeds found once by the C09 search)
		for _, sd := range []string{"6709291d08f72e377bb31ab90c3f61b3fc173d81005a75cd", "3735d4d755d55ed64d05a51694285fb88669ce9abf1c819c", "118bf1269b33352fe39dc6f1d1e60ef037ad14ff9faf33ae", "d07c6ff48ded06ea6203c5edb3d06ba14d9f372127ff1638", "935ec7bd553632d5c030155863f84d421277ae4b3b2c428f"} {
			for iat := 0; iat <= 2; iat++ {
				emit(tinyTable(fmt.Sprintf("tiny-table/iat%d/%s", iat, sd[:8]), iat, sd, cfg.Seed))
			}
		}
		for _, bias := range []bool{false, true} {
			emit(seedAdoption(fmt.Sprintf("seed-adoption/bias=%v", bias), 0, bias, 0, b, cfg.Seed))
		}
		for _, role := range []string{"client", "server"} {
			for iat := 0; iat <= 2; iat++ {
				db := 1
				if cfg.Thorough() {
					db = 2
				}
				emit(duplexStmt(fmt.Sprintf("duplex-stmt/%s/iat%d", role, iat), role, iat, db, cfg.Seed))
			}
			for iat := 0; iat <= 2; iat++ {
				for _, frames := range []int{15, 16, 17, 32} {
					emit(edgeScenario(fmt.Sprintf("edge/%s/iat%d/exact-buffer/%d-frames", role, iat, frames), role, iat, "exact-buffer", frames, cfg.Seed))
				}
				for end := 0; end <= 1; end++ {
					emit(edgeScenario(fmt.Sprintf("edge/%s/iat%d/close-with-data/%s", role, iat, []string{"eof", "reset"}[end]), role, iat, "close-with-data", end, cfg.Seed))
				}
				for _, n := range []int{0, 1, 2} {
					emit(edgeScenario(fmt.Sprintf("edge/%s/iat%d/other-conn-write-failure/%d", role, iat, n), role, iat, "other-conn-write-failure", n, cfg.Seed))
				}
				for how := 0; how <= 1; how++ {
					emit(edgeScenario(fmt.Sprintf("edge/%s/iat%d/read-deadline-poll/%s", role, iat, []string{"idle", "mid-frame"}[how]), role, iat, "read-deadline-poll", how, cfg.Seed))
				}
				for who := 0; who <= 1; who++ {
					emit(edgeScenario(fmt.Sprintf("edge/%s/iat%d/paused-session/%s-pauses", role, iat, []string{"real", "peer"}[who]), role, iat, "paused-session", who, cfg.Seed))
				}
			}
			for _, iat := range []int{0, 2} {
				if iat == 2 && !cfg.Thorough() && role == "server" {
					continue
				}
				emit(twoConnStmt(fmt.Sprintf("two-connections-stmt/%s/iat%d", role, iat), role, iat, 1, cfg.Seed, false))
				emit(twoConnStmt(fmt.Sprintf("two-connections-stmt/%s/iat%d/after-a-connection-closed-twice", role, iat), role, iat, 1, cfg.Seed, true))
			}
		}
		// reference server: handshake + payload coalesced, boundary splits
		for iat := 0; iat <= 2; iat++ {
			for _, pad := range []int{0, 1, 500} {
				for _, wd := range [][]int{{1}, {1427}, {1428}, {3000}} {
					for _, later := range [][]int{nil, {5}} {
						name := fmt.Sprintf("real-client/ref-server/iat%d/pad=%d/coalesced=%v/later=%v", iat, pad, wd, later)
						emit(realClientRefServer(name, iat, false, 0, pad, wd, later, true, 4096, b, false, cfg.Seed))
					}
				}
				name := fmt.Sprintf("real-client/ref-server/iat%d/pad=%d/separate", iat, pad)
				emit(realClientRefServer(name, iat, false, 0, pad, []int{1, 1428}, []int{3000, 1}, false, 100, b, false, cfg.Seed))
			}
		}
		// every split offset of the coalesced burst (1 deviation = one split point)
		pads := []int{0, 33}
		if cfg.Thorough() {
			pads = []int{0, 1, 33, 500}
		}
		for _, pad := range pads {
			name := fmt.Sprintf("real-client/ref-server/every-split/pad=%d", pad)
			eb := 1
			if cfg.Thorough() {
				eb = 2
			}
			sc := realClientRefServer(name, 0, false, 1, pad, []int{10}, []int{3}, true, 4096, eb, true, cfg.Seed)
			sc.Weight = 200
			emit(sc)
		}
	})
}
