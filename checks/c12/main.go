//go:build verif

// C12: seeded distributions and generator are deterministic, in range and exact.
package main

import (
	"bytes"
	"encoding/binary"
	"fmt"
	"math"
	"math/rand"

	"gitlab.com/yawning/obfs4.git/common/csrand"
	"gitlab.com/yawning/obfs4.git/common/drbg"
	"gitlab.com/yawning/obfs4.git/common/probdist"
	"gitlab.com/yawning/obfs4.git/internal/zzverif/mc"
	"gitlab.com/yawning/obfs4.git/internal/zzverif/ref"
	"gitlab.com/yawning/obfs4.git/internal/zzverif/rnd"
	"gitlab.com/yawning/obfs4.git/internal/zzverif/sched"
)

func fail(c *mc.Ctx, oracle, key, format string, a ...any) {
	c.Fail(oracle, "C12/"+key, format, a...)
}

type bounds struct{ min, max int }

var allBounds = []bounds{{0, 1448}, {0, 100}, {21, 1448}, {0, 1}, {0, 2}, {5, 7}, {-3, 3}, {1000, 1001}}

func mkSeed(b []byte) *drbg.Seed {
	s, err := drbg.SeedFromBytes(b)
	if err != nil {
		panic(err)
	}
	return s
}

func seedAlphabet(vseed int64, thorough bool) map[string][]byte {
	out := map[string][]byte{
		"all-zero": make([]byte, 24),
		"all-ones": bytes.Repeat([]byte{0xff}, 24),
		"counting": {0, 1, 2, 3, 4, 5, 6, 7, 8, 9, 10, 11, 12, 13, 14, 15, 16, 17, 18, 19, 20, 21, 22, 23},
	}
	K := 6
	if thorough {
		K = 400
	}
	for i := 0; i < K; i++ {
		out[fmt.Sprintf("rnd%d", i)] = rnd.New(vseed, fmt.Sprint("c12-seed-", i)).Bytes(24)
	}
	// seeds forcing the extreme table sizes, found with the reference generator
	for i, need1, need100 := 0, true, true; i < 100000 && (need1 || need100); i++ {
		s := rnd.New(vseed, fmt.Sprint("c12-search-", i)).Bytes(24)
		d := ref.NewDist(s, 0, 1448, false)
		if need1 && len(d.Values) == 1 {
			out["size1"] = s
			need1 = false
		}
		if need100 && len(d.Values) == 100 {
			out["size100"] = s
			need100 = false
		}
	}
	return out
}

func tablesEqual(c *mc.Ctx, what string, w *probdist.WeightedDist, d *ref.Dist) bool {
	if !probdist.VerifTablesOK(w) {
		// the private tables are not what the accessor knows: compare what is
		// still readable (the value table), otherwise nothing
		c.Count("distributions_without_readable_tables", 1)
		if vals, ok := probdist.VerifValuesOK(w); ok && fmt.Sprint(vals) != fmt.Sprint(d.Abs()) {
			fail(c, "tables", "tables/values", "%s: value table differs from the reference: %v vs %v", what, vals, d.Abs())
			return false
		}
		return true
	}
	v, wt, al, pr := probdist.VerifTables(w)
	if fmt.Sprint(v) != fmt.Sprint(d.Values) {
		fail(c, "tables", "tables/values", "%s: value table differs from the reference: %v vs %v", what, v, d.Values)
		return false
	}
	if len(wt) != len(d.Weights) {
		fail(c, "tables", "tables/weights", "%s: %d weights for %d values (reference: %d weights)", what, len(wt), len(v), len(d.Weights))
		return false
	}
	for i := range wt {
		if wt[i] != d.Weights[i] {
			fail(c, "tables", "tables/weights", "%s: weight %d is %v, reference %v", what, i, wt[i], d.Weights[i])
			return false
		}
	}
	// (how the alias/probability tables are built is the implementation's
	// business as long as they reproduce the weights -- checked below from the
	// real tables; agreement with the reference construction is only counted)
	same := fmt.Sprint(al) == fmt.Sprint(d.Alias) && len(pr) == len(d.Prob)
	for i := range pr {
		if same && pr[i] != d.Prob[i] {
			same = false
		}
	}
	if same {
		c.Count("alias_tables_equal_to_the_reference_construction", 1)
	}
	return true
}

func distScenario(sname string, seed []byte, b bounds, biased bool, other []byte) mc.Scenario {
	name := fmt.Sprintf("dist/%s/%d..%d/bias=%v", sname, b.min, b.max, biased)
	return mc.Scenario{Name: name, Params: map[string]any{"seed": fmt.Sprintf("%x", seed), "min": b.min, "max": b.max, "biased": biased}, Run: func(c *mc.Ctx) {
		stream := rnd.New(1, "c12-"+name)
		rnd.Install(stream)
		d := ref.NewDist(seed, b.min, b.max, biased)
		w1 := probdist.New(mkSeed(seed), b.min, b.max, biased)
		w2 := probdist.New(mkSeed(seed), b.min, b.max, biased)
		if !tablesEqual(c, "New(seed)", w1, d) || !tablesEqual(c, "second New(seed)", w2, d) {
			return
		}
		// histories: a distribution is a pure function of (seed, bounds, bias)
		w3 := probdist.New(mkSeed(other), b.min, b.max, biased)
		// ... and does not depend on which other distributions exist: creating or
		// re-seeding another one leaves the first two as they were
		if !tablesEqual(c, "New(seed) after another distribution was created with another seed", w1, d) || !tablesEqual(c, "second New(seed) after another distribution was created", w2, d) {
			return
		}
		w4 := probdist.New(mkSeed(seed), b.min, b.max, biased)
		w4.Reset(mkSeed(other))
		if !tablesEqual(c, "New(seed) after another distribution was re-seeded", w1, d) {
			return
		}
		w3.Reset(mkSeed(seed))
		if !tablesEqual(c, "New(other).Reset(seed)", w3, d) {
			return
		}
		w3.Reset(mkSeed(other))
		w3.Reset(mkSeed(seed))
		if !tablesEqual(c, "New(other).Reset(seed).Reset(other).Reset(seed)", w3, d) {
			return
		}
		// one seed OBJECT used for several distributions (a bridge hands the same
		// *drbg.Seed to every connection's distribution): still the same table
		so := mkSeed(seed)
		w5 := probdist.New(so, b.min, b.max, biased)
		w6 := probdist.New(so, b.min, b.max, biased)
		if !tablesEqual(c, "New(s) with a seed object s", w5, d) || !tablesEqual(c, "second New(s) with the same seed object s", w6, d) {
			return
		}
		w6.Reset(so)
		w5.Reset(so)
		if !tablesEqual(c, "New(s).Reset(s) with the same seed object s", w6, d) || !tablesEqual(c, "New(s).Reset(s), third and fourth use of the seed object", w5, d) {
			return
		}
		// the same seed and bounds with the other bias setting in the same
		// process, before and after: each is the function of its own flag
		dOther := ref.NewDist(seed, b.min, b.max, !biased)
		w7 := probdist.New(mkSeed(seed), b.min, b.max, !biased)
		if !tablesEqual(c, fmt.Sprintf("New(seed, biased=%v) after distributions with biased=%v were built from the same seed and bounds", !biased, biased), w7, dOther) {
			return
		}
		w8 := probdist.New(mkSeed(seed), b.min, b.max, biased)
		w7.Reset(mkSeed(seed))
		if !tablesEqual(c, fmt.Sprintf("New(seed, biased=%v) after a distribution with biased=%v was built from the same seed and bounds", biased, !biased), w8, d) || !tablesEqual(c, "Reset(seed) of the distribution with the other bias setting", w7, dOther) {
			return
		}
		w1.Reset(mkSeed(seed))
		if !tablesEqual(c, "New(seed).Reset(seed)", w1, d) {
			return
		}
		// structure
		n := len(d.Values)
		if n < 1 || n > 100 {
			fail(c, "structure", "structure/count", "%d table entries", n)
		}
		seen := map[int]bool{}
		for _, v := range d.Values {
			if v < 0 || v > b.max-b.min || seen[v] {
				fail(c, "structure", "structure/values", "value offset %d out of [0,%d] or duplicated", v, b.max-b.min)
			}
			seen[v] = true
		}
		if !probdist.VerifTablesOK(w1) {
			// black box only: samples lie in the table and within the bounds
			stream.Script = nil
			for k := 0; k < 400; k++ {
				got := w2.Sample()
				if got < b.min || got > b.max || !d.Contains(got) {
					fail(c, "sample", "sample/range", "Sample() returned %d outside the table/bounds [%d,%d]", got, b.min, b.max)
					return
				}
			}
			c.Observe("table", fmt.Sprint(n, d.Values))
			return
		}
		v, wt, al, pr := probdist.VerifTables(w1)
		var sum float64
		for _, x := range wt {
			sum += x
		}
		recon := make([]float64, n)
		for i := range pr {
			if pr[i] < 0 || pr[i] > 1 || al[i] < 0 || al[i] >= n {
				fail(c, "structure", "structure/alias-prob", "prob[%d]=%v alias[%d]=%d", i, pr[i], i, al[i])
				return
			}
			recon[i] += pr[i] / float64(n)
			if pr[i] < 1 {
				recon[al[i]] += (1 - pr[i]) / float64(n)
			}
		}
		for i := range recon {
			if math.Abs(recon[i]-wt[i]/sum) > 1e-12 {
				fail(c, "exact-probability", "exact-probability", "P(value %d) reconstructed from the sampling tables = %.15f, normalised weight = %.15f (n=%d)", b.min+v[i], recon[i], wt[i]/sum, n)
				return
			}
		}
		// every sampling cell through the scripted source
		cells := 0
		for i := 0; i < n; i++ {
			coins := []float64{0, 1 - 1.0/(1<<53)}
			if pr[i] < 1 {
				q := math.Floor(pr[i]*(1<<53)) / (1 << 53)
				coins = append(coins, q, q+1.0/(1<<53))
			}
			for _, co := range coins {
				stream.Script = rnd.ScriptSample(i, co)
				got := w1.Sample()
				want := b.min + v[i]
				if co > pr[i] {
					want = b.min + v[al[i]]
				}
				cells++
				if got == want {
					// the scripted (die, coin) selected the cell the implementation's own
					// tables give (how entropy reaches the tables is not judged)
					c.Count("sampling_cells_confirmed", 1)
				}
				if got < b.min || got > b.max || !d.Contains(got) {
					fail(c, "sample", "sample/range", "Sample() returned %d outside the table/bounds [%d,%d]", got, b.min, b.max)
					return
				}
			}
		}
		// and unscripted draws
		stream.Script = nil
		for k := 0; k < 200; k++ {
			got := w2.Sample()
			if got < b.min || got > b.max || !d.Contains(got) {
				fail(c, "sample", "sample/range", "Sample() returned %d outside the table/bounds [%d,%d]", got, b.min, b.max)
				return
			}
		}
		c.Count("sampling_cells", int64(cells))
		c.Observe("table", fmt.Sprint(n, d.Values, d.Alias))
		if n == 1 {
			c.Trivial()
		}
	}}
}

func drbgScenario(sname string, seed []byte) mc.Scenario {
	return mc.Scenario{Name: "drbg/" + sname, Run: func(c *mc.Ctx) {
		g, err := drbg.NewHashDrbg(mkSeed(seed))
		if err != nil {
			fail(c, "drbg", "drbg/new", "%v", err)
			return
		}
		r := ref.NewDrbg(seed)
		for i := 0; i < 1000; i++ {
			a, b := g.NextBlock(), r.NextBlock()
			if !bytes.Equal(a, b) {
				fail(c, "drbg", "drbg/block", "block %d is %x, SipHash-2-4 OFB reference %x", i, a, b)
				return
			}
		}
		g2, _ := drbg.NewHashDrbg(mkSeed(seed))
		r2 := ref.NewDrbg(seed)
		for i := 0; i < 100; i++ {
			a := g2.Int63()
			b := int64(binary.BigEndian.Uint64(r2.NextBlock()) & (1<<63 - 1))
			if a != b || a < 0 {
				fail(c, "drbg", "drbg/int63", "Int63 #%d is %d, reference %d", i, a, b)
				return
			}
		}
		// determinism through math/rand
		x := rand.New(mustDrbg(seed)).Perm(50)
		y := rand.New(mustDrbg(seed)).Perm(50)
		if fmt.Sprint(x) != fmt.Sprint(y) {
			fail(c, "drbg", "drbg/deterministic", "two generators with the same seed differ")
		}
		c.Observe("drbg", fmt.Sprintf("%x", g.NextBlock()))
	}}
}

// drbgHistories: every sequence of {keep a block, scribble over a returned
// block, Int63} up to the depth, against the reference generator: output is a
// function of the seed and the number of draws only, and a block that was
// handed out never changes afterwards.
func drbgHistories(sname string, seed []byte, depth int) mc.Scenario {
	return mc.Scenario{Name: "drbg-history/" + sname, Run: func(c *mc.Ctx) {
		n := 0
		var rec func(hist []int)
		rec = func(hist []int) {
			if c.Failed() {
				return
			}
			if len(hist) > 0 {
				n++
				g := mustDrbg(seed)
				r := ref.NewDrbg(seed)
				type kept struct {
					at   int
					b    []byte
					want []byte
				}
				var keep []kept
				for i, op := range hist {
					want := r.NextBlock()
					switch op {
					case 0, 1:
						b := g.NextBlock()
						if !bytes.Equal(b, want) {
							fail(c, "drbg", "drbg/history/block", "history %v: block %d is %x, reference %x", hist, i, b, want)
							return
						}
						if op == 0 {
							keep = append(keep, kept{i, b, append([]byte{}, want...)})
						} else {
							for j := range b {
								b[j] ^= 0xa5
							}
						}
					case 2:
						a := g.Int63()
						if w := int64(binary.BigEndian.Uint64(want) & (1<<63 - 1)); a != w {
							fail(c, "drbg", "drbg/history/int63", "history %v: Int63 at step %d is %d, reference %d", hist, i, a, w)
							return
						}
					}
				}
				for _, k := range keep {
					if !bytes.Equal(k.b, k.want) {
						fail(c, "drbg", "drbg/history/kept-block-changed", "history %v: the block returned at step %d read %x afterwards, it was %x when returned", hist, k.at, k.b, k.want)
						return
					}
				}
			}
			if len(hist) == depth {
				return
			}
			for op := 0; op < 3; op++ {
				rec(append(append([]int{}, hist...), op))
			}
		}
		rec(nil)
		c.Count("drbg_histories", int64(n))
		c.AddExecutions(int64(n))
		c.Observe("drbg-histories", n)
	}}
}

// sampleVsReset: a distribution shared by a sampling thread and a re-seeding
// thread (an obfs4 connection's writer and reader): whatever the interleaving,
// a sample is a value of the old or of the new table.
func sampleVsReset(name string, seedA, seedB []byte, b bounds, biased bool, bound int) mc.Scenario {
	return mc.Scenario{Name: "sample-vs-reset/" + name, Bound: bound, Weight: 100, Run: func(c *mc.Ctx) {
		rnd.Install(rnd.New(1, "c12-svr-"+name))
		dA, dB := ref.NewDist(seedA, b.min, b.max, biased), ref.NewDist(seedB, b.min, b.max, biased)
		ok := map[int]bool{}
		for _, v := range dA.Abs() {
			ok[v] = true
		}
		for _, v := range dB.Abs() {
			ok[v] = true
		}
		w := probdist.New(mkSeed(seedA), b.min, b.max, biased)
		var samples []int
		res := sched.Run(c, sched.Options{PreemptKinds: []string{"stmt", "lock", "unlock"}, MaxSteps: 1_000_000}, func() {
			s := sched.Cur()
			done := 0
			s.Spawn("sampler", func() {
				for i := 0; i < 3; i++ {
					samples = append(samples, w.Sample())
				}
				done++
			})
			s.Spawn("reseeder", func() {
				w.Reset(mkSeed(seedB))
				done++
			})
			s.Point("join", func() bool { return done == 2 })
		})
		if len(res.Panics) > 0 {
			fail(c, "sample", "sample-vs-reset/panic", "Sample concurrent with Reset (table sizes %d -> %d): %s", len(dA.Values), len(dB.Values), res.Panics[0])
			return
		}
		for _, v := range samples {
			if !ok[v] || v < b.min || v > b.max {
				fail(c, "sample", "sample-vs-reset/not-in-table", "Sample concurrent with Reset returned %d, which is in neither the old nor the new table", v)
				return
			}
		}
		after := w.Sample()
		inB := false
		for _, v := range dB.Abs() {
			if v == after {
				inB = true
			}
		}
		if !inB {
			fail(c, "sample", "sample-vs-reset/after", "after Reset completed, Sample returned %d, not a value of the new table", after)
		}
		c.Observe("samples", fmt.Sprint(samples))
	}}
}

func mustDrbg(seed []byte) *drbg.HashDrbg {
	g, err := drbg.NewHashDrbg(mkSeed(seed))
	if err != nil {
		panic(err)
	}
	return g
}

func helperScenario() mc.Scenario {
	return mc.Scenario{Name: "csrand/helpers", Run: func(c *mc.Ctx) {
		stream := rnd.New(1, "c12-helpers")
		rnd.Install(stream)
		cases := 0
		type rng struct{ min, max int }
		var rs []rng
		for mn := -3; mn <= 3; mn++ {
			for mx := mn; mx <= 3; mx++ {
				rs = append(rs, rng{mn, mx})
			}
		}
		rs = append(rs, rng{0, 1<<31 - 2}, rng{0, 1<<31 - 3}, rng{1 << 31, 1<<31 + 5}, rng{-(1 << 31), -(1 << 31) + 2}, rng{77, 8128}, rng{0, 8051}, rng{16, 1446})
		for _, r := range rs {
			width := r.max - r.min + 1
			reach := map[int]bool{}
			idxs := []int{0, 1, width / 2, width - 2, width - 1}
			if width <= 16 {
				idxs = nil
				for j := 0; j < width; j++ {
					idxs = append(idxs, j)
				}
			}
			for _, j := range idxs {
				if j < 0 || j >= width {
					continue
				}
				stream.Script = rnd.ScriptIntn(j)
				got := csrand.IntRange(r.min, r.max)
				cases++
				if got < r.min || got > r.max {
					fail(c, "helpers", "helpers/intrange", "IntRange(%d,%d) with scripted residue %d returned %d", r.min, r.max, j, got)
					return
				}
				if got == r.min+j {
					c.Count("intrange_script_mapping_confirmed", 1) // (how entropy maps to the value is not judged)
				}
				reach[got] = true
				// rejection boundary: a first draw above the largest multiple of the width must be redrawn
				if width&(width-1) != 0 && width < 1<<31 {
					stream.Script = append(rnd.ScriptIntn(1<<31-1), rnd.ScriptIntn(j)...)
					got = csrand.IntRange(r.min, r.max)
					cases++
					if got < r.min || got > r.max {
						fail(c, "helpers", "helpers/intrange", "IntRange(%d,%d) after a draw of 2^31-1 returned %d", r.min, r.max, got)
						return
					}
					if got != r.min+j {
						// (freedom from modulo bias is not in the property's words: counted)
						c.Count("intrange_top_draw_not_rejected", 1)
					}
				}
			}
			if width <= 16 && len(reach) != width {
				c.Count("intrange_values_not_reached_by_the_scripted_draws", int64(width-len(reach)))
			}
			stream.Script = nil
			for k := 0; k < 50; k++ {
				got := csrand.IntRange(r.min, r.max)
				if got < r.min || got > r.max {
					fail(c, "helpers", "helpers/intrange", "IntRange(%d,%d) returned %d", r.min, r.max, got)
					return
				}
			}
		}
		// max < min must panic as documented
		func() {
			defer func() {
				if recover() == nil {
					fail(c, "helpers", "helpers/intrange-panic", "IntRange(3,2) did not panic")
				}
			}()
			csrand.IntRange(3, 2)
		}()
		for _, n := range []int{1, 2, 3, 7, 100, 1449, 1 << 20} {
			for _, j := range []int{0, n / 2, n - 1} {
				stream.Script = rnd.ScriptIntn(j)
				got := csrand.Intn(n)
				cases++
				if got < 0 || got >= n {
					fail(c, "helpers", "helpers/intn", "Intn(%d) with scripted residue %d returned %d", n, j, got)
					return
				}
				if got == j {
					c.Count("intn_script_mapping_confirmed", 1)
				}
			}
		}
		for _, f := range []float64{0, 1.0 / (1 << 53), 0.5, 1 - 1.0/(1<<53)} {
			stream.Script = rnd.ScriptFloat64(f)
			got := csrand.Float64()
			cases++
			if got < 0 || got >= 1 {
				fail(c, "helpers", "helpers/float64", "Float64() with scripted draw %v returned %v, outside [0,1)", f, got)
				return
			}
			if got == f {
				// how entropy is mapped to the float is not part of the property; the
				// counter shows that the harness's scripting assumption still holds
				c.Count("float64_script_mapping_confirmed", 1)
			}
		}
		// boundary words: the largest 63-bit draws round up to 1.0 as a float64
		// and must never be returned (the range is half open)
		for _, w := range []uint64{1<<63 - 1, 1<<64 - 1, 1<<63 - 512, 1<<63 - 513, 1<<63 - 1024, 1<<63 - 1025, 0xfffffffffffffe00, 1 << 63, 1<<62 - 1} {
			var b [16]byte
			binary.BigEndian.PutUint64(b[:8], w)
			binary.BigEndian.PutUint64(b[8:], 1<<62) // the draw after a rejected one: 0.5
			stream.Script = b[:]
			got := csrand.Float64()
			cases++
			if got < 0 || got >= 1 {
				fail(c, "helpers", "helpers/float64-range", "Float64() with the scripted 64-bit word %#x returned %v, outside [0,1)", w, got)
				return
			}
		}
		stream.Script = nil
		buf := make([]byte, 64)
		want := append([]byte{}, rnd.New(1, "c12-bytes").Bytes(64)...)
		rnd.Install(rnd.New(1, "c12-bytes"))
		if err := csrand.Bytes(buf); err != nil || !bytes.Equal(buf, want) {
			fail(c, "helpers", "helpers/bytes", "Bytes() did not fill the buffer from the random source")
		}
		c.Count("helper_cases", int64(cases))
		c.Observe("helpers", cases)
	}}
}

func main() {
	mc.Main("C12", func(cfg *mc.Config, emit func(mc.Scenario)) {
		seeds := seedAlphabet(cfg.Seed, cfg.Thorough())
		other := rnd.New(cfg.Seed, "c12-other").Bytes(24)
		for sn, s := range seeds {
			for _, b := range allBounds {
				for _, biased := range []bool{false, true} {
					emit(distScenario(sn, s, b, biased, other))
				}
			}
			emit(drbgScenario(sn, s))
			d := 5
			if cfg.Thorough() {
				d = 8
			}
			emit(drbgHistories(sn, s, d))
		}
		emit(helperScenario())
		// big table -> one-value table and back, both bias settings
		if s1, s100 := seeds["size1"], seeds["size100"]; s1 != nil && s100 != nil {
			for _, biased := range []bool{false, true} {
				emit(sampleVsReset(fmt.Sprintf("100-to-1/bias=%v", biased), s100, s1, allBounds[0], biased, 2))
				emit(sampleVsReset(fmt.Sprintf("1-to-100/bias=%v", biased), s1, s100, allBounds[0], biased, 2))
			}
		}
	})
}
