//go:build verif

package meeklite

// Free-running -race body for C16: several meek_lite connections, each with a
// writer, a reader and a closer goroutine, against an echoing HTTP server on
// loopback.

import (
	"io"
	"net"
	"net/http"
	"os"
	"strconv"
	"sync"
	"testing"
	"time"

	pt "gitlab.torproject.org/tpo/anti-censorship/pluggable-transports/goptlib"
)

func TestVerifRaceC16Conns(t *testing.T) {
	iters, _ := strconv.Atoi(os.Getenv("VERIF_RACE_ITERS"))
	if iters < 1 {
		iters = 1
	}
	ln, err := net.Listen("tcp", "127.0.0.1:0")
	if err != nil {
		t.Fatal(err)
	}
	srv := &http.Server{Handler: http.HandlerFunc(func(w http.ResponseWriter, r *http.Request) {
		body, _ := io.ReadAll(r.Body)
		w.Header().Set("Content-Type", "application/octet-stream")
		w.Write(body) // echo
	})}
	go srv.Serve(ln)
	defer srv.Close()
	args := &pt.Args{}
	args.Add("url", "http://"+ln.Addr().String()+"/")
	cf, _ := (&Transport{}).ClientFactory("")
	pa, err := cf.ParseArgs(args)
	if err != nil {
		t.Fatal(err)
	}
	for it := 0; it < iters; it++ {
		var wg sync.WaitGroup
		for g := 0; g < 4; g++ {
			wg.Add(1)
			go func(g int) {
				defer wg.Done()
				conn, err := cf.Dial("tcp", "", net.Dial, pa)
				if err != nil {
					t.Errorf("Dial: %v", err)
					return
				}
				var cwg sync.WaitGroup
				cwg.Add(2)
				go func() { // writer
					defer cwg.Done()
					chunk := make([]byte, 3000)
					for i := 0; i < 20; i++ {
						if _, err := conn.Write(chunk); err != nil {
							return
						}
					}
				}()
				go func() { // reader
					defer cwg.Done()
					buf := make([]byte, 1000)
					for {
						if _, err := conn.Read(buf); err != nil {
							return
						}
					}
				}()
				time.Sleep(time.Duration(150+50*g) * time.Millisecond)
				conn.Close()
				cwg.Wait()
			}(g)
		}
		wg.Wait()
	}
}
