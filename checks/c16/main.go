//go:build verif

// C16: meek_lite carries the byte stream intact through HTTP polling.
package main

import (
	"bufio"
	"bytes"
	"fmt"
	"io"
	"net"
	"net/http"
	"sync"
	"time"

	pt "gitlab.torproject.org/tpo/anti-censorship/pluggable-transports/goptlib"

	"gitlab.com/yawning/obfs4.git/internal/zzverif/mc"
	"gitlab.com/yawning/obfs4.git/internal/zzverif/o4h"
	"gitlab.com/yawning/obfs4.git/internal/zzverif/rnd"
	"gitlab.com/yawning/obfs4.git/internal/zzverif/sched"
	"gitlab.com/yawning/obfs4.git/internal/zzverif/wire"
	"gitlab.com/yawning/obfs4.git/transports/meeklite"
)

func fail(c *mc.Ctx, oracle, key, format string, a ...any) {
	c.Fail(oracle, "C16/"+key, format, a...)
}

// server is the in-memory meek server.  Its handler runs on free goroutines
// but only while the scheduled worker thread is blocked inside RoundTrip.
type server struct {
	mu        sync.Mutex
	bodies    [][]byte
	sessions  []string
	inflight  int
	maxFlight int
	responses []int // response body size per request index (beyond: steady)
	steady    int
	closedReq int    // number of requests seen when Close returned (-1: not yet)
	sent      []byte // concatenation of response bodies handed out
	afterStop int    // requests that started after stop was set
	stop      bool
	conns     []net.Conn
	badReq    string
	reqPipe   []int // index of the accepted pipe each request arrived on
}

func (s *server) dial(network, addr string) (net.Conn, error) {
	a, b := net.Pipe()
	s.mu.Lock()
	s.conns = append(s.conns, b)
	pi := len(s.conns) - 1
	s.mu.Unlock()
	go s.servePipe(b, pi)
	return a, nil
}

func (s *server) serve(conn net.Conn) { s.servePipe(conn, 0) }

func (s *server) servePipe(conn net.Conn, pipe int) {
	defer conn.Close()
	br := bufio.NewReader(conn)
	for {
		req, err := http.ReadRequest(br)
		if err != nil {
			return
		}
		s.mu.Lock()
		s.inflight++
		if s.inflight > s.maxFlight {
			s.maxFlight = s.inflight
		}
		if s.stop {
			s.afterStop++
		}
		s.mu.Unlock()
		body, _ := io.ReadAll(req.Body)
		s.mu.Lock()
		idx := len(s.bodies)
		s.bodies = append(s.bodies, body)
		s.sessions = append(s.sessions, req.Header.Get("X-Session-Id"))
		s.reqPipe = append(s.reqPipe, pipe)
		if req.Method != http.MethodPost {
			s.badReq = "method " + req.Method
		}
		n := s.steady
		if idx < len(s.responses) {
			n = s.responses[idx]
		}
		if s.stop || (s.closedReq >= 0 && idx >= s.closedReq+10) {
			// horizon of the steady download: ten requests after Close returned
			// the server stops feeding it, so that the execution ends
			n = 0
		}
		resp := o4h.Pattern('R', len(s.sent), n)
		s.sent = append(s.sent, resp...)
		s.inflight--
		s.mu.Unlock()
		fmt.Fprintf(conn, "HTTP/1.1 200 OK\r\nContent-Length: %d\r\nContent-Type: application/octet-stream\r\n\r\n", n)
		conn.Write(resp)
	}
}

func (s *server) closeAll() {
	s.mu.Lock()
	defer s.mu.Unlock()
	for _, c := range s.conns {
		c.Close()
	}
}

func (s *server) snapshot() (nreq int, bodyBytes int, sent int) {
	s.mu.Lock()
	defer s.mu.Unlock()
	for _, b := range s.bodies {
		bodyBytes += len(b)
	}
	return len(s.bodies), bodyBytes, len(s.sent)
}

type scen struct {
	writes    []int
	responses []int
	early     bool // Close becomes possible after the first request / at any write boundary
	rbuf      int
	// steady > 0: every request beyond the response script is answered with
	// this many bytes (a download that never pauses); Close becomes possible
	// after closeAfter requests
	steady     int
	closeAfter int
}

func (x scen) name() string {
	if x.steady > 0 {
		return fmt.Sprintf("w=%v/r=%v+steady-%d/close-after-%d/rbuf=%d", x.writes, x.responses, x.steady, x.closeAfter, x.rbuf)
	}
	return fmt.Sprintf("w=%v/r=%v/early-close=%v/rbuf=%d", x.writes, x.responses, x.early, x.rbuf)
}

const horizon = 14 // hard horizon in requests

func total(xs []int) int {
	t := 0
	for _, x := range xs {
		t += x
	}
	return t
}

func run(c *mc.Ctx, x scen, seed int64) {
	rnd.Install(rnd.New(seed, "c16"))
	srv := &server{responses: x.responses, steady: x.steady, closedReq: -1}
	defer srv.closeAll()
	args := pt.Args{}
	args.Add("url", "http://meek.example/")
	cf, _ := (&meeklite.Transport{}).ClientFactory("")
	pa, err := cf.ParseArgs(&args)
	if err != nil {
		fail(c, "setup", "setup", "ParseArgs: %v", err)
		return
	}
	var conn net.Conn
	var wrote []byte // bytes whose Write returned successfully
	var wErr error   // first Write error
	var got []byte   // bytes returned by Read
	var rErr error   // Read error that ended the reader
	closed := false  // Close() returned
	closeEnabled := false
	writerDone := false
	var postWriteErr error
	postWriteDone := false
	var gotAfterClose int
	advanced := false
	reqAtClose, reqAfterHour := -1, -1
	want := o4h.Pattern('W', 0, total(x.writes))
	wantResp := total(x.responses)
	maxSteps := 400_000
	if x.steady > 0 {
		// executions of the steady-download scenarios take a few hundred steps;
		// a worker that never notices Close would otherwise copy 64 KiB bodies
		// for minutes before the budget ends the execution
		maxSteps = 20_000
	}
	res := sched.Run(c, sched.Options{SelectFree: false, MaxSteps: maxSteps,
		PreemptKinds: []string{"send", "recv", "select", "close", "yield", "closer", "once"},
		OnQuiescent: func(s *sched.Sched) bool {
			// everything is parked and no timer is armed: the worker has stopped.
			if closed && !advanced {
				advanced = true
				reqAtClose, _, _ = srv.snapshot()
				srv.mu.Lock()
				srv.stop = true
				srv.mu.Unlock()
				s.Advance(time.Hour)
				return true
			}
			return false
		}}, func() {
		s := sched.Cur()
		conn, err = cf.Dial("tcp", "", srv.dial, pa)
		if err != nil {
			return
		}
		s.Spawn("writer", func() {
			off := 0
			for _, n := range x.writes {
				k, err := wire.WriteOwned(conn, want[off : off+n])
				if err != nil {
					wErr = err
					break
				}
				if k != n {
					wErr = fmt.Errorf("Write(%d) returned %d", n, k)
					break
				}
				off += n
				wrote = want[:off]
				if x.early {
					closeEnabled = true
				}
			}
			writerDone = true
		})
		s.Spawn("reader", func() {
			b := make([]byte, x.rbuf)
			for {
				n, err := conn.Read(b)
				got = append(got, b[:n]...)
				if closed {
					gotAfterClose += n
				}
				if err != nil {
					rErr = err
					return
				}
			}
		})
		s.Spawn("closer", func() {
			s.Point("closer-wait", func() bool {
				nreq, bodyBytes, sent := srv.snapshot()
				if nreq >= horizon {
					return true
				}
				if x.steady > 0 {
					return nreq >= x.closeAfter
				}
				if x.early && (closeEnabled || nreq >= 1) {
					return true
				}
				// normal end: everything written was sent, everything sent back was read
				return writerDone && wErr == nil && bodyBytes == len(want) && sent == wantResp && len(got) == sent && nreq >= len(x.responses)
			})
			conn.Close()
			closed = true
			srv.mu.Lock()
			srv.closedReq = len(srv.bodies) + srv.inflight
			srv.mu.Unlock()
			// after Close returned every Write must fail
			_, postWriteErr = conn.Write([]byte{0x55})
			postWriteDone = true
		})
	})
	if err != nil {
		fail(c, "setup", "setup", "Dial: %v", err)
		return
	}
	if len(res.Panics) > 0 {
		fail(c, "no-panic", "panic", "%s", res.Panics[0])
		return
	}
	reqAfterHour, _, _ = srv.snapshot()
	srv.mu.Lock()
	bodies, sessions, maxFlight, sent, badReq, afterStop := srv.bodies, srv.sessions, srv.maxFlight, srv.sent, srv.badReq, srv.afterStop
	srv.mu.Unlock()
	var sizes []int
	var cat []byte
	for _, b := range bodies {
		sizes = append(sizes, len(b))
		cat = append(cat, b...)
	}
	c.Observe("bodies", fmt.Sprint(sizes))
	c.Observe("outcome", fmt.Sprintf("wrote=%d got=%d sent=%d closed=%v wErr=%v rErr=%v livelock=%v", len(wrote), len(got), len(sent), closed, wErr != nil, rErr != nil, res.Livelock))
	if res.Livelock {
		fail(c, "terminates", "livelock", "the execution did not finish within the step budget; blocked: %+v", res.Blocked)
		return
	}
	if badReq != "" {
		fail(c, "request-format", "request-format", "%s", badReq)
	}
	// request bodies, in request order, are a prefix of the bytes handed to Write
	// (a Write that failed because of Close may or may not have been queued)
	if !bytes.HasPrefix(want, cat) {
		fail(c, "upstream", "upstream/not-prefix", "concatenated request bodies %v are not a prefix of the written bytes (first difference at %d of %d)", sizes, firstDiff(want, cat), len(cat))
	}
	if len(cat) > len(wrote)+maxWrite(x.writes) {
		fail(c, "upstream", "upstream/more-than-written", "server received %d bytes, only %d were accepted by Write", len(cat), len(wrote))
	}
	for i, b := range bodies {
		if len(b) > 65536 {
			fail(c, "body-size", "body-size", "request %d carries %d bytes > 65536 (bodies %v)", i, len(b), sizes)
			break
		}
	}
	for i, sid := range sessions {
		if sid == "" || sid != sessions[0] {
			fail(c, "session-id", "session-id", "request %d has session id %q, request 0 had %q", i, sid, sessions[0])
			break
		}
	}
	if maxFlight > 1 {
		fail(c, "in-flight", "in-flight", "%d requests were in flight at once", maxFlight)
	}
	// downstream: bytes returned by Read are a prefix of the response bodies
	if !bytes.HasPrefix(sent, got) {
		fail(c, "downstream", "downstream/not-prefix", "bytes returned by Read are not a prefix of the concatenated response bodies (first difference at %d of %d)", firstDiff(sent, got), len(got))
	}
	if !closed {
		fail(c, "close", "never-closed", "the harness never got to Close (requests=%d); blocked: %+v", len(bodies), res.Blocked)
		return
	}
	if !x.early {
		// closed at the normal end or at the hard horizon: everything must have arrived
		if len(bodies) >= horizon && (len(cat) != len(want) || len(got) != len(sent)) {
			fail(c, "delivery", "delivery/horizon", "after %d requests only %d of %d written bytes reached the server and %d of %d response bytes reached Read (bodies %v)", len(bodies), len(cat), len(want), len(got), len(sent), sizes)
		} else {
			if !bytes.Equal(cat, want) {
				fail(c, "delivery", "delivery/upstream", "server received %d bytes, %d were written (bodies %v)", len(cat), len(want), sizes)
			}
			if !bytes.Equal(got, sent) {
				fail(c, "delivery", "delivery/downstream", "Read returned %d bytes, the server sent %d", len(got), len(sent))
			}
		}
	}
	// after Close
	if !postWriteDone {
		fail(c, "close", "close/write-blocked", "a Write after Close never returned; blocked: %+v", res.Blocked)
	} else if postWriteErr == nil {
		fail(c, "close", "close/write-succeeds", "a Write after Close returned nil")
	}
	if rErr == nil {
		fail(c, "close", "close/read-blocked", "Read never failed after Close; blocked: %+v", res.Blocked)
	}
	if reqAtClose >= 0 && reqAfterHour > reqAtClose {
		fail(c, "close", "close/polling-continues", "%d request(s) were made after the connection had been closed and gone quiet (an hour later)", reqAfterHour-reqAtClose)
	}
	_ = afterStop
	if x.steady > 0 && srv.closedReq >= 0 && len(bodies)-srv.closedReq > 6 {
		fail(c, "close", "close/polling-continues/steady-download", "%d requests were made after Close had returned, in the middle of a download that never pauses (at most the request in flight and one per scheduling deviation are legitimate)", len(bodies)-srv.closedReq)
	}
	if !writerDone {
		fail(c, "close", "close/writer-blocked", "the writer never returned from Write; blocked: %+v", res.Blocked)
	}
	c.Count("requests", int64(len(bodies)))
}

// twoDials: two connections made from ONE parsed argument set (what the
// SOCKS front end does for every connection to the same bridge): each
// connection keeps its own session identifier on all of its requests.
func twoDials(c *mc.Ctx, seed int64) {
	rnd.Install(rnd.New(seed, "c16-two"))
	srv := &server{closedReq: -1}
	defer srv.closeAll()
	args := pt.Args{}
	args.Add("url", "http://meek.example/")
	cf, _ := (&meeklite.Transport{}).ClientFactory("")
	pa, err := cf.ParseArgs(&args)
	if err != nil {
		fail(c, "setup", "setup", "ParseArgs: %v", err)
		return
	}
	// each meek connection dials through its own function so that requests can
	// be attributed to the connection independently of the header
	var owner []int // accepted pipe index -> connection
	dialFor := func(conn int) func(string, string) (net.Conn, error) {
		return func(n, a string) (net.Conn, error) {
			srv.mu.Lock()
			owner = append(owner, conn)
			srv.mu.Unlock()
			return srv.dial(n, a)
		}
	}
	var errs []string
	res := sched.Run(c, sched.Options{NoPreempt: true, MaxSteps: 200_000}, func() {
		s := sched.Cur()
		waitReqs := func(n int) {
			s.Point("wait-requests", func() bool { k, _, _ := srv.snapshot(); return k >= n })
		}
		a, err := cf.Dial("tcp", "", dialFor(0), pa)
		if err != nil {
			errs = append(errs, err.Error())
			return
		}
		a.Write([]byte("a1"))
		waitReqs(1)
		b, err := cf.Dial("tcp", "", dialFor(1), pa)
		if err != nil {
			errs = append(errs, err.Error())
			return
		}
		b.Write([]byte("b1"))
		k, _, _ := srv.snapshot()
		waitReqs(k + 1)
		a.Write([]byte("a2"))
		k, _, _ = srv.snapshot()
		waitReqs(k + 1)
		b.Write([]byte("b2"))
		k, _, _ = srv.snapshot()
		waitReqs(k + 1)
		a.Close()
		b.Close()
	})
	if len(res.Panics) > 0 {
		fail(c, "no-panic", "panic/two-dials", "%s", res.Panics[0])
		return
	}
	if len(errs) > 0 {
		fail(c, "setup", "two-dials/dial", "%v", errs)
		return
	}
	srv.mu.Lock()
	defer srv.mu.Unlock()
	ids := map[int]string{}
	for i, sid := range srv.sessions {
		conn := owner[srv.reqPipe[i]]
		if prev, ok := ids[conn]; ok && prev != sid {
			fail(c, "session-id", "session-id/two-dials", "request %d of connection %d carries session id %q, its earlier requests carried %q (another connection made from the same arguments was dialled in between)", i, conn, sid, prev)
			return
		}
		ids[conn] = sid
	}
	if len(ids) == 2 && ids[0] == ids[1] {
		fail(c, "session-id", "session-id/two-dials-same", "two connections use the same session id %q", ids[0])
	}
	c.Observe("requests", fmt.Sprint(len(srv.sessions), len(ids)))
}

func maxWrite(xs []int) int {
	m := 0
	for _, x := range xs {
		if x > m {
			m = x
		}
	}
	return m
}

func firstDiff(a, b []byte) int {
	for i := 0; i < len(a) && i < len(b); i++ {
		if a[i] != b[i] {
			return i
		}
	}
	if len(a) < len(b) {
		return len(a)
	}
	return len(b)
}

func main() {
	mc.Main("C16", func(cfg *mc.Config, emit func(mc.Scenario)) {
		writes := [][]int{{1}, {100, 1}, {65536}, {65537}, {65535, 1, 1}, {140000}, {40000, 40000, 40000}, {1, 65536, 1}}
		resps := [][]int{{}, {10}, {0, 10, 0, 10}, {65536}, {65536, 65536, 10}, {3000, 0, 500}}
		b := 2
		if cfg.Thorough() {
			b = 3
			writes = append(writes, []int{65536, 65536}, []int{1, 1, 1}, []int{70000, 100})
		}
		emit(mc.Scenario{Name: "two-dials/shared-args", Weight: 10, Run: func(c *mc.Ctx) { twoDials(c, cfg.Seed) }})
		// a download that never pauses, closed in the middle of it
		for _, ca := range []int{1, 3, 5} {
			for _, st := range []int{500, 65536} { // (a meek server never answers with more than 65536 bytes)
				x := scen{writes: []int{1}, responses: []int{10}, early: true, rbuf: 4096, steady: st, closeAfter: ca}
				emit(mc.Scenario{Name: x.name(), Params: map[string]any{"steady": st, "close_after": ca}, Bound: b, Weight: 30,
					Run: func(c *mc.Ctx) { run(c, x, cfg.Seed) }})
			}
		}
		for _, w := range writes {
			for _, r := range resps {
				for _, early := range []bool{false, true} {
					rbufs := []int{4096}
					if len(r) > 0 && r[0] == 3000 {
						rbufs = []int{1000, 2000}
					}
					for _, rb := range rbufs {
						x := scen{writes: w, responses: r, early: early, rbuf: rb}
						bb := b
						if !cfg.Thorough() && total(w) > 100000 {
							bb = 1
						}
						emit(mc.Scenario{Name: x.name(), Params: map[string]any{"writes": w, "responses": r, "early_close": early, "rbuf": rb}, Bound: bb, Weight: 10 + total(w)/10000,
							Run: func(c *mc.Ctx) { run(c, x, cfg.Seed) }})
					}
				}
			}
		}
	})
}
