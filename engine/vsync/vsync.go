//go:build verif

// Package vsync mirrors the parts of package sync the repository uses.  Under
// an active scheduler the operations are scheduling points on model state;
// otherwise they fall through to the real primitives.
package vsync

import (
	"fmt"
	"sync"

	"gitlab.com/yawning/obfs4.git/internal/zzverif/sched"
)

// Locker mirrors sync.Locker.
type Locker = sync.Locker

// Mutex mirrors sync.Mutex.
type Mutex struct {
	real   sync.Mutex
	locked bool
}

func (m *Mutex) Lock() {
	s := sched.Cur()
	if s == nil {
		if sched.Aborting() {
			return
		}
		m.real.Lock()
		return
	}
	s.Point(fmt.Sprintf("lock %p", m), func() bool { return !m.locked })
	m.locked = true
}

func (m *Mutex) TryLock() bool {
	s := sched.Cur()
	if s == nil {
		if sched.Aborting() {
			return false
		}
		return m.real.TryLock()
	}
	s.Point(fmt.Sprintf("trylock %p", m), nil)
	if m.locked {
		return false
	}
	m.locked = true
	return true
}

func (m *Mutex) Unlock() {
	s := sched.Cur()
	if s == nil {
		if sched.Aborting() {
			return
		}
		m.real.Unlock()
		return
	}
	s.Point(fmt.Sprintf("unlock %p", m), nil)
	if !m.locked {
		panic("sync: unlock of unlocked mutex")
	}
	m.locked = false
}

// RWMutex mirrors sync.RWMutex.
type RWMutex struct {
	real    sync.RWMutex
	writer  bool
	readers int
}

func (m *RWMutex) Lock() {
	s := sched.Cur()
	if s == nil {
		if sched.Aborting() {
			return
		}
		m.real.Lock()
		return
	}
	s.Point(fmt.Sprintf("wlock %p", m), func() bool { return !m.writer && m.readers == 0 })
	m.writer = true
}

func (m *RWMutex) Unlock() {
	s := sched.Cur()
	if s == nil {
		if sched.Aborting() {
			return
		}
		m.real.Unlock()
		return
	}
	s.Point(fmt.Sprintf("wunlock %p", m), nil)
	if !m.writer {
		panic("sync: Unlock of unlocked RWMutex")
	}
	m.writer = false
}

func (m *RWMutex) RLock() {
	s := sched.Cur()
	if s == nil {
		if sched.Aborting() {
			return
		}
		m.real.RLock()
		return
	}
	s.Point(fmt.Sprintf("rlock %p", m), func() bool { return !m.writer })
	m.readers++
}

func (m *RWMutex) RUnlock() {
	s := sched.Cur()
	if s == nil {
		if sched.Aborting() {
			return
		}
		m.real.RUnlock()
		return
	}
	s.Point(fmt.Sprintf("runlock %p", m), nil)
	if m.readers <= 0 {
		panic("sync: RUnlock of unlocked RWMutex")
	}
	m.readers--
}

// WaitGroup mirrors sync.WaitGroup.
type WaitGroup struct {
	real sync.WaitGroup
	n    int
}

func (w *WaitGroup) Add(d int) {
	s := sched.Cur()
	if s == nil {
		if sched.Aborting() {
			return
		}
		w.real.Add(d)
		return
	}
	if d < 0 {
		s.Point(fmt.Sprintf("wg.done %p", w), nil)
	}
	w.n += d
	if w.n < 0 {
		panic("sync: negative WaitGroup counter")
	}
}

func (w *WaitGroup) Done() { w.Add(-1) }

func (w *WaitGroup) Wait() {
	s := sched.Cur()
	if s == nil {
		if sched.Aborting() {
			return
		}
		w.real.Wait()
		return
	}
	s.Point(fmt.Sprintf("wg.wait %p", w), func() bool { return w.n == 0 })
}

// Once mirrors sync.Once.
type Once struct {
	real    sync.Once
	done    bool
	running bool
}

func (o *Once) Do(f func()) {
	s := sched.Cur()
	if s == nil {
		if sched.Aborting() {
			return
		}
		o.real.Do(f)
		return
	}
	s.Point(fmt.Sprintf("once %p", o), func() bool { return !o.running })
	if o.done {
		return
	}
	o.running = true
	defer func() { o.running = false; o.done = true }()
	f()
}

// Cond mirrors sync.Cond.
type Cond struct {
	L       Locker
	real    *sync.Cond
	waiters []*condWaiter
}

type condWaiter struct{ signaled bool }

// NewCond mirrors sync.NewCond.
func NewCond(l Locker) *Cond { return &Cond{L: l, real: sync.NewCond(l)} }

func (c *Cond) Wait() {
	s := sched.Cur()
	if s == nil {
		if sched.Aborting() {
			return
		}
		c.real.Wait()
		return
	}
	w := &condWaiter{}
	c.waiters = append(c.waiters, w)
	c.L.Unlock()
	s.Point(fmt.Sprintf("cond-wait %p", c), func() bool { return w.signaled })
	c.L.Lock()
}

func (c *Cond) Signal() {
	s := sched.Cur()
	if s == nil {
		if !sched.Aborting() {
			c.real.Signal()
		}
		return
	}
	s.Point(fmt.Sprintf("cond-signal %p", c), nil)
	if len(c.waiters) > 0 {
		c.waiters[0].signaled = true
		c.waiters = c.waiters[1:]
	}
}

func (c *Cond) Broadcast() {
	s := sched.Cur()
	if s == nil {
		if !sched.Aborting() {
			c.real.Broadcast()
		}
		return
	}
	s.Point(fmt.Sprintf("cond-broadcast %p", c), nil)
	for _, w := range c.waiters {
		w.signaled = true
	}
	c.waiters = nil
}
