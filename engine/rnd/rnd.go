//go:build verif

// Package rnd owns the randomness seams: crypto/rand.Reader and
// csrand.Reader are replaced by a deterministic SHA-256 counter-mode stream
// selected by (seed, label).  csrand.Rand reads crypto/rand.Reader at call
// time, so it follows automatically.
package rnd

import (
	cryptRand "crypto/rand"
	"crypto/sha256"
	"encoding/binary"
	"fmt"
	"io"

	"gitlab.com/yawning/obfs4.git/common/csrand"
)

// Stream is a deterministic byte stream.
type Stream struct {
	key [32]byte
	ctr uint64
	buf []byte
	// Script, when non-empty, is consumed first (byte-exact scripted draws).
	Script []byte
	// Reads counts the bytes handed out.
	Reads int64
}

// New returns stream (seed,label).
func New(seed int64, label any) *Stream {
	s := &Stream{}
	s.key = sha256.Sum256([]byte(fmt.Sprintf("verif-stream|%d|%v", seed, label)))
	return s
}

func (s *Stream) Read(p []byte) (int, error) {
	n := len(p)
	s.Reads += int64(n)
	for len(p) > 0 && len(s.Script) > 0 {
		p[0] = s.Script[0]
		p = p[1:]
		s.Script = s.Script[1:]
	}
	for len(p) > 0 {
		if len(s.buf) == 0 {
			var blk [40]byte
			copy(blk[:], s.key[:])
			binary.BigEndian.PutUint64(blk[32:], s.ctr)
			s.ctr++
			h := sha256.Sum256(blk[:])
			s.buf = h[:]
		}
		k := copy(p, s.buf)
		p = p[k:]
		s.buf = s.buf[k:]
	}
	return n, nil
}

// Bytes returns n bytes of the stream.
func (s *Stream) Bytes(n int) []byte {
	b := make([]byte, n)
	s.Read(b)
	return b
}

var orig io.Reader = cryptRand.Reader

// Install makes s the process-wide source of randomness.
func Install(s *Stream) {
	cryptRand.Reader = s
	csrand.Reader = s
}

// Restore puts the operating system source back.
func Restore() {
	cryptRand.Reader = orig
	csrand.Reader = orig
}
