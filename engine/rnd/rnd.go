//go:build verif

// Package rnd owns the randomness seams: crypto/rand.Reader and
// csrand.Reader are replaced by a deterministic SHA-256 counter-mode stream
// selected by (seed, label).  csrand.Rand reads crypto/rand.Reader at call
// time, so it follows automatically.
package rnd

import (
	cryptRand "crypto/rand"
	"crypto/sha256"
	"encoding/binary"
	"errors"
	"fmt"
	"io"

	"gitlab.com/yawning/obfs4.git/common/csrand"
)

// Stream is a deterministic byte stream.
type Stream struct {
	key [32]byte
	ctr uint64
	buf []byte
	// Script, when non-empty, is consumed first (byte-exact scripted draws).
	Script []byte
	// Reads counts the bytes handed out.
	Reads int64
	// Script8 is a queue of scripted 8-byte draws: it is consumed only by
	// reads of exactly 8 bytes (math/rand Int63 draws through csrand), so
	// key/seed/padding reads of other sizes in between do not disturb it.
	Script8 [][]byte
	// FailAfter > 0: the FailAfter-th Read call and every later one fail (an
	// entropy source that breaks)
	FailAfter int
	calls     int
}

// New returns stream (seed,label).
func New(seed int64, label any) *Stream {
	s := &Stream{}
	s.key = sha256.Sum256([]byte(fmt.Sprintf("verif-stream|%d|%v", seed, label)))
	return s
}

// ErrEntropy is what a stream with FailAfter set returns once it is exhausted.
var ErrEntropy = errors.New("rnd: injected entropy source failure")

func (s *Stream) Read(p []byte) (int, error) {
	n := len(p)
	if s.FailAfter > 0 {
		s.calls++
		if s.calls >= s.FailAfter {
			return 0, ErrEntropy
		}
	}
	s.Reads += int64(n)
	if n == 8 && len(s.Script8) > 0 {
		copy(p, s.Script8[0])
		s.Script8 = s.Script8[1:]
		return n, nil
	}
	for len(p) > 0 && len(s.Script) > 0 {
		p[0] = s.Script[0]
		p = p[1:]
		s.Script = s.Script[1:]
	}
	for len(p) > 0 {
		if len(s.buf) == 0 {
			var blk [40]byte
			copy(blk[:], s.key[:])
			binary.BigEndian.PutUint64(blk[32:], s.ctr)
			s.ctr++
			h := sha256.Sum256(blk[:])
			s.buf = h[:]
		}
		k := copy(p, s.buf)
		p = p[k:]
		s.buf = s.buf[k:]
	}
	return n, nil
}

// Bytes returns n bytes of the stream.
func (s *Stream) Bytes(n int) []byte {
	b := make([]byte, n)
	s.Read(b)
	return b
}

var orig io.Reader = cryptRand.Reader

// Install makes s the process-wide source of randomness.
func Install(s *Stream) {
	cryptRand.Reader = s
	csrand.Reader = s
}

// Restore puts the operating system source back.
func Restore() {
	cryptRand.Reader = orig
	csrand.Reader = orig
}

// ScriptIntn returns the 8 bytes that make the next csrand/math-rand
// Intn(n) (n < 2^31) return idx.
func ScriptIntn(idx int) []byte {
	var b [8]byte
	binary.BigEndian.PutUint64(b[:], uint64(idx)<<32)
	return b[:]
}

// ScriptFloat64 returns the 8 bytes that make the next Float64() return
// exactly f (f must be k/2^53, 0 <= f < 1): math/rand computes
// float64(Int63()) / 2^63.
func ScriptFloat64(f float64) []byte {
	var b [8]byte
	binary.BigEndian.PutUint64(b[:], uint64(f*(1<<53))<<10)
	return b[:]
}

// ScriptSample scripts one WeightedDist.Sample(): die roll idx, coin f.
func ScriptSample(idx int, f float64) []byte {
	return append(ScriptIntn(idx), ScriptFloat64(f)...)
}
