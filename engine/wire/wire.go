//go:build verif

// Package wire is the model network: a connection is two byte queues with
// TCP-like semantics (writes never block, reads block until data, EOF, error
// or deadline).  Every Read/Write/Close is a scheduling point; how many bytes
// a Read returns is an explorer choice (the Chunker supplies the alphabet);
// deadlines live on the model clock.  Without an active scheduler the same
// type works free-running on real primitives (race pass).
package wire

import (
	"bytes"
	"errors"
	"fmt"
	"io"
	"net"
	"os"
	"sort"
	"sync"
	"syscall"
	"time"

	"gitlab.com/yawning/obfs4.git/internal/zzverif/sched"
)

// WriteRec records one Write call.
type WriteRec struct {
	N   int
	At  time.Time
	Off int64 // stream offset of the first byte
}

// Event records a deadline or close call.
type Event struct {
	Kind string // SetDeadline, SetReadDeadline, SetWriteDeadline, Close
	T    time.Time
	At   time.Time
}

// Half is one direction of a connection.
type Half struct {
	Buf     []byte
	WClosed bool  // writer side closed: reader gets EOF after draining
	RClosed bool  // reader side closed: writes fail
	Err     error // injected: returned to the reader once Buf is drained (or at once if ErrNow)
	ErrNow  bool
	Total   int64 // bytes ever written
	Read    int64 // bytes ever read
	Marks   []int64
	Writes  []WriteRec
	// Tap, when set, sees every write before it is queued and may rewrite it.
	Tap func(off int64, p []byte) []byte
	// CutAt >= 0: the stream ends after exactly CutAt bytes: later bytes are
	// dropped and the reader sees CutErr (nil = EOF) once it has drained.
	// CutErr == ErrStall: the bytes are dropped and nothing else happens.
	CutAt  int64
	CutErr error
	cut    bool
	cutOn  bool
}

// SetCut arms a cut of this direction after exactly n bytes (n may be 0).
func (h *Half) SetCut(n int64, err error) {
	h.CutAt, h.CutErr, h.cutOn = n, err, true
	if n == 0 {
		h.cut = true
		switch err {
		case nil:
			h.WClosed = true
		case ErrStall:
		default:
			h.Err = err
		}
	}
}

// ErrStall marks a cut after which the peer simply goes silent.
var ErrStall = errors.New("wire: peer stalls")

// Conn is one endpoint.
type Conn struct {
	// Remote, when set, is what RemoteAddr reports (default 127.0.0.1:2000)
	Remote net.Addr
	Name   string
	In     *Half
	Out    *Half
	Closed bool
	RDL    time.Time
	WDL    time.Time
	Events []Event
	// Chunker returns candidate read lengths (first = default).  avail is
	// the number of buffered bytes, want the caller's buffer size.
	Chunker func(c *Conn, avail, want int) []int
	// Window > 0 bounds the bytes that may sit unread in the outgoing
	// direction: a Write blocks while that many are queued (0 = unbounded).
	Window int
	// WriteFault, when set, is asked before the n-th (0-based) Write.
	WriteFault func(n int, p []byte) error
	// WriteFaultAfter, when set, is asked after the n-th (0-based) Write was
	// delivered: the bytes reach the peer but the call reports the error.
	WriteFaultAfter func(n int, p []byte) error
	// ReadFault, when set, is asked before a Read returns data or blocks; a
	// non-nil error is returned instead.
	ReadFault func(c *Conn) error
	NReads    int
	NWrites   int
	ReadSizes []int
	ReadCaps  []int // len(p) of the same Read calls
	Peer      *Conn
	// CoalesceEnd: a Read that drains the buffer of an ended stream returns
	// the final bytes together with the EOF/error (n > 0 and err != nil), as
	// io.Reader permits and as the transports' own Read does.
	CoalesceEnd bool
	// First holds the first bytes (up to 64) this endpoint ever wrote.
	First []byte
	// AutoMark declares the end offset of every Write of this endpoint as
	// an interesting offset for the peer's chunker.
	AutoMark bool
	timerAt  map[int64]bool
}

var mu sync.Mutex
var cond = sync.NewCond(&mu)

// Pipe returns two connected endpoints.
func Pipe(a, b string) (*Conn, *Conn) {
	ab, ba := &Half{}, &Half{}
	ca := &Conn{Name: a, In: ba, Out: ab}
	cb := &Conn{Name: b, In: ab, Out: ba}
	ca.Peer, cb.Peer = cb, ca
	return ca, cb
}

type timeoutErr struct{}

func (timeoutErr) Error() string   { return "i/o timeout" }
func (timeoutErr) Timeout() bool   { return true }
func (timeoutErr) Temporary() bool { return true }
func (timeoutErr) Is(err error) bool {
	return err == os.ErrDeadlineExceeded
}

// ErrTimeout is what an expired deadline yields.
var ErrTimeout error = &net.OpError{Op: "read", Net: "tcp", Err: timeoutErr{}}

// ErrReset is an injected connection reset.
var ErrReset error = &net.OpError{Op: "read", Net: "tcp", Err: syscall.ECONNRESET}

func now() time.Time {
	if s := sched.Cur(); s != nil {
		return s.Now()
	}
	return time.Now()
}

func (c *Conn) readReady() bool {
	if c.Closed || len(c.In.Buf) > 0 || c.In.WClosed || c.In.Err != nil {
		return true
	}
	if !c.RDL.IsZero() && !now().Before(c.RDL) {
		return true
	}
	return false
}

func (c *Conn) armDeadline(t time.Time) {
	s := sched.Cur()
	if s == nil || t.IsZero() || !t.After(s.Now()) {
		return
	}
	if c.timerAt == nil {
		c.timerAt = map[int64]bool{}
	}
	k := t.UnixNano()
	if c.timerAt[k] {
		return
	}
	c.timerAt[k] = true
	s.AddTimer(t, "deadline "+c.Name, func() { delete(c.timerAt, k) })
}

// Read implements net.Conn.
func (c *Conn) Read(p []byte) (int, error) {
	s := sched.Cur()
	if s == nil {
		if sched.Aborting() {
			return 0, io.ErrClosedPipe
		}
		return c.readFree(p)
	}
	if !c.readReady() {
		c.armDeadline(c.RDL)
	}
	s.Point("read "+c.Name, c.readReady)
	c.NReads++
	if c.Closed {
		return 0, &net.OpError{Op: "read", Net: "tcp", Err: net.ErrClosed}
	}
	if !c.RDL.IsZero() && !s.Now().Before(c.RDL) {
		return 0, ErrTimeout
	}
	if c.ReadFault != nil {
		if err := c.ReadFault(c); err != nil {
			return 0, err
		}
	}
	if c.In.Err != nil && (c.In.ErrNow || len(c.In.Buf) == 0) {
		return 0, c.In.Err
	}
	if len(c.In.Buf) == 0 {
		return 0, io.EOF
	}
	if len(p) == 0 {
		return 0, nil
	}
	avail := len(c.In.Buf)
	max := avail
	if len(p) < max {
		max = len(p)
	}
	n := max
	if c.Chunker != nil {
		var cands []int
		seen := map[int]bool{}
		for _, k := range c.Chunker(c, avail, len(p)) {
			if k > max {
				k = max
			}
			if k >= 1 && !seen[k] {
				seen[k] = true
				cands = append(cands, k)
			}
		}
		if len(cands) > 0 {
			n = cands[s.C.Choose("chunk "+c.Name, len(cands))]
		}
	}
	copy(p, c.In.Buf[:n])
	c.In.Buf = c.In.Buf[n:]
	c.In.Read += int64(n)
	c.ReadSizes = append(c.ReadSizes, n)
	c.ReadCaps = append(c.ReadCaps, len(p))
	if s.C.Logging() {
		s.C.Logf("  %s: read %d of %d available (offset now %d)", c.Name, n, avail, c.In.Read)
	}
	if c.CoalesceEnd && len(c.In.Buf) == 0 {
		if c.In.Err != nil {
			return n, c.In.Err
		}
		if c.In.WClosed {
			return n, io.EOF
		}
	}
	return n, nil
}

// Write implements net.Conn.
func (c *Conn) Write(p []byte) (int, error) {
	s := sched.Cur()
	if s == nil {
		if sched.Aborting() {
			return 0, io.ErrClosedPipe
		}
		return c.writeFree(p)
	}
	if c.Window > 0 {
		// bounded send window: the write waits until the peer has drained
		// below the window (or the connection ends / the deadline passes);
		// a local Close by another thread unblocks it, as with a real socket
		s.Point("write "+c.Name, func() bool {
			return len(c.Out.Buf) < c.Window || c.Closed || c.Out.RClosed || c.Out.cut || (!c.WDL.IsZero() && !s.Now().Before(c.WDL))
		})
	} else {
		s.Point("write "+c.Name, nil)
	}
	k := c.NWrites
	c.NWrites++
	if c.Closed {
		return 0, &net.OpError{Op: "write", Net: "tcp", Err: net.ErrClosed}
	}
	if !c.WDL.IsZero() && !s.Now().Before(c.WDL) {
		return 0, ErrTimeout
	}
	if c.WriteFault != nil {
		if err := c.WriteFault(k, p); err != nil {
			return 0, err
		}
	}
	if c.Out.RClosed {
		return 0, &net.OpError{Op: "write", Net: "tcp", Err: syscall.EPIPE}
	}
	c.put(p, s.Now())
	if s.C.Logging() {
		s.C.Logf("  %s: write %d (stream offset now %d)", c.Name, len(p), c.Out.Total)
	}
	if c.WriteFaultAfter != nil {
		if err := c.WriteFaultAfter(k, p); err != nil {
			return 0, err
		}
	}
	return len(p), nil
}

func (c *Conn) put(p []byte, at time.Time) {
	q := p
	if c.Out.Tap != nil {
		q = c.Out.Tap(c.Out.Total, append([]byte{}, p...))
	}
	if c.Out.cut {
		// the stream was cut: the peer's later bytes never arrive
		c.Out.Writes = append(c.Out.Writes, WriteRec{N: len(p), At: at, Off: c.Out.Total})
		c.Out.Total += int64(len(p))
		return
	}
	if c.Out.cutOn {
		if room := c.Out.CutAt - c.Out.Total; int64(len(q)) >= room {
			if room < 0 {
				room = 0
			}
			c.Out.Buf = append(c.Out.Buf, q[:room]...)
			c.Out.Writes = append(c.Out.Writes, WriteRec{N: len(p), At: at, Off: c.Out.Total})
			c.Out.Total += int64(len(p))
			c.Out.cut = true
			switch c.Out.CutErr {
			case nil:
				c.Out.WClosed = true
			case ErrStall:
			default:
				c.Out.Err = c.Out.CutErr
			}
			return
		}
	}
	c.Out.Writes = append(c.Out.Writes, WriteRec{N: len(p), At: at, Off: c.Out.Total})
	if len(c.First) < 64 {
		k := 64 - len(c.First)
		if k > len(p) {
			k = len(p)
		}
		c.First = append(c.First, p[:k]...)
	}
	c.Out.Buf = append(c.Out.Buf, q...)
	c.Out.Total += int64(len(p))
	if c.AutoMark && len(p) > 0 {
		c.Out.Marks = append(c.Out.Marks, c.Out.Total)
	}
}

// Close implements net.Conn.
func (c *Conn) Close() error {
	s := sched.Cur()
	if s == nil {
		if sched.Aborting() {
			return nil
		}
		mu.Lock()
		defer mu.Unlock()
		defer cond.Broadcast()
	} else {
		s.Point("close "+c.Name, nil)
		if s.C.Logging() {
			s.C.Logf("  %s: close at +%v", c.Name, s.Now().Sub(time.Unix(0, 0)))
		}
	}
	c.Events = append(c.Events, Event{Kind: "Close", At: now()})
	if c.Closed {
		return &net.OpError{Op: "close", Net: "tcp", Err: net.ErrClosed}
	}
	c.Closed = true
	c.Out.WClosed = true
	c.In.RClosed = true
	return nil
}

// CloseWrite half-closes the sending direction (harness side).
func (c *Conn) CloseWrite() {
	if sched.Cur() == nil && !sched.Aborting() {
		mu.Lock()
		defer mu.Unlock()
		defer cond.Broadcast()
	}
	c.Out.WClosed = true
}

// Inject queues bytes for the peer without a scheduling point (harness use).
func (c *Conn) Inject(p []byte) {
	if sched.Cur() == nil && !sched.Aborting() {
		mu.Lock()
		defer mu.Unlock()
		defer cond.Broadcast()
	}
	c.put(p, now())
}

// NumCloses counts Close calls.
func (c *Conn) NumCloses() int {
	n := 0
	for _, e := range c.Events {
		if e.Kind == "Close" {
			n++
		}
	}
	return n
}

// CloseTime returns the time of the first Close.
func (c *Conn) CloseTime() (time.Time, bool) {
	for _, e := range c.Events {
		if e.Kind == "Close" {
			return e.At, true
		}
	}
	return time.Time{}, false
}

type addr string

func (a addr) Network() string { return "tcp" }
func (a addr) String() string  { return string(a) }

// LocalAddr implements net.Conn.
func (c *Conn) LocalAddr() net.Addr { return &net.TCPAddr{IP: net.IPv4(127, 0, 0, 1), Port: 1000} }

// RemoteAddr implements net.Conn.
func (c *Conn) RemoteAddr() net.Addr {
	if c.Remote != nil {
		return c.Remote
	}
	return &net.TCPAddr{IP: net.IPv4(127, 0, 0, 1), Port: 2000}
}

func (c *Conn) setDL(kind string, t time.Time, r, w bool) error {
	free := sched.Cur() == nil && !sched.Aborting()
	if free {
		mu.Lock()
		defer mu.Unlock()
		defer cond.Broadcast()
	}
	c.Events = append(c.Events, Event{Kind: kind, T: t, At: now()})
	if c.Closed {
		return &net.OpError{Op: "set", Net: "tcp", Err: net.ErrClosed}
	}
	if r {
		c.RDL = t
	}
	if w {
		c.WDL = t
	}
	if free && !t.IsZero() {
		if d := time.Until(t); d > 0 {
			time.AfterFunc(d+time.Millisecond, func() { mu.Lock(); cond.Broadcast(); mu.Unlock() })
		}
	}
	if s := sched.Cur(); s != nil && s.C.Logging() {
		if t.IsZero() {
			s.C.Logf("  %s: %s(none)", c.Name, kind)
		} else {
			s.C.Logf("  %s: %s(now+%v)", c.Name, kind, t.Sub(s.Now()))
		}
	}
	return nil
}

// SetDeadline implements net.Conn.
func (c *Conn) SetDeadline(t time.Time) error { return c.setDL("SetDeadline", t, true, true) }

// SetReadDeadline implements net.Conn.
func (c *Conn) SetReadDeadline(t time.Time) error { return c.setDL("SetReadDeadline", t, true, false) }

// SetWriteDeadline implements net.Conn.
func (c *Conn) SetWriteDeadline(t time.Time) error {
	return c.setDL("SetWriteDeadline", t, false, true)
}

// ---- free-running fallbacks (race pass) -----------------------------------------

func (c *Conn) readFree(p []byte) (int, error) {
	mu.Lock()
	defer mu.Unlock()
	for !c.readReady() {
		cond.Wait()
	}
	if c.Closed {
		return 0, &net.OpError{Op: "read", Net: "tcp", Err: net.ErrClosed}
	}
	if !c.RDL.IsZero() && !time.Now().Before(c.RDL) {
		return 0, ErrTimeout
	}
	if c.In.Err != nil && (c.In.ErrNow || len(c.In.Buf) == 0) {
		return 0, c.In.Err
	}
	if len(c.In.Buf) == 0 {
		return 0, io.EOF
	}
	n := copy(p, c.In.Buf)
	c.In.Buf = c.In.Buf[n:]
	c.In.Read += int64(n)
	return n, nil
}

func (c *Conn) writeFree(p []byte) (int, error) {
	mu.Lock()
	defer mu.Unlock()
	defer cond.Broadcast()
	if c.Closed {
		return 0, &net.OpError{Op: "write", Net: "tcp", Err: net.ErrClosed}
	}
	if c.Out.RClosed {
		return 0, &net.OpError{Op: "write", Net: "tcp", Err: syscall.EPIPE}
	}
	c.put(p, time.Now())
	return len(p), nil
}

// ---- chunkers -------------------------------------------------------------------

// ChunkSizes offers "everything" (default) and each of the given sizes.
func ChunkSizes(sizes ...int) func(c *Conn, avail, want int) []int {
	return func(c *Conn, avail, want int) []int {
		out := []int{avail}
		for _, k := range sizes {
			if k < avail {
				out = append(out, k)
			}
		}
		return out
	}
}

// ChunkEvery offers every length 1..avail (thorough).
func ChunkEvery(c *Conn, avail, want int) []int {
	out := []int{avail}
	for k := 1; k < avail; k++ {
		out = append(out, k)
	}
	return out
}

// ChunkMarks offers: everything, 1 byte, and a read ending at each declared
// mark of the inbound stream -1, +0, +1 (only marks inside the buffered data).
func ChunkMarks(c *Conn, avail, want int) []int {
	out := []int{avail, 1}
	for _, m := range c.In.Marks {
		if m < c.In.Read {
			continue
		}
		d := int(m - c.In.Read)
		for _, k := range []int{d - 1, d, d + 1} {
			if k >= 1 && k < avail {
				out = append(out, k)
			}
		}
	}
	return out
}

// Dribble always reads one byte at a time (a deterministic, non-choice policy).
func Dribble(c *Conn, avail, want int) []int { return []int{1} }

// Mark declares an interesting absolute offset of the outbound stream of c.
func (c *Conn) Mark(off int64) {
	c.Out.Marks = append(c.Out.Marks, off)
	sort.Slice(c.Out.Marks, func(i, j int) bool { return c.Out.Marks[i] < c.Out.Marks[j] })
}

// IsTimeout reports whether err is a deadline error.
func IsTimeout(err error) bool {
	var ne net.Error
	return errors.As(err, &ne) && ne.Timeout()
}

func (c *Conn) String() string { return fmt.Sprintf("wire(%s)", c.Name) }

// WriteOwned is how an application that recycles its buffers writes: w.Write
// gets a private copy of p (with spare capacity behind it), and as soon as
// Write has returned the whole backing array is overwritten. A caller owns its
// buffer again once Write returns (io.Writer: "implementations must not retain
// p"), so whatever the code under test still has to send must not live in it.
// The bytes the application wrote are the bytes in its buffer: a Write that
// returns with the buffer's contents changed (io.Writer: "must not modify the
// slice data, even temporarily") has altered what the application goes on to
// use -- write again, compare, log -- and is reported as ErrCallerBufferModified
// (every harness treats a Write error on a healthy connection as a failure).
func WriteOwned(w io.Writer, p []byte) (int, error) {
	q := make([]byte, len(p), len(p)+96)
	copy(q, p)
	n, err := w.Write(q)
	same := bytes.Equal(q, p)
	q = q[:cap(q)]
	for i := range q {
		q[i] = 0xEE
	}
	if err == nil && !same {
		return n, ErrCallerBufferModified
	}
	return n, err
}

// ErrCallerBufferModified: see WriteOwned.
var ErrCallerBufferModified = errors.New("Write returned with the contents of the caller's buffer changed (the application's data is no longer what it wrote)")
