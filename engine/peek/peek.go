//go:build verif

// Package peek reads private state of the code under test by field NAME at run
// time (reflect + unsafe), so that the harnesses do not have to be compiled
// against private field names and types: when a field is renamed or changes
// its type the accessor reports "unavailable" and the check falls back to its
// black-box oracles instead of failing to build.
package peek

import (
	"reflect"
	"sync"
	"unsafe"
)

// deref follows pointers and interfaces.
func deref(v reflect.Value) (reflect.Value, bool) {
	for v.IsValid() && (v.Kind() == reflect.Ptr || v.Kind() == reflect.Interface) {
		if v.IsNil() {
			return v, false
		}
		v = v.Elem()
	}
	return v, v.IsValid()
}

// readable returns a value that may be read although it came from an
// unexported field.
func readable(f reflect.Value) reflect.Value {
	if f.CanInterface() {
		return f
	}
	if f.CanAddr() {
		return reflect.NewAt(f.Type(), unsafe.Pointer(f.UnsafeAddr())).Elem()
	}
	// not addressable: copy into an addressable value
	c := reflect.New(f.Type()).Elem()
	defer func() { _ = recover() }()
	c.Set(f)
	return c
}

// Field returns the field `name` of obj (a pointer to a struct, or an
// interface holding one), following the path of names.
func Field(obj any, path ...string) (reflect.Value, bool) {
	v := reflect.ValueOf(obj)
	return FieldOf(v, path...)
}

// FieldOf is Field on a reflect.Value.
func FieldOf(v reflect.Value, path ...string) (reflect.Value, bool) {
	for _, name := range path {
		var ok bool
		if v, ok = deref(v); !ok || v.Kind() != reflect.Struct {
			return reflect.Value{}, false
		}
		if !v.CanAddr() {
			c := reflect.New(v.Type()).Elem()
			c.Set(v)
			v = c
		}
		f := v.FieldByName(name)
		if !f.IsValid() {
			return reflect.Value{}, false
		}
		v = readable(f)
	}
	return v, true
}

// Int reads an integer field.
func Int(obj any, path ...string) (int, bool) {
	v, ok := Field(obj, path...)
	if !ok {
		return 0, false
	}
	switch v.Kind() {
	case reflect.Int, reflect.Int8, reflect.Int16, reflect.Int32, reflect.Int64:
		return int(v.Int()), true
	case reflect.Uint, reflect.Uint8, reflect.Uint16, reflect.Uint32, reflect.Uint64:
		return int(v.Uint()), true
	}
	return 0, false
}

// Ints reads a slice-of-integers field (copy).
func Ints(obj any, path ...string) ([]int, bool) {
	v, ok := Field(obj, path...)
	if !ok || v.Kind() != reflect.Slice {
		return nil, false
	}
	out := make([]int, v.Len())
	for i := range out {
		e := v.Index(i)
		switch e.Kind() {
		case reflect.Int, reflect.Int8, reflect.Int16, reflect.Int32, reflect.Int64:
			out[i] = int(e.Int())
		case reflect.Uint, reflect.Uint8, reflect.Uint16, reflect.Uint32, reflect.Uint64:
			out[i] = int(e.Uint())
		default:
			return nil, false
		}
	}
	return out, true
}

// Floats reads a []float64 field (copy).
func Floats(obj any, path ...string) ([]float64, bool) {
	v, ok := Field(obj, path...)
	if !ok || v.Kind() != reflect.Slice || v.Type().Elem().Kind() != reflect.Float64 {
		return nil, false
	}
	out := make([]float64, v.Len())
	for i := range out {
		out[i] = v.Index(i).Float()
	}
	return out, true
}

// Iface returns the field as an interface value (for fields whose type is
// exported or from the standard library, e.g. *list.List, *bytes.Buffer).
func Iface(obj any, path ...string) (any, bool) {
	v, ok := Field(obj, path...)
	if !ok {
		return nil, false
	}
	defer func() { _ = recover() }()
	return v.Interface(), true
}

// Lock locks obj if it is (or embeds) a sync.Locker and returns the unlock
// function (a no-op otherwise).
func Lock(obj any) func() {
	if l, ok := obj.(sync.Locker); ok {
		l.Lock()
		return l.Unlock
	}
	return func() {}
}
