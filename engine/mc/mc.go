//go:build verif

// Package mc is the choice-point explorer: a stateless, deviation-bounded
// depth-first search over the executions of a harness body, plus an
// explicit-state BFS helper for sequential operation histories.
//
// A harness body is a func(*Ctx).  Every source of nondeterminism is asked
// from the Ctx (Choose*).  run(prefix) replays prefix and then answers 0;
// explore enumerates every alternative whose cumulative cost stays within the
// bound.  Divergence while replaying a prefix is a hard error (exit 3), never
// a VIOLATION.
package mc

import (
	"crypto/sha256"
	"encoding/binary"
	"encoding/hex"
	"encoding/json"
	"flag"
	"fmt"
	"os"
	"runtime"
	"runtime/debug"
	"sort"
	"strings"
	"sync"
	"time"
)

// Failure is one oracle violation in one execution.
type Failure struct {
	Oracle string `json:"oracle"` // which oracle failed
	Key    string `json:"key"`    // stable signature: oracle + site/input class (known-finding key)
	Msg    string `json:"msg"`
}

type point struct {
	kind  string
	n     int
	costs []int // nil => alt i>0 costs 1
}

func (p *point) cost(alt int) int {
	if alt == 0 {
		return 0
	}
	if p.costs == nil {
		return 1
	}
	return p.costs[alt]
}

// Ctx is the per-execution context handed to the harness body.
type Ctx struct {
	Tier string
	Seed int64

	prefix    []int
	choices   []int
	points    []point
	log       []string
	keepLog   bool
	obs       [32]byte
	obsN      int
	fails     []Failure
	trivial   bool
	counters  map[string]int64
	history   []int               // set when replaying a BFS history
	noRerun   bool                // the body is an explicit-state search; never re-run it for samples
	cases     map[string]struct{} // distinct (case, outcome) pairs reported by a family-style body
	cost      int                 // deviation cost spent so far in this execution
	bound     int
	pruneFrom int // choice points from this index on are not branched (state already visited)
	visited   map[string]int
	lenient   bool // replay of a recorded file: a schedule that no longer fits is reported, not fatal
	diverged  bool
	bfs       *bfsStats
	st        *Stats
	scen      *Scenario
}

// Choose asks for one of n answers; 0 is the default, 1..n-1 cost one
// deviation each.
func (c *Ctx) Choose(kind string, n int) int { return c.choose(kind, n, nil) }

// ChooseFree asks for one of n answers, all of which are free (the dimension
// is enumerated completely, independent of the deviation bound).
func (c *Ctx) ChooseFree(kind string, n int) int {
	if n <= 1 {
		return 0
	}
	return c.choose(kind, n, zeroCosts(n))
}

// ChooseCost asks for one of len(costs) answers with explicit costs
// (costs[0] must be 0).
func (c *Ctx) ChooseCost(kind string, costs []int) int {
	return c.choose(kind, len(costs), costs)
}

var zc [][]int

func zeroCosts(n int) []int {
	for len(zc) <= n {
		zc = append(zc, make([]int, len(zc)))
	}
	return zc[n]
}

type divergence struct{ msg string }

// fatalDivergence reports uncontrolled nondeterminism (machinery error, never a
// VIOLATION).  It exits directly because the caller may be any scheduled
// goroutine.
func (c *Ctx) fatalDivergence(msg string) {
	name := "?"
	if c.scen != nil {
		name = c.scen.Name
	}
	fmt.Fprintf(os.Stderr, "MACHINERY: %s in scenario %s prefix=%v choices-so-far=%v\n", msg, name, c.prefix, c.choices)
	os.Exit(3)
}

func (c *Ctx) choose(kind string, n int, costs []int) int {
	if n <= 0 {
		c.fatalDivergence(fmt.Sprintf("Choose(%s,%d): no alternatives", kind, n))
	}
	if n == 1 {
		// not a real choice point; never recorded (keeps prefixes short)
		return 0
	}
	i := len(c.choices)
	ch := 0
	if i < len(c.prefix) {
		ch = c.prefix[i]
		if (ch < 0 || ch >= n) && c.lenient {
			c.diverged = true
			ch = 0
		}
		if ch < 0 || ch >= n {
			c.fatalDivergence(fmt.Sprintf("replay divergence at point %d (%s): recorded choice %d but only %d alternatives", i, kind, ch, n))
		}
	}
	c.choices = append(c.choices, ch)
	c.points = append(c.points, point{kind, n, costs})
	c.cost += c.points[len(c.points)-1].cost(ch)
	if c.keepLog {
		c.log = append(c.log, fmt.Sprintf("choose[%d] %s %d/%d", i, kind, ch, n))
	}
	return ch
}

// Prune is called by a harness (or the scheduler) immediately before a choice
// point with a key that canonically identifies the complete global state
// (everything that determines the future behaviour and the oracle verdict).
// If that state was already reached with at least as much deviation budget
// left, the alternatives of this and all later choice points of this
// execution were explored from there and are not branched again.
func (c *Ctx) Prune(key string) {
	if c.visited == nil || len(c.choices) < len(c.prefix) || c.pruneFrom <= len(c.points) {
		return
	}
	rem := c.bound - c.cost
	if old, ok := c.visited[key]; ok && old >= rem {
		c.pruneFrom = len(c.points)
		c.st.Counters["pruned_revisits"]++
		return
	}
	c.visited[key] = rem
	c.st.Counters["distinct_global_states"]++
}

// Observe folds (key,value) into the outcome fingerprint of this execution.
func (c *Ctx) Observe(key string, v any) {
	h := sha256.New()
	h.Write(c.obs[:])
	fmt.Fprintf(h, "%s=%v;", key, v)
	h.Sum(c.obs[:0])
	c.obsN++
	if c.keepLog {
		s := fmt.Sprintf("%v", v)
		if len(s) > 200 {
			s = s[:200] + "..."
		}
		c.log = append(c.log, "obs "+key+"="+s)
	}
}

// Logf records a line in the execution log (kept only for samples/replays).
func (c *Ctx) Logf(format string, a ...any) {
	if c.keepLog {
		c.log = append(c.log, fmt.Sprintf(format, a...))
	}
}

// Logging reports whether the log is kept (to avoid expensive formatting).
func (c *Ctx) Logging() bool { return c.keepLog }

// Fail records an oracle violation.  key identifies the failing oracle and the
// specific site/input class; it is what KNOWN_FINDINGS.txt entries match.
func (c *Ctx) Fail(oracle, key, format string, a ...any) {
	c.fails = append(c.fails, Failure{oracle, key, fmt.Sprintf(format, a...)})
	if c.keepLog {
		c.log = append(c.log, "FAIL "+oracle+" "+key+": "+fmt.Sprintf(format, a...))
	}
}

// Expired reports whether the run's wall-clock budget is used up; scenario
// bodies that enumerate a family themselves stop at it (never during a replay
// or a re-run of a failing execution, which must stay deterministic).
func (c *Ctx) Expired() bool {
	if c.keepLog || c.st == nil || c.st.deadline.IsZero() {
		return false
	}
	return time.Now().After(c.st.deadline)
}

// Incomplete records that a family was cut short by the budget: the run is
// then reported as not exhaustive.
func (c *Ctx) Incomplete(what string) {
	if c.keepLog || c.st == nil {
		return
	}
	c.st.Incomplete = append(c.st.Incomplete, what)
	c.st.Exhaustive = false
	c.noRerun = true // a cut-short family is not a sample for the determinism self-check
}

// Failed reports whether this execution already has a failure.
func (c *Ctx) Failed() bool { return len(c.fails) > 0 }

// NumFailures is the number of failures this execution has recorded so far
// (bodies that enumerate a whole family in one execution stop after a few: on a
// broken tree nearly every case fails, and every failing execution is run again
// five times).
func (c *Ctx) NumFailures() int { return len(c.fails) }

// Property is the id of the property the running check decides.
func (c *Ctx) Property() string {
	if c.st != nil {
		return c.st.Property
	}
	return "?"
}

// ScenarioFamily is the first path element of the running scenario's name.
func (c *Ctx) ScenarioFamily() string {
	if c.scen == nil {
		return "?"
	}
	n := c.scen.Name
	if i := strings.Index(n, "/"); i > 0 {
		n = n[:i]
	}
	return n
}

// Trivial marks this execution as trivial for the distinct_nontrivial count.
func (c *Ctx) Trivial() { c.trivial = true }

// AddExecutions lets a scenario body that enumerates a finite family of
// independent runs itself (each a complete execution of the implementation)
// report them, so that the totals count implementation executions.
func (c *Ctx) AddExecutions(n int64) {
	if c.keepLog {
		return
	}
	c.st.Executions += n
	c.st.States += n
	c.st.Transitions += n
}

// Case records one (case, outcome) pair of a scenario body that enumerates a
// finite family of independent runs itself; the number of distinct pairs is
// added to the distinct / distinct_nontrivial totals of the run.
func (c *Ctx) Case(desc string, outcome any) {
	if c.keepLog {
		return
	}
	if c.cases == nil {
		c.cases = map[string]struct{}{}
	}
	h := sha256.Sum256([]byte(fmt.Sprintf("%s => %v", desc, outcome)))
	c.cases[string(h[:12])] = struct{}{}
}

// AddDistinct reports distinct non-trivial cases counted by the scenario body
// itself (a measured number, see the check's rule).
func (c *Ctx) AddDistinct(n int64) {
	if c.keepLog {
		return
	}
	c.st.Distinct += n
	c.st.DistinctNT += n
}

// NewStandaloneCtx returns a context that is not attached to an explorer:
// every choice takes its default.  Used by helper processes that only need the
// scheduler/wire machinery to run a single default execution.
func NewStandaloneCtx() *Ctx {
	st := &Stats{Counters: map[string]int64{}, seen: map[[16]byte]struct{}{}, violKeys: map[string]int{}}
	return &Ctx{counters: st.Counters, st: st, pruneFrom: 1 << 60}
}

// Count adds to a named anti-vacuity counter.
func (c *Ctx) Count(name string, n int64) {
	c.counters[name] += n
}

// History returns the BFS history being replayed, or nil.
func (c *Ctx) History() []int { return c.history }

// Scenario is one closed harness configuration.
type Scenario struct {
	Name   string         // unique, stable
	Params map[string]any // written to replay files
	Bound  int            // maximal deviation bound (iterated 0..Bound)
	Run    func(c *Ctx)
	// Weight is a hint for sharding (bigger = more expensive); default 1.
	Weight int
	// NoIterate explores directly at Bound instead of iterating 0..Bound
	// (for state-pruned scenarios whose whole space is small).
	NoIterate bool
}

// Violation is a reproducible failing execution.
type Violation struct {
	Property string         `json:"property"`
	Scenario string         `json:"scenario"`
	Params   map[string]any `json:"params,omitempty"`
	Choices  []int          `json:"choices"`
	History  []int          `json:"history,omitempty"`
	Failure  Failure        `json:"failure"`
	Repro    int            `json:"reproduced_of_5"`
	Log      []string       `json:"log,omitempty"`
	Nondet   bool           `json:"harness_nondeterminism,omitempty"`
	// SecondRun: the execution passed when it ran first in its process and
	// failed when the same execution ran again in the same process (the code
	// under test kept package-level state from the first run)
	SecondRun bool `json:"second_run_in_process,omitempty"`
}

// Stats is what a shard reports.
type Stats struct {
	Property       string           `json:"property"`
	Tier           string           `json:"tier"`
	Seed           int64            `json:"seed"`
	Shard          int              `json:"shard"`
	Scenarios      int              `json:"scenarios"`
	Executions     int64            `json:"executions"`
	ChoicePoints   int64            `json:"choice_points"`
	States         int64            `json:"states"`
	Transitions    int64            `json:"transitions"`
	MaxDepth       int              `json:"max_depth"`
	Distinct       int64            `json:"distinct"`
	DistinctNT     int64            `json:"distinct_nontrivial"`
	BoundCompleted int              `json:"bound_completed"` // min over scenarios
	BoundMax       int              `json:"bound_max"`
	Exhaustive     bool             `json:"exhaustive"`
	Aborted        bool             `json:"aborted,omitempty"` // the shard stopped at a non-terminating execution
	Counters       map[string]int64 `json:"counters"`
	Samples        []map[string]any `json:"samples"`
	Violations     []Violation      `json:"violations"`
	Notes          []string         `json:"notes,omitempty"`
	WallS          float64          `json:"wall_s"`
	Incomplete     []string         `json:"incomplete,omitempty"`
	SelfCheck      int              `json:"determinism_selfchecks"`
	Diverged       int64            `json:"diverged_executions,omitempty"`
	Restarts       int64            `json:"restarts_after_warm_up,omitempty"`

	seen     map[[16]byte]struct{}
	violKeys map[string]int
	deadline time.Time
	mu       sync.Mutex
}

type bfsStats struct{ states, transitions int64 }

type explorer struct {
	sc    *Scenario
	st    *Stats
	cfg   *Config
	bound int
	// executions at this bound level
	execs int64
	stop  bool
	// lenient replay (see Ctx.lenient)
	lenient bool
	// set while reporting a failure of a repeated execution (see sample)
	secondRun bool
	// restarts: how often this scenario's exploration was already restarted
	// because of warmed-up state; restartWanted asks for another one
	restarts      int
	restartWanted bool
	visited   map[string]int // global-state key -> largest remaining budget it was expanded with
}

// Config is the parsed command line of a harness binary.
type Config struct {
	Property string
	Tier     string
	Seed     int64
	Shard    int
	NShards  int
	Out      string
	Replay   string
	Budget   time.Duration
	Only     string
	List     bool
	Verbose  bool
}

func (cfg *Config) Thorough() bool { return cfg.Tier == "thorough" }

var watchdogMu sync.Mutex
var watchdogAt time.Time
var watchdogWhat string

// KeepAlive tells the hang watchdog that the current execution is making
// progress (scenario bodies that enumerate a family run many scheduler runs
// inside one execution; every sched.Run calls it).
func KeepAlive() {
	watchdogMu.Lock()
	if !watchdogAt.IsZero() {
		watchdogAt = time.Now()
	}
	watchdogMu.Unlock()
}

var (
	watchdogCfg    *Config
	watchdogStats  *Stats
	watchdogScen   string
	watchdogPrefix []int
)

// spinningInRepo looks for a goroutine that is running or runnable with a
// frame of the repository proper (not the verification engine) on its stack
// and returns that function and the stack.
func spinningInRepo(dump string) (string, string) {
	const mod = "gitlab.com/yawning/obfs4.git/"
	for _, blk := range strings.Split(dump, "\n\n") {
		lines := strings.Split(blk, "\n")
		if len(lines) < 2 || !strings.HasPrefix(lines[0], "goroutine ") {
			continue
		}
		if !strings.Contains(lines[0], "[running") && !strings.Contains(lines[0], "[runnable") {
			continue
		}
		if strings.Contains(blk, "mc.startWatchdog") {
			continue
		}
		// the outermost repository function on the stack names the call that
		// does not return (the innermost one varies from sample to sample)
		fn := ""
		for _, l := range lines[1:] {
			if strings.HasPrefix(l, mod) && !strings.Contains(l, "/internal/zzverif/") && !strings.Contains(strings.ToLower(l), "verif") {
				fn = strings.TrimPrefix(l, mod)
				if k := strings.LastIndex(fn, "("); k > 0 {
					fn = fn[:k]
				}
			}
		}
		if fn != "" {
			if len(lines) > 40 {
				lines = lines[:40]
			}
			return fn, strings.Join(lines, "\n")
		}
	}
	return "", ""
}

// WatchdogLimit is the per-execution hang detector (machinery error, exit 3).
var WatchdogLimit = 120 * time.Second

func startWatchdog() {
	go func() {
		for {
			time.Sleep(2 * time.Second)
			watchdogMu.Lock()
			at, what := watchdogAt, watchdogWhat
			watchdogMu.Unlock()
			if !at.IsZero() && time.Since(at) > WatchdogLimit {
				buf := make([]byte, 4<<20)
				n := runtime.Stack(buf, true)
				dump := string(buf[:n])
				// a goroutine that is running/runnable inside the code under test
				// after this long, without ever reaching a scheduling point, is a
				// loop of the implementation that does not terminate: a violation
				// (with the stack as its evidence), not a machinery failure
				if fn, stack := spinningInRepo(dump); fn != "" && watchdogCfg != nil && watchdogStats != nil {
					watchdogMu.Lock()
					sc, prefix := watchdogScen, watchdogPrefix
					watchdogMu.Unlock()
					watchdogStats.Violations = append(watchdogStats.Violations, Violation{Property: watchdogStats.Property, Scenario: sc, Choices: prefix,
						Failure: Failure{Oracle: "terminates", Key: watchdogStats.Property + "/hang/" + fn,
							Msg: fmt.Sprintf("the execution made no progress for %v and never reached a scheduling point: %s is running a loop that does not terminate\n%s", WatchdogLimit, fn, stack)},
						Repro: 1})
					watchdogStats.Exhaustive = false
					watchdogStats.Aborted = true
					fmt.Fprintf(os.Stderr, "FAIL terminates %s/hang/%s in %s\n", watchdogStats.Property, fn, what)
					writeStats(watchdogCfg, watchdogStats)
					os.Exit(1)
				}
				fmt.Fprintf(os.Stderr, "MACHINERY: execution hang (> %v) in %s\n", WatchdogLimit, what)
				os.Stderr.Write(buf[:n])
				os.Exit(3)
			}
		}
	}()
}

func (e *explorer) newCtx(prefix []int, keepLog bool) *Ctx {
	// (exploration is lenient too: an execution that does not fit the recorded
	// prefix is handled in explore(), see there)
	return &Ctx{lenient: true, bound: e.bound, visited: e.visited, pruneFrom: 1 << 60, Tier: e.cfg.Tier, Seed: e.cfg.Seed, prefix: prefix, keepLog: keepLog,
		counters: e.st.Counters, st: e.st, scen: e.sc}
}

// runOnce executes the body with the given prefix.
func (e *explorer) runOnce(prefix []int, keepLog bool, history []int) (c *Ctx) {
	c = e.newCtx(prefix, keepLog)
	c.history = history
	if keepLog {
		// counters of logged re-runs must not be double counted
		c.counters = map[string]int64{}
	}
	watchdogMu.Lock()
	watchdogAt, watchdogWhat = time.Now(), fmt.Sprintf("%s prefix=%v history=%v", e.sc.Name, prefix, history)
	watchdogCfg, watchdogStats, watchdogScen, watchdogPrefix = e.cfg, e.st, e.sc.Name, append([]int{}, prefix...)
	watchdogMu.Unlock()
	defer func() {
		watchdogMu.Lock()
		watchdogAt = time.Time{}
		watchdogMu.Unlock()
		if r := recover(); r != nil {
			if d, ok := r.(divergence); ok {
				fmt.Fprintf(os.Stderr, "MACHINERY: %s in scenario %s prefix=%v\n", d.msg, e.sc.Name, prefix)
				os.Exit(3)
			}
			// A panic escaping the harness body on the main thread: the
			// harness decides via its own recover what is a property
			// violation; anything arriving here is unexpected.
			c.Fail("harness-panic", "harness-panic", "panic escaped harness body: %v\n%s", r, debug.Stack())
		}
	}()
	e.sc.Run(c)
	if len(c.choices) < len(prefix) && c.lenient {
		c.diverged = true
	} else if len(c.choices) < len(prefix) {
		c.fatalDivergence(fmt.Sprintf("replay divergence: execution ended after %d choice points, prefix has %d", len(c.choices), len(prefix)))
	}
	return c
}

func (e *explorer) account(c *Ctx, prefixLen int) {
	st := e.st
	st.Executions++
	e.execs++
	newPts := len(c.points) - prefixLen
	if newPts < 0 {
		newPts = 0
	}
	st.ChoicePoints += int64(len(c.points))
	// choice tree accounting: each first-visited choice point is a state,
	// the terminal configuration is a state; edges = new points + 1 (the
	// alternative edge that led here) except for the root execution.
	st.States += int64(newPts) + 1
	st.Transitions += int64(newPts) + 1
	if len(c.points) > st.MaxDepth {
		st.MaxDepth = len(c.points)
	}
	var fp [16]byte
	h := sha256.New()
	h.Write([]byte(e.sc.Name))
	h.Write(c.obs[:])
	copy(fp[:], h.Sum(nil))
	if _, ok := st.seen[fp]; !ok {
		st.seen[fp] = struct{}{}
		st.Distinct++
		if !c.trivial && c.obsN > 0 {
			st.DistinctNT++
		}
		// (a failing execution is re-run five times by violation(); the
		// determinism self-check uses passing executions)
		if !c.noRerun && len(c.fails) == 0 && (len(st.Samples) < 4 || (st.Distinct%997 == 0 && len(st.Samples) < 8)) {
			e.sample(c)
		}
	}
	if n := int64(len(c.cases)); n > 0 {
		st.Distinct += n
		st.DistinctNT += n
	}
	for _, f := range c.fails {
		e.violation(c, f)
	}
}

func (e *explorer) sample(c *Ctx) {
	lc := e.runOnce(append([]int{}, c.choices...), true, c.history)
	lg := lc.log
	if len(lg) > 60 {
		lg = append(append([]string{}, lg[:40]...), fmt.Sprintf("... %d lines elided ...", len(lg)-50))
		lg = append(lg, lc.log[len(lc.log)-10:]...)
	}
	e.st.Samples = append(e.st.Samples, map[string]any{
		"scenario": e.sc.Name, "params": e.sc.Params, "choices": compact(c.choices), "history": c.history, "trace": lg,
	})
	e.st.SelfCheck++
	if (lc.obs != c.obs || lc.diverged) && len(lc.fails) > 0 {
		// the same execution, repeated in the same process, fails: the code
		// under test carried state over from the first run (a non-initial
		// state of its package-level variables).  The failure is judged like
		// any other -- it must reproduce 5/5 from here on.
		for _, f := range lc.fails {
			f.Msg = "when the same execution runs a second time in the same process (it passed the first time: the code under test keeps package-level state): " + f.Msg
			e.secondRun = true
			e.violation(lc, f)
			e.secondRun = false
		}
		return
	}
	if lc.obs == c.obs && lc.diverged && e.restarts < 2 {
		// same observations, other choice points: warmed-up state (see Main)
		e.restartWanted, e.stop = true, true
		return
	}
	if lc.obs != c.obs || lc.diverged {
		fmt.Fprintf(os.Stderr, "MACHINERY: harness nondeterminism: same choices, different observations in %s choices=%v\n", e.sc.Name, c.choices)
		os.Exit(3)
	}
}

func compact(ch []int) any {
	if len(ch) <= 64 {
		return ch
	}
	return fmt.Sprintf("%v...(%d)", ch[:64], len(ch))
}

func (e *explorer) violation(c *Ctx, f Failure) {
	st := e.st
	k := f.Key
	st.violKeys[k]++
	if st.violKeys[k] > 1 {
		return // one replayable artefact per key per shard (first = fewest deviations)
	}
	// reproduce 5x
	repro := 0
	var lg []string
	for i := 0; i < 5; i++ {
		rc := e.runOnce(append([]int{}, c.choices...), true, c.history)
		for _, rf := range rc.fails {
			if rf.Key == f.Key {
				repro++
				lg = rc.log
				break
			}
		}
	}
	if len(lg) > 400 {
		lg = append(append([]string{}, lg[:100]...), lg[len(lg)-300:]...)
	}
	v := Violation{Property: st.Property, Scenario: e.sc.Name, Params: e.sc.Params, Choices: append([]int{}, c.choices...),
		History: c.history, Failure: f, Repro: repro, Log: lg, Nondet: repro != 5, SecondRun: e.secondRun}
	st.Violations = append(st.Violations, v)
}

func (e *explorer) explore(prefix []int, prefixCost int) {
	if e.stop {
		return
	}
	if !e.st.deadline.IsZero() && time.Now().After(e.st.deadline) {
		e.stop = true
		return
	}
	c := e.runOnce(prefix, false, nil)
	if c.diverged {
		// The execution did not offer the choices an earlier execution of the
		// same prefix offered: something outside the explorer's control keeps
		// state from one execution to the next (package-level state of the
		// code under test: a cache, a lock left held, a lazily built table --
		// or harness nondeterminism).  The execution is still a real execution
		// of the code and is judged like any other (a failure must reproduce
		// 5/5); but the tree below it cannot be enumerated, so the scenario is
		// reported as not exhaustively explored.
		if len(c.fails) == 0 && e.restarts < 2 {
			e.restartWanted, e.stop = true, true
			return
		}
		e.st.Diverged++
		if e.st.Exhaustive {
			e.st.Exhaustive = false
		}
		if e.st.Diverged <= 3 {
			e.st.Incomplete = append(e.st.Incomplete, fmt.Sprintf("%s: an execution did not replay the choice points of an earlier execution with the same prefix (state is kept across executions); its subtree was not expanded", e.sc.Name))
		}
		e.account(c, len(c.choices))
		return
	}
	if prefixCost == e.bound || e.sc.NoIterate {
		e.account(c, len(prefix))
	}
	if len(c.fails) > 0 {
		// a failing execution is a counterexample: its deviations are not
		// expanded (the search goes on from the other branches).  This never
		// happens on code where the property holds, and it keeps executions
		// that ran into the step budget from spawning a subtree per step.
		return
	}
	choices, points := c.choices, c.points
	for i := len(prefix); i < len(points) && i < c.pruneFrom; i++ {
		p := &points[i]
		for alt := 1; alt < p.n; alt++ {
			cost := prefixCost + p.cost(alt)
			if cost > e.bound {
				continue
			}
			np := make([]int, i+1)
			copy(np, choices[:i])
			np[i] = alt
			e.explore(np, cost)
			if e.stop {
				return
			}
		}
	}
}

// BFS explores all histories over ops 0..nOps-1 up to depth on fresh real
// instances (successor = replay of the shortest path + one op), deduplicated
// by canon.  apply returns a non-empty failure to report; it is only the
// last step's verdict that is reported (earlier steps were checked when they
// were last).  When the Ctx carries a History (replay), only that history is
// replayed.
func BFS[I any](c *Ctx, newInst func() I, nOps int, apply func(inst I, op int, step int) *Failure, canon func(I) string, depth int, opName func(int) string) {
	replay := func(h []int, log bool) (I, *Failure) {
		inst := newInst()
		var f *Failure
		for i, op := range h {
			if log {
				c.Logf("op[%d] %s", i, opName(op))
			}
			f = apply(inst, op, i)
			if f != nil && i < len(h)-1 {
				// an earlier step failing is reported where it was last
				f = nil
			}
		}
		return inst, f
	}
	if h := c.History(); h != nil {
		_, f := replay(h, true)
		if f != nil {
			c.Fail(f.Oracle, f.Key, "%s", f.Msg)
		}
		c.Observe("history", h)
		return
	}
	c.noRerun = true
	seen := map[string]struct{}{}
	i0 := newInst()
	seen[canon(i0)] = struct{}{}
	frontier := [][]int{{}}
	var states, trans int64 = 1, 0
	completed := 0
	exhaustive := true
	for d := 1; d <= depth && len(frontier) > 0; d++ {
		var next [][]int
		for _, h := range frontier {
			// a BFS is one long execution: tell the hang watchdog it is alive
			watchdogMu.Lock()
			if !watchdogAt.IsZero() {
				watchdogAt = time.Now()
			}
			watchdogMu.Unlock()
			if !c.st.deadline.IsZero() && time.Now().After(c.st.deadline) {
				exhaustive = false
				break
			}
			for op := 0; op < nOps; op++ {
				nh := make([]int, len(h)+1)
				copy(nh, h)
				nh[len(h)] = op
				inst, f := replay(nh, false)
				trans++
				if f != nil {
					c.st.mu.Lock()
					ex := &explorer{sc: c.scen, st: c.st, cfg: &Config{Tier: c.Tier, Seed: c.Seed}}
					hc := ex.newCtx(nil, false)
					hc.history = nh
					hc.fails = []Failure{*f}
					ex.violation(hc, *f)
					c.st.mu.Unlock()
					continue // do not extend failing histories
				}
				k := canon(inst)
				if _, ok := seen[k]; !ok {
					seen[k] = struct{}{}
					states++
					next = append(next, nh)
					if len(c.st.Samples) < 6 && (states == 2 || states%1009 == 0) {
						names := make([]string, len(nh))
						for i, o := range nh {
							names[i] = opName(o)
						}
						kk := k
						if len(kk) > 300 {
							kk = kk[:300] + "..."
						}
						c.st.Samples = append(c.st.Samples, map[string]any{"scenario": c.scen.Name, "history": names, "reached_state": kk})
					}
				}
			}
		}
		if !exhaustive {
			break
		}
		completed = d
		frontier = next
	}
	c.st.States += states
	c.st.Transitions += trans
	c.Count("bfs_states", states)
	c.Count("bfs_transitions", trans)
	c.Count("bfs_depth_completed", int64(completed))
	c.Observe("bfs", fmt.Sprintf("states=%d transitions=%d depth=%d", states, trans, completed))
	// every distinct canonical state is a distinct non-trivial case
	c.st.DistinctNT += states - 1
	c.st.Distinct += states - 1
	if !exhaustive {
		c.st.Exhaustive = false
		c.st.Incomplete = append(c.st.Incomplete, fmt.Sprintf("%s: BFS stopped by budget at depth %d (completed %d)", c.scen.Name, completed+1, completed))
	}
}

// Main is the entry point of every harness binary.
func Main(property string, gen func(cfg *Config, emit func(Scenario))) {
	cfg := &Config{Property: property}
	flag.StringVar(&cfg.Tier, "tier", "quick", "quick|thorough")
	flag.Int64Var(&cfg.Seed, "seed", 1, "VERIF_SEED")
	flag.IntVar(&cfg.Shard, "shard", 0, "shard index")
	flag.IntVar(&cfg.NShards, "nshards", 1, "number of shards")
	flag.StringVar(&cfg.Out, "out", "", "stats output file")
	flag.StringVar(&cfg.Replay, "replay", "", "replay file")
	flag.DurationVar(&cfg.Budget, "budget", 0, "wall-clock budget (0 = none)")
	flag.StringVar(&cfg.Only, "only", "", "only scenarios whose name contains this")
	flag.BoolVar(&cfg.List, "list", false, "list scenarios")
	flag.BoolVar(&cfg.Verbose, "v", false, "verbose")
	flag.Parse()
	debug.SetGCPercent(400)
	startWatchdog()

	var scs []Scenario
	gen(cfg, func(s Scenario) { scs = append(scs, s) })
	// every shard process must see the scenarios in the same order (a
	// generator may emit them in map-iteration order)
	sort.SliceStable(scs, func(a, b int) bool { return scs[a].Name < scs[b].Name })
	names := map[string]bool{}
	for _, s := range scs {
		if names[s.Name] {
			fmt.Fprintf(os.Stderr, "MACHINERY: duplicate scenario name %q\n", s.Name)
			os.Exit(3)
		}
		names[s.Name] = true
	}
	if cfg.List {
		for _, s := range scs {
			fmt.Println(s.Name)
		}
		return
	}
	st := &Stats{Property: property, Tier: cfg.Tier, Seed: cfg.Seed, Shard: cfg.Shard, Exhaustive: true,
		Counters: map[string]int64{}, seen: map[[16]byte]struct{}{}, violKeys: map[string]int{}, BoundCompleted: 1 << 30}
	t0 := time.Now()
	if cfg.Budget > 0 {
		st.deadline = t0.Add(cfg.Budget)
	}

	if cfg.Replay != "" {
		os.Exit(replayFile(cfg, st, scs))
	}

	// Shard assignment: longest-processing-time greedy over weights, stable.
	type idxw struct{ i, w int }
	order := make([]idxw, len(scs))
	for i := range scs {
		w := scs[i].Weight
		if w <= 0 {
			w = 1
		}
		order[i] = idxw{i, w}
	}
	sort.SliceStable(order, func(a, b int) bool { return order[a].w > order[b].w })
	load := make([]int, cfg.NShards)
	mine := []int{}
	for _, o := range order {
		best := 0
		for s := 1; s < cfg.NShards; s++ {
			if load[s] < load[best] {
				best = s
			}
		}
		load[best] += o.w
		if best == cfg.Shard {
			mine = append(mine, o.i)
		}
	}
	sort.Ints(mine)

	for _, i := range mine {
		sc := &scs[i]
		if cfg.Only != "" && !strings.Contains(sc.Name, cfg.Only) {
			continue
		}
		st.Scenarios++
		completed := -1
		restarts := 0
		for b := 0; b <= sc.Bound; b++ {
			if sc.NoIterate && b < sc.Bound {
				continue
			}
			e := &explorer{sc: sc, st: st, cfg: cfg, bound: b, visited: map[string]int{}, restarts: restarts}
			// iterative bounding: level b re-runs the cheaper executions
			// to find their branching points but only accounts (and
			// checks) executions of cost exactly b.
			e.explore(nil, 0)
			if e.restartWanted {
				// an execution did not fit the choice points recorded by an
				// earlier one although nothing failed: the code under test
				// warmed something up (a cache, a lazily built table).  The
				// level is explored again from the root, now in the warm state.
				restarts++
				st.Restarts++
				b--
				continue
			}
			if e.stop {
				st.Exhaustive = false
				st.Incomplete = append(st.Incomplete, fmt.Sprintf("%s: budget expired inside bound %d (completed %d)", sc.Name, b, completed))
				break
			}
			completed = b
			if cfg.Verbose {
				fmt.Fprintf(os.Stderr, "[%s] bound %d: %d executions (cum %d) distinct=%d\n", sc.Name, b, e.execs, st.Executions, st.Distinct)
			}
		}
		if sc.Bound > 0 && completed < st.BoundCompleted {
			st.BoundCompleted = completed
		}
		if sc.Bound > st.BoundMax {
			st.BoundMax = sc.Bound
		}
	}
	if st.BoundCompleted == 1<<30 {
		st.BoundCompleted = 0
	}
	st.WallS = time.Since(t0).Seconds()
	writeStats(cfg, st)
	for _, v := range st.Violations {
		if v.Nondet {
			fmt.Fprintf(os.Stderr, "MACHINERY: a failure did not reproduce from its choice list (harness nondeterminism, no verdict): %s in scenario %s, reproduced %d of 5\n", v.Failure.Key, v.Scenario, v.Repro)
			os.Exit(3)
		}
	}
	if len(st.Violations) > 0 {
		os.Exit(1)
	}
}

func writeStats(cfg *Config, st *Stats) {
	b, err := json.Marshal(st)
	if err != nil {
		fmt.Fprintln(os.Stderr, "MACHINERY:", err)
		os.Exit(3)
	}
	if cfg.Out == "" {
		var pretty map[string]any
		json.Unmarshal(b, &pretty)
		delete(pretty, "samples")
		pb, _ := json.MarshalIndent(pretty, "", " ")
		os.Stdout.Write(pb)
		fmt.Println()
		return
	}
	if err := os.WriteFile(cfg.Out, b, 0o644); err != nil {
		fmt.Fprintln(os.Stderr, "MACHINERY:", err)
		os.Exit(3)
	}
}

func replayFile(cfg *Config, st *Stats, scs []Scenario) int {
	b, err := os.ReadFile(cfg.Replay)
	if err != nil {
		fmt.Fprintln(os.Stderr, "MACHINERY:", err)
		return 3
	}
	var v Violation
	if err := json.Unmarshal(b, &v); err != nil {
		fmt.Fprintln(os.Stderr, "MACHINERY:", err)
		return 3
	}
	for i := range scs {
		if scs[i].Name != v.Scenario {
			continue
		}
		e := &explorer{sc: &scs[i], st: st, cfg: cfg, lenient: true}
		if v.SecondRun {
			e.runOnce(v.Choices, false, v.History)
			fmt.Println("REPLAY: (first run of the execution in this process done; the recorded failure is that of the second run)")
		}
		c := e.runOnce(v.Choices, true, v.History)
		for _, l := range c.log {
			fmt.Println(l)
		}
		if c.diverged {
			fmt.Println("REPLAY: the recorded schedule does not fit this tree any more (the code under test changed); defaults were used where it diverged")
		}
		for _, f := range c.fails {
			if f.Key == v.Failure.Key {
				fmt.Printf("REPLAY: reproduced %s: %s\n", f.Key, f.Msg)
				return 1
			}
		}
		if len(c.fails) > 0 {
			fmt.Printf("REPLAY: different failure: %+v\n", c.fails[0])
			return 1
		}
		fmt.Println("REPLAY: no failure (property holds on this execution)")
		return 0
	}
	fmt.Fprintf(os.Stderr, "MACHINERY: scenario %q not found (tier/seed differ?)\n", v.Scenario)
	return 3
}

// Hex is a helper for short fingerprints of byte strings.
func Hex(b []byte) string {
	if len(b) <= 16 {
		return hex.EncodeToString(b)
	}
	h := sha256.Sum256(b)
	return fmt.Sprintf("len%d:%s", len(b), hex.EncodeToString(h[:6]))
}

// U64 derives a stable pseudo-random 64-bit value from a seed and labels.
func U64(seed int64, labels ...any) uint64 {
	h := sha256.New()
	fmt.Fprintf(h, "%d|%v", seed, labels)
	return binary.BigEndian.Uint64(h.Sum(nil))
}
