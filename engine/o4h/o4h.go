//go:build verif

// Package o4h is the shared obfs4 test bench: real factories built through the
// public API, and reference peers (package ref) speaking over any net.Conn.
package o4h

import (
	"bytes"
	"encoding/hex"
	"errors"
	"flag"
	"fmt"
	"io"
	"net"
	"os"
	"strconv"

	pt "gitlab.torproject.org/tpo/anti-censorship/pluggable-transports/goptlib"

	"gitlab.com/yawning/obfs4.git/internal/zzverif/ref"
	"gitlab.com/yawning/obfs4.git/internal/zzverif/rnd"
	"gitlab.com/yawning/obfs4.git/internal/zzverif/sched"
	"gitlab.com/yawning/obfs4.git/transports/base"
	"gitlab.com/yawning/obfs4.git/transports/obfs4"
)

// StateDir returns a scratch state directory for this process.
func StateDir() string {
	d := os.Getenv("VERIF_WORK")
	if d == "" {
		d = os.TempDir()
	}
	d = fmt.Sprintf("%s/state-%d", d, os.Getpid())
	os.MkdirAll(d, 0o700)
	return d
}

// SetBias sets the -obfs4-distBias flag of the transport.
func SetBias(on bool) {
	if err := flag.Set("obfs4-distBias", strconv.FormatBool(on)); err != nil {
		panic(err)
	}
}

// Bridge is one bridge configuration.
type Bridge struct {
	ID   *ref.Identity
	Seed []byte // 24 bytes
	IAT  int
	Bias bool
}

// NewBridge derives identity and seed from stream (seed,label).
func NewBridge(seed int64, label any, iat int, bias bool) *Bridge {
	s := rnd.New(seed, fmt.Sprint("bridge|", label))
	b := &Bridge{ID: ref.NewIdentity(s), Seed: s.Bytes(24), IAT: iat, Bias: bias}
	return b
}

// ServerArgs are the explicit server arguments.
func (b *Bridge) ServerArgs() *pt.Args {
	a := pt.Args{}
	a.Add("node-id", hex.EncodeToString(b.ID.NodeID[:]))
	a.Add("private-key", hex.EncodeToString(b.ID.Priv[:]))
	a.Add("drbg-seed", hex.EncodeToString(b.Seed))
	a.Add("iat-mode", strconv.Itoa(b.IAT))
	return &a
}

// ServerFactory builds the real server factory through the public API.
func (b *Bridge) ServerFactory() (base.ServerFactory, error) {
	SetBias(b.Bias)
	return (&obfs4.Transport{}).ServerFactory(StateDir(), b.ServerArgs())
}

// ClientArgs returns the client arguments in "cert" or "legacy" format; the
// cert form is taken from what the server factory advertises when sf != nil.
func (b *Bridge) ClientArgs(format string, sf base.ServerFactory) *pt.Args {
	a := pt.Args{}
	if format == "legacy" {
		a.Add("node-id", hex.EncodeToString(b.ID.NodeID[:]))
		a.Add("public-key", hex.EncodeToString(b.ID.Pub[:]))
		a.Add("iat-mode", strconv.Itoa(b.IAT))
		return &a
	}
	if sf != nil {
		return sf.Args()
	}
	a.Add("cert", b.Cert())
	a.Add("iat-mode", strconv.Itoa(b.IAT))
	return &a
}

// Cert is base64(nodeID | publicKey) without padding, computed independently.
func (b *Bridge) Cert() string {
	raw := append(append([]byte{}, b.ID.NodeID[:]...), b.ID.Pub[:]...)
	return b64NoPad(raw)
}

const b64 = "ABCDEFGHIJKLMNOPQRSTUVWXYZabcdefghijklmnopqrstuvwxyz0123456789+/"

func b64NoPad(p []byte) string {
	var sb bytes.Buffer
	for i := 0; i < len(p); i += 3 {
		var v uint32
		n := 0
		for j := 0; j < 3; j++ {
			v <<= 8
			if i+j < len(p) {
				v |= uint32(p[i+j])
				n++
			}
		}
		for j := 0; j <= n; j++ {
			sb.WriteByte(b64[(v>>(18-6*uint(j)))&63])
		}
	}
	return sb.String()
}

// one client factory per execution: like obfs4proxy, which creates a
// transport's ClientFactory once and sends every connection of the process
// through it, all Dials of one scheduled execution share a factory (and a new
// execution starts with a new one, so executions stay independent)
var (
	dialFactory      base.ClientFactory
	dialFactorySched *sched.Sched
)

// clientFactory: the one client factory of the current execution (obfs4proxy
// creates one per transport for the life of the process).
func clientFactory() (base.ClientFactory, error) {
	cf := dialFactory
	if s := sched.Cur(); cf == nil || s == nil || s != dialFactorySched {
		var err error
		cf, err = (&obfs4.Transport{}).ClientFactory("")
		if err != nil {
			return nil, err
		}
		dialFactory, dialFactorySched = cf, s
	}
	return cf, nil
}

// Dial runs the real client (ParseArgs + Dial) over conn.
func Dial(args *pt.Args, conn net.Conn) (net.Conn, error) {
	pa, err := ParseArgs(args)
	if err != nil {
		return nil, err
	}
	return DialParsed(pa, conn)
}

// ParseArgs and DialParsed are the two halves of Dial, for callers that parse
// the arguments of several connections before dialling any of them (tor opens
// several connections at once) or dial one parsed object more than once.
func ParseArgs(args *pt.Args) (interface{}, error) {
	cf, err := clientFactory()
	if err != nil {
		return nil, err
	}
	pa, err := cf.ParseArgs(args)
	if err != nil {
		return nil, fmt.Errorf("ParseArgs: %w", err)
	}
	return pa, nil
}

func DialParsed(pa interface{}, conn net.Conn) (net.Conn, error) {
	cf, err := clientFactory()
	if err != nil {
		return nil, err
	}
	return cf.Dial("tcp", "192.0.2.1:443", func(string, string) (net.Conn, error) { return conn, nil }, pa)
}

// Hour returns the epoch hour of the model clock.
func Hour() int64 {
	if s := sched.Cur(); s != nil {
		return s.Now().Unix() / 3600
	}
	panic("o4h.Hour: no scheduler")
}

// ---- reference peers ----------------------------------------------------------------

// RefSession is an established reference endpoint.
type RefSession struct {
	Conn    net.Conn
	Tx      *ref.LinkKey
	Rx      *ref.Opener
	KeySeed []byte
	// received
	Payload   []byte           // concatenated payload of TYPE_PAYLOAD packets
	Packets   []ref.PacketInfo // every packet, in order
	Frames    []ref.FrameInfo
	SeedsSeen [][]byte
	RxErr     error
	Sent      int64 // bytes this side put on the wire after the handshake
	// FrameEnds lists the stream offsets (relative to the first byte this
	// side ever wrote) at which frames written by this side end.
	FrameEnds []int64
	wrote     int64
	// HandshakeLen is the length of the peer's handshake message as parsed from
	// the byte stream (client hello for a reference server, server response
	// for a reference client), however the peer split it into writes.
	HandshakeLen int
}

func (s *RefSession) write(p []byte) error {
	_, err := s.Conn.Write(p)
	s.wrote += int64(len(p))
	return err
}

// ClientOpts tune the reference client.
type ClientOpts struct {
	PadLen    int   // 77..8128
	HourDelta int64 // offset from the model clock's hour
	Eph       *ref.Ephemeral
	// Hello, when set, is sent instead of a freshly built handshake (replays).
	Hello []byte
	// SkipAuthCheck makes the reference client accept any AUTH (used to
	// study what the real server sent).
	SkipAuthCheck bool
}

// HelloOf builds the client handshake bytes for these options.
func HelloOf(B, id []byte, o *ClientOpts, r io.Reader) []byte {
	if o.Eph == nil {
		o.Eph = ref.NewEphemeral(r)
	}
	pad := make([]byte, o.PadLen)
	io.ReadFull(r, pad)
	return ref.ClientHello(B, id, o.Eph.Repr[:], pad, Hour()+o.HourDelta)
}

// RefClient performs the reference client handshake over conn.
func RefClient(conn net.Conn, B, id []byte, o ClientOpts, r io.Reader) (*RefSession, []byte, error) {
	hello := o.Hello
	if hello == nil {
		hello = HelloOf(B, id, &o, r)
	}
	hour := Hour() + o.HourDelta
	s := &RefSession{Conn: conn}
	if err := s.write(hello); err != nil {
		return nil, hello, err
	}
	var buf []byte
	tmp := make([]byte, 16384)
	for {
		n, err := conn.Read(tmp)
		buf = append(buf, tmp[:n]...)
		if n > 0 {
			used, yrepr, auth, perr := ref.ParseServerHello(B, id, buf, hour)
			if perr == nil {
				Y := ref.ReprToPub(yrepr)
				ok, ks, myAuth := ref.NtorClient(o.Eph.Priv[:], o.Eph.Pub[:], Y, B, id)
				if !ok {
					return nil, hello, errors.New("ref client: ntor failed (zero DH)")
				}
				if !o.SkipAuthCheck && !bytes.Equal(myAuth, auth) {
					return nil, hello, fmt.Errorf("ref client: AUTH mismatch")
				}
				okm := ref.Kdf(ks, 144)
				s.KeySeed = ks
				s.Tx = ref.NewLinkKey(okm[:72])
				s.Rx = &ref.Opener{K: ref.NewLinkKey(okm[72:])}
				s.HandshakeLen = used
				s.feed(buf[used:])
				return s, hello, nil
			}
			if perr != ref.ErrNeedMore {
				return nil, hello, perr
			}
		}
		if err != nil {
			return nil, hello, fmt.Errorf("ref client: %w (after %d response bytes)", err, len(buf))
		}
	}
}

// ServerOpts tune the reference server.
type ServerOpts struct {
	PadLen   int // 0..8051
	Eph      *ref.Ephemeral
	LenSeed  []byte // 24-byte seed sent in the inline seed frame (nil: none)
	WithData []byte // payload coalesced into the same write as response+seed frame
	DataPad  int
	// separate: send the seed frame in its own write
	SeparateSeed bool
	// Tail, when set, returns raw bytes appended to the same write as the
	// response (+ seed frame + WithData); it may use the session's Tx key
	Tail func(s *RefSession) []byte
	// Mutate, when set, may alter the response blob (before the seed frame)
	Mutate func(resp []byte) []byte
	// ForgeAuth replaces AUTH (impostor)
	ForgeAuth []byte
	Priv      []byte // identity private key to use (default: the identity's)
}

// RefServer performs the reference server handshake over conn.
func RefServer(conn net.Conn, idn *ref.Identity, o ServerOpts, r io.Reader) (*RefSession, error) {
	B, id := idn.Pub[:], idn.NodeID[:]
	var buf []byte
	tmp := make([]byte, 16384)
	h := Hour()
	var xrepr []byte
	var hour int64
	for {
		n, err := conn.Read(tmp)
		buf = append(buf, tmp[:n]...)
		if n > 0 {
			var perr error
			xrepr, hour, perr = ref.ParseClientHello(B, id, buf, []int64{h, h - 1, h + 1})
			if perr == nil {
				break
			}
			if perr != ref.ErrNeedMore {
				return nil, perr
			}
		}
		if err != nil {
			return nil, fmt.Errorf("ref server: %w (after %d handshake bytes)", err, len(buf))
		}
	}
	if o.Eph == nil {
		o.Eph = ref.NewEphemeral(r)
	}
	priv := o.Priv
	if priv == nil {
		priv = idn.Priv[:]
	}
	X := ref.ReprToPub(xrepr)
	ok, ks, auth := ref.NtorServer(X, o.Eph.Priv[:], o.Eph.Pub[:], priv, B, id)
	if !ok {
		return nil, errors.New("ref server: ntor failed (zero DH)")
	}
	if o.ForgeAuth != nil {
		auth = o.ForgeAuth
	}
	pad := make([]byte, o.PadLen)
	io.ReadFull(r, pad)
	resp := ref.ServerHello(B, id, o.Eph.Repr[:], auth, pad, hour)
	if o.Mutate != nil {
		resp = o.Mutate(resp)
	}
	okm := ref.Kdf(ks, 144)
	s := &RefSession{Conn: conn, KeySeed: ks, HandshakeLen: len(buf)}
	s.Tx = ref.NewLinkKey(okm[72:])
	s.Rx = &ref.Opener{K: ref.NewLinkKey(okm[:72])}
	out := resp
	s.FrameEnds = append(s.FrameEnds, int64(len(out)))
	if o.LenSeed != nil && !o.SeparateSeed {
		out = append(out, s.Tx.Seal(ref.Packet(ref.PktSeed, o.LenSeed, 0))...)
		s.FrameEnds = append(s.FrameEnds, int64(len(out)))
	}
	if o.WithData != nil {
		out = append(out, s.framesFor(o.WithData, o.DataPad, int64(len(out)))...)
	}
	if o.Tail != nil {
		out = append(out, o.Tail(s)...)
	}
	if err := s.write(out); err != nil {
		return nil, err
	}
	if o.LenSeed != nil && o.SeparateSeed {
		f := s.Tx.Seal(ref.Packet(ref.PktSeed, o.LenSeed, 0))
		s.FrameEnds = append(s.FrameEnds, s.wrote+int64(len(f)))
		if err := s.write(f); err != nil {
			return nil, err
		}
	}
	return s, nil
}

// framesFor chops data into maximal payload packets, the last one padded by pad.
func (s *RefSession) framesFor(data []byte, pad int, base int64) []byte {
	var out []byte
	for first := true; first || len(data) > 0; first = false {
		n := len(data)
		if n > ref.MaxPktPayload {
			n = ref.MaxPktPayload
		}
		p := 0
		if n == len(data) {
			p = pad
			if n+p > ref.MaxPktPayload {
				p = ref.MaxPktPayload - n
			}
		}
		out = append(out, s.Tx.Seal(ref.Packet(ref.PktPayload, data[:n], p))...)
		s.FrameEnds = append(s.FrameEnds, base+int64(len(out)))
		data = data[n:]
	}
	return out
}

// Send writes data as payload packets in one write.
func (s *RefSession) Send(data []byte, pad int) error {
	return s.write(s.framesFor(data, pad, s.wrote))
}

// SendFrames writes pre-built frames.
func (s *RefSession) SendRaw(p []byte) error { return s.write(p) }

// Frames builds frames without sending them.
func (s *RefSession) BuildFrames(data []byte, pad int) []byte {
	return s.framesFor(data, pad, s.wrote)
}

func (s *RefSession) feed(p []byte) {
	if s.RxErr != nil {
		return
	}
	for _, f := range s.Rx.Feed(p) {
		s.Frames = append(s.Frames, f)
		pk, err := ref.ParsePacket(f.Payload)
		if err != nil {
			s.RxErr = err
			return
		}
		s.Packets = append(s.Packets, pk)
		switch pk.Type {
		case ref.PktPayload:
			s.Payload = append(s.Payload, pk.Payload...)
		case ref.PktSeed:
			s.SeedsSeen = append(s.SeedsSeen, pk.Payload)
		}
	}
	if s.Rx.Err != nil {
		s.RxErr = s.Rx.Err
	}
}

// RecvOnce performs one Read on the connection and decodes what arrived.
func (s *RefSession) RecvOnce() (int, error) {
	tmp := make([]byte, 65536)
	n, err := s.Conn.Read(tmp)
	s.feed(tmp[:n])
	if s.RxErr != nil {
		return n, s.RxErr
	}
	return n, err
}

// RecvUntil reads until at least want payload bytes arrived or an error.
func (s *RefSession) RecvUntil(want int) error {
	for len(s.Payload) < want {
		if _, err := s.RecvOnce(); err != nil {
			return err
		}
	}
	return nil
}

// Pattern returns n deterministic bytes for direction tag.
func Pattern(tag byte, start, n int) []byte {
	b := make([]byte, n)
	for i := range b {
		k := start + i
		b[i] = tag ^ byte(k) ^ byte(k>>8)*31
	}
	return b
}
