//go:build verif

// Package vtime mirrors the functions of package time that read or wait on
// the clock.  Under an active scheduler they use the model clock.
package vtime

import (
	"fmt"
	"time"

	"gitlab.com/yawning/obfs4.git/internal/zzverif/sched"
)

// Now is time.Now on the model clock.
func Now() time.Time {
	if s := sched.Cur(); s != nil {
		return s.ReadClock()
	}
	return time.Now()
}

// Since is time.Since.
func Since(t time.Time) time.Duration { return Now().Sub(t) }

// Until is time.Until.
func Until(t time.Time) time.Duration { return t.Sub(Now()) }

// Sleep is time.Sleep.
func Sleep(d time.Duration) { sched.Sleep(d) }

// After is time.After.
func After(d time.Duration) <-chan time.Time {
	s := sched.Cur()
	if s == nil {
		return time.After(d)
	}
	ch := make(chan time.Time, 1)
	at := s.Now().Add(d)
	if d < 0 {
		at = s.Now()
	}
	s.AddTimer(at, fmt.Sprintf("After(%v)", d), func() { s.DeliverTimer(ch, at) })
	return ch
}
