//go:build verif

// Package vtime mirrors the functions of package time that read or wait on
// the clock.  Under an active scheduler they use the model clock.
package vtime

import (
	"fmt"
	"time"

	"gitlab.com/yawning/obfs4.git/internal/zzverif/sched"
)

// Now is time.Now on the model clock.
func Now() time.Time {
	if s := sched.Cur(); s != nil {
		return s.ReadClock()
	}
	return time.Now()
}

// Since is time.Since.
func Since(t time.Time) time.Duration { return Now().Sub(t) }

// Until is time.Until.
func Until(t time.Time) time.Duration { return t.Sub(Now()) }

// Sleep is time.Sleep.
func Sleep(d time.Duration) { sched.Sleep(d) }

// After is time.After.
func After(d time.Duration) <-chan time.Time {
	s := sched.Cur()
	if s == nil {
		return time.After(d)
	}
	ch := make(chan time.Time, 1)
	at := s.Now().Add(d)
	if d < 0 {
		at = s.Now()
	}
	s.AddTimer(at, fmt.Sprintf("After(%v)", d), func() { s.DeliverTimer(ch, at) })
	return ch
}

// Timer mirrors time.Timer (NewTimer and AfterFunc) on the model clock.
type Timer struct {
	C     <-chan time.Time
	ch    chan time.Time
	f     func()
	h     interface{ Cancel() }
	armed bool
	rt    *time.Timer
}

func (t *Timer) arm(s *sched.Sched, d time.Duration) {
	if d < 0 {
		d = 0
	}
	at := s.Now().Add(d)
	t.armed = true
	what := fmt.Sprintf("Timer(%v)", d)
	if t.f != nil {
		what = fmt.Sprintf("AfterFunc(%v)", d)
	}
	t.h = s.AddTimer(at, what, func() {
		t.armed = false
		if t.f != nil {
			s.Spawn("AfterFunc", t.f)
		} else {
			s.DeliverTimer(t.ch, at)
		}
	})
}

// NewTimer is time.NewTimer.
func NewTimer(d time.Duration) *Timer {
	s := sched.Cur()
	if s == nil {
		rt := time.NewTimer(d)
		return &Timer{C: rt.C, rt: rt}
	}
	ch := make(chan time.Time, 1)
	t := &Timer{C: ch, ch: ch}
	t.arm(s, d)
	return t
}

// AfterFunc is time.AfterFunc: f runs on its own (scheduled) thread.
func AfterFunc(d time.Duration, f func()) *Timer {
	s := sched.Cur()
	if s == nil {
		return &Timer{rt: time.AfterFunc(d, f)}
	}
	t := &Timer{f: f}
	t.arm(s, d)
	return t
}

// Stop is (*time.Timer).Stop.
func (t *Timer) Stop() bool {
	if t.rt != nil {
		return t.rt.Stop()
	}
	was := t.armed
	if was {
		t.h.Cancel()
		t.armed = false
	}
	return was
}

// Reset is (*time.Timer).Reset.
func (t *Timer) Reset(d time.Duration) bool {
	if t.rt != nil {
		return t.rt.Reset(d)
	}
	was := t.Stop()
	if s := sched.Cur(); s != nil {
		t.arm(s, d)
	}
	return was
}

// Ticker mirrors time.Ticker on the model clock.
type Ticker struct {
	C       <-chan time.Time
	ch      chan time.Time
	d       time.Duration
	h       interface{ Cancel() }
	stopped bool
	rt      *time.Ticker
}

func (t *Ticker) arm(s *sched.Sched) {
	at := s.Now().Add(t.d)
	t.h = s.AddTimer(at, fmt.Sprintf("Ticker(%v)", t.d), func() {
		if t.stopped {
			return
		}
		s.DeliverTimer(t.ch, at) // a tick is dropped when the previous one was not taken
		t.arm(s)
	})
}

// NewTicker is time.NewTicker.
func NewTicker(d time.Duration) *Ticker {
	if d <= 0 {
		panic("non-positive interval for NewTicker")
	}
	s := sched.Cur()
	if s == nil {
		rt := time.NewTicker(d)
		return &Ticker{C: rt.C, rt: rt}
	}
	ch := make(chan time.Time, 1)
	t := &Ticker{C: ch, ch: ch, d: d}
	t.arm(s)
	return t
}

// Tick is time.Tick.
func Tick(d time.Duration) <-chan time.Time {
	if d <= 0 {
		return nil
	}
	return NewTicker(d).C
}

// Stop is (*time.Ticker).Stop.
func (t *Ticker) Stop() {
	if t.rt != nil {
		t.rt.Stop()
		return
	}
	t.stopped = true
	if t.h != nil {
		t.h.Cancel()
	}
}

// Reset is (*time.Ticker).Reset.
func (t *Ticker) Reset(d time.Duration) {
	if t.rt != nil {
		t.rt.Reset(d)
		return
	}
	if t.h != nil {
		t.h.Cancel()
	}
	t.d, t.stopped = d, false
	if s := sched.Cur(); s != nil {
		t.arm(s)
	}
}
