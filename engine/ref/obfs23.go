//go:build verif

package ref

import (
	"bytes"
	"crypto/aes"
	"crypto/cipher"
	"crypto/hmac"
	"crypto/sha256"
	"encoding/binary"
	"errors"
	"fmt"
	"io"
	"math/big"
	"net"
)

// ---- UniformDH (obfs3 / ScrambleSuit), math/big reference -----------------------------

// DHP is the RFC 3526 1536-bit MODP group 5 prime.
var DHP = func() *big.Int {
	p, ok := new(big.Int).SetString(
		"FFFFFFFFFFFFFFFFC90FDAA22168C234C4C6628B80DC1CD1"+
			"29024E088A67CC74020BBEA63B139B22514A08798E3404DD"+
			"EF9519B3CD3A431B302B0A6DF25F14374FE1356D6D51C245"+
			"E485B576625E7EC6F44C42E9A637ED6B0BFF5CB6F406B7ED"+
			"EE386BFB5A899FA5AE9F24117C4B1FE649286651ECE45B3D"+
			"C2007CB8A163BF0598DA48361C55D39A69163FA8FD24CF5F"+
			"83655D23DCA3AD961C62F356208552BB9ED529077096966D"+
			"670C354E4ABC9804F1746C08CA237327FFFFFFFFFFFFFFFF", 16)
	if !ok {
		panic("ref: DH prime")
	}
	// structural self-check of the constant: 1536 bits, top and bottom 64
	// bits all ones, a safe prime
	q := new(big.Int).Rsh(p, 1)
	if p.BitLen() != 1536 || !p.ProbablyPrime(8) || !q.ProbablyPrime(8) ||
		new(big.Int).Rsh(p, 1536-64).Cmp(new(big.Int).SetUint64(^uint64(0))) != 0 ||
		new(big.Int).And(p, new(big.Int).SetUint64(^uint64(0))).Cmp(new(big.Int).SetUint64(^uint64(0))) != 0 {
		panic("ref: DH prime self-check failed")
	}
	return p
}()

// DHKey is a reference UniformDH key.
type DHKey struct {
	X      *big.Int // even exponent
	Pub    *big.Int // g^X
	Wire   []byte   // 192 bytes: Pub or p-Pub
	UseAlt bool
}

// NewDHKey derives a key from 192 private bytes exactly as the
// specification says: clear the low bit; send X if it was even, p-X otherwise.
func NewDHKey(priv []byte) *DHKey {
	x := new(big.Int).SetBytes(priv)
	odd := x.Bit(0) == 1
	x.SetBit(x, 0, 0)
	pub := new(big.Int).Exp(big.NewInt(2), x, DHP)
	w := pub
	if odd {
		w = new(big.Int).Sub(DHP, pub)
	}
	wire := make([]byte, 192)
	w.FillBytes(wire)
	return &DHKey{X: x, Pub: pub, Wire: wire, UseAlt: odd}
}

// Shared computes the 192-byte shared secret with the peer's wire value.
func (k *DHKey) Shared(peerWire []byte) []byte {
	y := new(big.Int).SetBytes(peerWire)
	s := new(big.Int).Exp(y, k.X, DHP)
	out := make([]byte, 192)
	s.FillBytes(out)
	return out
}

// ---- obfs2 ---------------------------------------------------------------------------------

func obfs2Mac(s string, x []byte) []byte {
	h := sha256.New()
	h.Write([]byte(s))
	h.Write(x)
	h.Write([]byte(s))
	return h.Sum(nil)
}

func ctr(keyiv []byte) cipher.Stream {
	b, err := aes.NewCipher(keyiv[:16])
	if err != nil {
		panic(err)
	}
	return cipher.NewCTR(b, keyiv[16:32])
}

// Obfs2Opts tune the reference obfs2 peer.
type Obfs2Opts struct {
	Initiator bool
	Seed      []byte // 16 bytes
	PadLen    uint32 // declared and sent
	Magic     uint32 // 0 => the correct 0x2BF5CA7E
	// HdrXor is XORed onto the 8 encrypted header bytes on the wire (bit corruption)
	HdrXor []byte
	// SendPad overrides the number of padding bytes actually sent (default PadLen)
	SendPad int
	// Data is sent in the same write as the handshake message (the
	// reference first reads the peer's seed to be able to do so)
	Data []byte
	Pad  []byte // padding bytes to use (random otherwise; length >= SendPad)
}

// Obfs2Session is an established reference endpoint.
type Obfs2Session struct {
	Conn     net.Conn
	Tx, Rx   cipher.Stream
	PeerPad  uint32
	PeerSeed []byte
	Got      []byte
}

// Obfs2Handshake runs the reference peer's handshake.
func Obfs2Handshake(conn net.Conn, o Obfs2Opts, r io.Reader) (*Obfs2Session, error) {
	my, peer := "Initiator", "Responder"
	if !o.Initiator {
		my, peer = peer, my
	}
	// the other side writes first without waiting: read its seed
	peerSeed := make([]byte, 16)
	if _, err := io.ReadFull(conn, peerSeed); err != nil {
		return nil, fmt.Errorf("ref obfs2: reading peer seed: %w", err)
	}
	magic := o.Magic
	if magic == 0 {
		magic = 0x2BF5CA7E
	}
	hdr := make([]byte, 8)
	binary.BigEndian.PutUint32(hdr[0:], magic)
	binary.BigEndian.PutUint32(hdr[4:], o.PadLen)
	sendPad := int(o.PadLen)
	if o.SendPad != 0 {
		sendPad = o.SendPad
	}
	if sendPad < 0 {
		sendPad = 0
	}
	pad := o.Pad
	if pad == nil {
		pad = make([]byte, sendPad)
		io.ReadFull(r, pad)
	}
	padStream := ctr(obfs2Mac(my+" obfuscation padding", o.Seed))
	plain := append(append([]byte{}, hdr...), pad[:sendPad]...)
	enc := make([]byte, len(plain))
	padStream.XORKeyStream(enc, plain)
	for i, b := range o.HdrXor {
		enc[i] ^= b
	}
	comb := append(append([]byte{}, o.Seed...), peerSeed...)
	if !o.Initiator {
		comb = append(append([]byte{}, peerSeed...), o.Seed...)
	}
	initS := ctr(obfs2Mac("Initiator obfuscated data", comb))
	respS := ctr(obfs2Mac("Responder obfuscated data", comb))
	s := &Obfs2Session{Conn: conn, PeerSeed: peerSeed}
	if o.Initiator {
		s.Tx, s.Rx = initS, respS
	} else {
		s.Tx, s.Rx = respS, initS
	}
	out := append(append([]byte{}, o.Seed...), enc...)
	if o.Data != nil {
		d := make([]byte, len(o.Data))
		s.Tx.XORKeyStream(d, o.Data)
		out = append(out, d...)
	}
	if _, err := conn.Write(out); err != nil {
		return nil, err
	}
	// the peer's header
	peerPad := ctr(obfs2Mac(peer+" obfuscation padding", peerSeed))
	ph := make([]byte, 8)
	if _, err := io.ReadFull(conn, ph); err != nil {
		return nil, fmt.Errorf("ref obfs2: reading peer header: %w", err)
	}
	peerPad.XORKeyStream(ph, ph)
	if m := binary.BigEndian.Uint32(ph); m != 0x2BF5CA7E {
		return nil, fmt.Errorf("ref obfs2: peer magic %#x", m)
	}
	s.PeerPad = binary.BigEndian.Uint32(ph[4:])
	if s.PeerPad > 8192 {
		return nil, fmt.Errorf("ref obfs2: peer padlen %d > 8192", s.PeerPad)
	}
	if _, err := io.ReadFull(conn, make([]byte, s.PeerPad)); err != nil {
		return nil, fmt.Errorf("ref obfs2: reading %d peer padding bytes: %w", s.PeerPad, err)
	}
	return s, nil
}

// Send encrypts and writes data.
func (s *Obfs2Session) Send(p []byte) error {
	d := make([]byte, len(p))
	s.Tx.XORKeyStream(d, p)
	_, err := s.Conn.Write(d)
	return err
}

// RecvOnce reads once and decrypts.
func (s *Obfs2Session) RecvOnce() (int, error) {
	tmp := make([]byte, 65536)
	n, err := s.Conn.Read(tmp)
	d := make([]byte, n)
	s.Rx.XORKeyStream(d, tmp[:n])
	s.Got = append(s.Got, d...)
	return n, err
}

// ---- obfs3 ---------------------------------------------------------------------------------

// Obfs3Opts tune the reference obfs3 peer.
type Obfs3Opts struct {
	Initiator bool
	Priv      []byte // 192 private bytes
	Pad1      int    // padding behind the public key (0..4097)
	Pad2      int    // padding in front of the magic (0..4097)
	// NoMagic: send Pad2 bytes but never the magic value
	NoMagic bool
	// Data sent in the same write as pad2|magic
	Data []byte
	// KeyWithPad2: pad2|magic|data go out in the same write as key|pad1
	// (not possible: the magic needs the shared secret; kept false)
}

// Obfs3Session is an established reference endpoint.
type Obfs3Session struct {
	Conn       net.Conn
	Tx, Rx     cipher.Stream
	Shared     []byte
	RxMagic    []byte
	rxBuf      []byte
	magicFound bool
	Got        []byte
	PeerPre    int // bytes in front of the peer's magic (pad1 + pad2)
}

func hm3(key []byte, s string) []byte {
	h := hmac.New(sha256.New, key)
	h.Write([]byte(s))
	return h.Sum(nil)
}

// Obfs3Handshake runs the reference peer's handshake up to and including
// sending its magic (and Data).
func Obfs3Handshake(conn net.Conn, o Obfs3Opts, r io.Reader) (*Obfs3Session, error) {
	k := NewDHKey(o.Priv)
	pad1 := make([]byte, o.Pad1)
	io.ReadFull(r, pad1)
	if _, err := conn.Write(append(append([]byte{}, k.Wire...), pad1...)); err != nil {
		return nil, err
	}
	peer := make([]byte, 192)
	if _, err := io.ReadFull(conn, peer); err != nil {
		return nil, fmt.Errorf("ref obfs3: reading peer key: %w", err)
	}
	shared := k.Shared(peer)
	initSecret := hm3(shared, "Initiator obfuscated data")
	respSecret := hm3(shared, "Responder obfuscated data")
	initMagic := hm3(shared, "Initiator magic")
	respMagic := hm3(shared, "Responder magic")
	s := &Obfs3Session{Conn: conn, Shared: shared}
	var txMagic []byte
	if o.Initiator {
		s.Tx, s.Rx = ctr(initSecret), ctr(respSecret)
		txMagic, s.RxMagic = initMagic, respMagic
	} else {
		s.Tx, s.Rx = ctr(respSecret), ctr(initSecret)
		txMagic, s.RxMagic = respMagic, initMagic
	}
	pad2 := make([]byte, o.Pad2)
	io.ReadFull(r, pad2)
	// padding must not contain the magic by accident (2^-256)
	out := pad2
	if !o.NoMagic {
		out = append(out, txMagic...)
	}
	if o.Data != nil {
		d := make([]byte, len(o.Data))
		s.Tx.XORKeyStream(d, o.Data)
		out = append(out, d...)
	}
	if len(out) > 0 {
		if _, err := conn.Write(out); err != nil {
			return nil, err
		}
	}
	return s, nil
}

// Send encrypts and writes data.
func (s *Obfs3Session) Send(p []byte) error {
	d := make([]byte, len(p))
	s.Tx.XORKeyStream(d, p)
	_, err := s.Conn.Write(d)
	return err
}

// ErrTooMuchPadding is the reference's verdict on an over-long pre-magic stream.
var ErrTooMuchPadding = errors.New("ref obfs3: no magic within 8194 bytes of padding")

// RecvOnce reads once; it scans for the peer's magic first.
func (s *Obfs3Session) RecvOnce() (int, error) {
	tmp := make([]byte, 65536)
	n, err := s.Conn.Read(tmp)
	p := tmp[:n]
	if !s.magicFound {
		s.rxBuf = append(s.rxBuf, p...)
		i := bytes.Index(s.rxBuf, s.RxMagic)
		if i < 0 {
			if len(s.rxBuf) > 8194+32 {
				return n, ErrTooMuchPadding
			}
			return n, err
		}
		if i > 8194 {
			return n, ErrTooMuchPadding
		}
		s.magicFound = true
		s.PeerPre = i
		p = s.rxBuf[i+32:]
		s.rxBuf = nil
	}
	d := make([]byte, len(p))
	s.Rx.XORKeyStream(d, p)
	s.Got = append(s.Got, d...)
	return n, err
}
