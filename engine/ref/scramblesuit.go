//go:build verif

package ref

import (
	"bytes"
	"crypto/aes"
	"crypto/cipher"
	"crypto/hmac"
	"crypto/sha256"
	"encoding/binary"
	"errors"
	"fmt"
	"io"
	"net"
	"strconv"
)

// ---- ScrambleSuit reference server -----------------------------------------------------
//
// UniformDH handshake:   X | P_C | M_C | MAC(X|P_C|M_C|E), HMAC-SHA256-128 keyed with k_B
//   response:            Y | P_S | M_S | MAC(Y|P_S|M_S|E), P_S 0..1308 bytes, total <= 1532
// ticket handshake:      T | P | M | MAC(T|P|M|E), keyed with the client->server HMAC key
//                        derived from the ticket's master key; no response
// master key k_t = SHA256(shared secret) (UniformDH) or the ticket's key;
// HKDF-Expand(SHA256, k_t, "") -> 144 bytes: c2s AES-256 key | c2s IV prefix(8) | s2c key |
// s2c IV prefix | c2s HMAC key(32) | s2c HMAC key(32); AES-CTR counter starts at 1.
// packet: HMAC-128(ciphertext) | E(total(2) | payload(2) | flags(1) | payload | padding)

// SSHalf is one direction's crypto state.
type SSHalf struct {
	S   cipher.Stream
	Mac []byte
}

func ssHalf(key, ivPrefix, macKey []byte) *SSHalf {
	b, err := aes.NewCipher(key)
	if err != nil {
		panic(err)
	}
	iv := append(append([]byte{}, ivPrefix...), 0, 0, 0, 0, 0, 0, 0, 1)
	return &SSHalf{S: cipher.NewCTR(b, iv), Mac: append([]byte{}, macKey...)}
}

// SSKeys derives both directions from a master key (client's view: Tx = c2s).
func SSKeys(master []byte) (c2s, s2c *SSHalf) {
	okm := hkdfExpand(master, nil, 144)
	return ssHalf(okm[0:32], okm[32:40], okm[80:112]), ssHalf(okm[40:72], okm[72:80], okm[112:144])
}

func hkdfExpand(prk, info []byte, n int) []byte {
	var out, t []byte
	for i := byte(1); len(out) < n; i++ {
		t = hm(prk, t, info, []byte{i})
		out = append(out, t...)
	}
	return out[:n]
}

// SS packet flags.
const (
	SSPayload   = 1
	SSNewTicket = 2
	SSPrngSeed  = 4
)

// SSPacket builds one packet.
func (h *SSHalf) SSPacket(flags byte, payload []byte, pad int) []byte {
	pkt := make([]byte, 5, 5+len(payload)+pad)
	binary.BigEndian.PutUint16(pkt[0:], uint16(len(payload)+pad))
	binary.BigEndian.PutUint16(pkt[2:], uint16(len(payload)))
	pkt[4] = flags
	pkt = append(pkt, payload...)
	pkt = append(pkt, make([]byte, pad)...)
	h.S.XORKeyStream(pkt, pkt)
	mac := hm(h.Mac, pkt)[:16]
	return append(mac, pkt...)
}

// SSPacketInfo is a decoded packet.
type SSPacketInfo struct {
	Flags   byte
	Payload []byte
	Pad     int
	Len     int
}

// SSOpener decodes a packet stream.
type SSOpener struct {
	H   *SSHalf
	hdr []byte
	buf []byte
	Err error
	Off int
}

// Feed appends ciphertext and returns completed packets.
func (o *SSOpener) Feed(p []byte) []SSPacketInfo {
	o.buf = append(o.buf, p...)
	var out []SSPacketInfo
	for o.Err == nil && len(o.buf) >= 21 {
		// peek at the header with a copy of the key stream position: decrypt
		// into a scratch copy only once the whole packet is there
		hdr := make([]byte, 5)
		// CTR streams cannot be rewound; keep a clone by re-deriving is not
		// possible, so decrypt the header once and remember it
		if o.hdr == nil {
			o.H.S.XORKeyStream(hdr, o.buf[16:21])
			o.hdr = hdr
		}
		total := int(binary.BigEndian.Uint16(o.hdr[0:]))
		plen := int(binary.BigEndian.Uint16(o.hdr[2:]))
		if plen > total || total > 1427 {
			o.Err = fmt.Errorf("ref scramblesuit: bad packet lengths total=%d payload=%d at stream offset %d", total, plen, o.Off)
			break
		}
		if len(o.buf) < 21+total {
			break
		}
		if !hmac.Equal(hm(o.H.Mac, o.buf[16:21+total])[:16], o.buf[:16]) {
			o.Err = fmt.Errorf("ref scramblesuit: packet MAC mismatch at stream offset %d", o.Off)
			break
		}
		body := make([]byte, total)
		o.H.S.XORKeyStream(body, o.buf[21:21+total])
		for _, b := range body[plen:] {
			if b != 0 {
				o.Err = fmt.Errorf("ref scramblesuit: non-zero padding at stream offset %d", o.Off)
			}
		}
		out = append(out, SSPacketInfo{Flags: o.hdr[4], Payload: body[:plen], Pad: total - plen, Len: 21 + total})
		o.buf = o.buf[21+total:]
		o.Off += 21 + total
		o.hdr = nil
	}
	return out
}

// SSServerOpts tune the reference server.
type SSServerOpts struct {
	KB     []byte // 20-byte shared secret
	Priv   []byte // 192 private bytes for UniformDH
	PadLen int    // P_S length (0..1308)
	Hour   int64  // the server clock's epoch hour
	// Issue: send a new-ticket packet (key|ticket = 144 bytes) after the handshake
	Issue []byte
	// Seed: send a PRNG seed packet (32 bytes)
	Seed []byte
	// Data is sent in the same write as the response (+ticket+seed packets)
	Data []byte
	// Separate: the post-handshake packets go out in a separate write
	Separate bool
	// Tickets maps issued 112-byte tickets to their 32-byte master keys
	Tickets map[string][]byte
	// IssuedAt / Now (unix seconds) for ticket expiry on the server side
	IssuedAt map[string]int64
	Now      int64
	// MutateResp may alter the response blob
	MutateResp func([]byte) []byte
	// MutatePackets may alter the post-handshake bytes
	MutatePackets func([]byte) []byte
}

// SSSession is an established reference server endpoint.
type SSSession struct {
	Conn      net.Conn
	Tx        *SSHalf
	Rx        *SSOpener
	Kind      string // "uniformdh" or "ticket"
	Ticket    string // the ticket presented
	Payload   []byte
	Packets   []SSPacketInfo
	PktEnds   []int64 // offsets (relative to the first byte written) at which things this side wrote end
	RespLen   int
	ClientPad int
}

// ErrSSHandshake is a failed client handshake.
var ErrSSHandshake = errors.New("ref scramblesuit: invalid client handshake")

// SSServe runs the reference server handshake on conn.
func SSServe(conn net.Conn, o SSServerOpts, r io.Reader) (*SSSession, error) {
	var buf []byte
	tmp := make([]byte, 4096)
	hours := []string{strconv.FormatInt(o.Hour, 10), strconv.FormatInt(o.Hour-1, 10), strconv.FormatInt(o.Hour+1, 10)}
	for {
		n, err := conn.Read(tmp)
		buf = append(buf, tmp[:n]...)
		// ticket handshake?
		if len(buf) >= 112 {
			if key, ok := o.Tickets[string(buf[:112])]; ok {
				c2s, s2c := SSKeys(key)
				mark := hm(c2s.Mac, buf[:112])[:16]
				if i := bytes.Index(buf[112:], mark); i >= 0 && len(buf) >= 112+i+32 {
					pos := 112 + i
					okMac := false
					for _, e := range hours {
						if hmac.Equal(hm(c2s.Mac, buf[:pos+16], []byte(e))[:16], buf[pos+16:pos+32]) {
							okMac = true
						}
					}
					if !okMac {
						return nil, fmt.Errorf("%w: ticket MAC", ErrSSHandshake)
					}
					s := &SSSession{Conn: conn, Tx: s2c, Rx: &SSOpener{H: c2s}, Kind: "ticket", Ticket: string(buf[:112]), ClientPad: i}
					s.feed(buf[pos+32:])
					return s, s.after(o, nil)
				}
			}
		}
		if len(buf) >= 224 {
			X := buf[:192]
			mark := hm(o.KB, X)[:16]
			end := len(buf)
			if end > 1532-16 {
				end = 1532 - 16
			}
			if i := bytes.Index(buf[192:end], mark); i >= 0 && len(buf) >= 192+i+32 {
				pos := 192 + i
				okMac := false
				var hour string
				for _, e := range hours {
					if hmac.Equal(hm(o.KB, buf[:pos+16], []byte(e))[:16], buf[pos+16:pos+32]) {
						okMac, hour = true, e
					}
				}
				if !okMac {
					return nil, fmt.Errorf("%w: UniformDH MAC", ErrSSHandshake)
				}
				k := NewDHKey(o.Priv)
				shared := k.Shared(X)
				master := sha256.Sum256(shared)
				c2s, s2c := SSKeys(master[:])
				pad := make([]byte, o.PadLen)
				io.ReadFull(r, pad)
				ms := hm(o.KB, k.Wire)[:16]
				resp := bytes.Join([][]byte{k.Wire, pad, ms}, nil)
				resp = append(resp, hm(o.KB, resp, []byte(hour))[:16]...)
				if o.MutateResp != nil {
					resp = o.MutateResp(resp)
				}
				s := &SSSession{Conn: conn, Tx: s2c, Rx: &SSOpener{H: c2s}, Kind: "uniformdh", RespLen: len(resp), ClientPad: i}
				s.feed(buf[pos+32:])
				return s, s.after(o, resp)
			} else if len(buf) >= 1532 {
				return nil, fmt.Errorf("%w: no mark", ErrSSHandshake)
			}
		}
		if err != nil {
			return nil, fmt.Errorf("ref scramblesuit: %w after %d handshake bytes", err, len(buf))
		}
	}
}

func (s *SSSession) after(o SSServerOpts, resp []byte) error {
	var pk []byte
	mark := func(b []byte) { s.PktEnds = append(s.PktEnds, int64(len(resp)+len(b))) }
	if resp != nil {
		s.PktEnds = append(s.PktEnds, int64(len(resp)))
	}
	if o.Issue != nil {
		pk = append(pk, s.Tx.SSPacket(SSNewTicket, o.Issue, 0)...)
		mark(pk)
	}
	if o.Seed != nil {
		pk = append(pk, s.Tx.SSPacket(SSPrngSeed, o.Seed, 0)...)
		mark(pk)
	}
	if o.Data != nil {
		pk = append(pk, s.Tx.SSPacket(SSPayload, o.Data, 7)...)
		mark(pk)
	}
	if o.MutatePackets != nil {
		pk = o.MutatePackets(pk)
	}
	if o.Separate {
		if resp != nil {
			if _, err := s.Conn.Write(resp); err != nil {
				return err
			}
		}
		if len(pk) > 0 {
			_, err := s.Conn.Write(pk)
			return err
		}
		return nil
	}
	out := append(append([]byte{}, resp...), pk...)
	if len(out) == 0 {
		return nil
	}
	_, err := s.Conn.Write(out)
	return err
}

func (s *SSSession) feed(p []byte) {
	for _, pk := range s.Rx.Feed(p) {
		s.Packets = append(s.Packets, pk)
		if pk.Flags == SSPayload {
			s.Payload = append(s.Payload, pk.Payload...)
		}
	}
}

// Send writes payload packets (<= 1427 bytes each) in one write.
func (s *SSSession) Send(data []byte, pad int) error {
	var out []byte
	for first := true; first || len(data) > 0; first = false {
		n := len(data)
		if n > 1427 {
			n = 1427
		}
		p := 0
		if n == len(data) {
			p = pad
			if n+p > 1427 {
				p = 1427 - n
			}
		}
		out = append(out, s.Tx.SSPacket(SSPayload, data[:n], p)...)
		data = data[n:]
	}
	_, err := s.Conn.Write(out)
	return err
}

// Build returns the packets for data without sending them.
func (s *SSSession) Build(data []byte, pad int) []byte {
	return s.Tx.SSPacket(SSPayload, data, pad)
}

// RecvOnce reads once and decodes.
func (s *SSSession) RecvOnce() (int, error) {
	tmp := make([]byte, 65536)
	n, err := s.Conn.Read(tmp)
	s.feed(tmp[:n])
	if s.Rx.Err != nil {
		return n, s.Rx.Err
	}
	return n, err
}

// RecvUntil reads until want payload bytes arrived.
func (s *SSSession) RecvUntil(want int) error {
	for len(s.Payload) < want {
		if _, err := s.RecvOnce(); err != nil {
			return err
		}
	}
	return nil
}
