//go:build verif

package ref

import (
	"math/big"
)

// ---- Elligator 2, Montgomery flavour, in math/big --------------------------------

// RepresentativeToU is the forward map for an arbitrary 32-byte string: the
// two top bits are ignored, r = the low 254 bits, w = -A/(1+2r^2),
// u = w if w^3+Aw^2+w is a square, else -w-A.
func RepresentativeToU(repr []byte) *big.Int {
	c := append([]byte{}, repr...)
	c[31] &= 0x3f
	r := LE(c)
	den := fadd(big.NewInt(1), fmul(big.NewInt(2), fmul(r, r)))
	w := fmul(fneg(bigA), finv(den))
	f := fadd(fadd(fmul(fmul(w, w), w), fmul(bigA, fmul(w, w))), w)
	if legendre(f) >= 0 {
		// e = 1 (f == 0 cannot happen for Curve25519 except w == 0, which
		// needs A == 0)
		return w
	}
	return fsub(fneg(w), bigA)
}

// HasRepresentative reports whether u is in the image of the map:
// -2u(u+A) must be a non-zero square.
func HasRepresentative(u *big.Int) bool {
	t := fmul(big.NewInt(-2), fmul(u, fadd(u, bigA)))
	return t.Sign() != 0 && legendre(t) == 1
}

// Preimages returns the canonical (<= (p-1)/2) representatives of u: the
// square roots of -u/(2(u+A)) and of -(u+A)/(2u).
func Preimages(u *big.Int) []*big.Int {
	if !HasRepresentative(u) {
		return nil
	}
	half := new(big.Int).Rsh(new(big.Int).Sub(P, big.NewInt(1)), 1)
	canon := func(r *big.Int) *big.Int {
		if r.Cmp(half) > 0 {
			return fneg(r)
		}
		return r
	}
	ua := fadd(u, bigA)
	r1 := fsqrt(fmul(fneg(u), finv(fmul(big.NewInt(2), ua))))
	r2 := fsqrt(fmul(fneg(ua), finv(fmul(big.NewInt(2), u))))
	return []*big.Int{canon(r1), canon(r2)}
}

// ---- Montgomery ladder without clamping ------------------------------------------

// Ladder computes the u-coordinate of k*(u,.) on Curve25519 for an arbitrary
// non-negative scalar k (no clamping); the point at infinity is returned as 0,
// as X25519 does.
func Ladder(k *big.Int, u *big.Int) *big.Int {
	a24 := big.NewInt(121665)
	x1 := new(big.Int).Mod(u, P)
	x2, z2 := big.NewInt(1), big.NewInt(0)
	x3, z3 := new(big.Int).Set(x1), big.NewInt(1)
	for t := k.BitLen() - 1; t >= 0; t-- {
		bit := k.Bit(t)
		if bit == 1 {
			x2, x3 = x3, x2
			z2, z3 = z3, z2
		}
		A := fadd(x2, z2)
		AA := fmul(A, A)
		B := fsub(x2, z2)
		BB := fmul(B, B)
		E := fsub(AA, BB)
		C := fadd(x3, z3)
		D := fsub(x3, z3)
		DA := fmul(D, A)
		CB := fmul(C, B)
		s := fadd(DA, CB)
		x3 = fmul(s, s)
		d := fsub(DA, CB)
		z3 = fmul(x1, fmul(d, d))
		x2 = fmul(AA, BB)
		z2 = fmul(E, fadd(AA, fmul(a24, E)))
		if bit == 1 {
			x2, x3 = x3, x2
			z2, z3 = z3, z2
		}
	}
	if z2.Sign() == 0 {
		return big.NewInt(0)
	}
	return fmul(x2, finv(z2))
}

// L is the order of the prime-order subgroup.
var L, _ = new(big.Int).SetString("7237005577332262213973186563042994240857116359379907606001950938285454250989", 10)

// ---- twisted Edwards arithmetic (affine, math/big) -------------------------------

// EdPoint is an affine point on -x^2 + y^2 = 1 + d x^2 y^2.
type EdPoint struct{ X, Y *big.Int }

var edD = fmul(big.NewInt(-121665), finv(big.NewInt(121666)))

// EdIdentity is the neutral element.
func EdIdentity() EdPoint { return EdPoint{big.NewInt(0), big.NewInt(1)} }

// EdAdd is the complete addition law.
func EdAdd(p, q EdPoint) EdPoint {
	x1y2 := fmul(p.X, q.Y)
	y1x2 := fmul(p.Y, q.X)
	y1y2 := fmul(p.Y, q.Y)
	x1x2 := fmul(p.X, q.X)
	dxy := fmul(edD, fmul(x1x2, y1y2))
	x := fmul(fadd(x1y2, y1x2), finv(fadd(big.NewInt(1), dxy)))
	y := fmul(fadd(y1y2, x1x2), finv(fsub(big.NewInt(1), dxy)))
	return EdPoint{x, y}
}

// EdMul is double-and-add.
func EdMul(k *big.Int, p EdPoint) EdPoint {
	r := EdIdentity()
	for t := k.BitLen() - 1; t >= 0; t-- {
		r = EdAdd(r, r)
		if k.Bit(t) == 1 {
			r = EdAdd(r, p)
		}
	}
	return r
}

// EdEqual compares points.
func EdEqual(p, q EdPoint) bool { return p.X.Cmp(q.X) == 0 && p.Y.Cmp(q.Y) == 0 }

// edFromY solves for x (either root) or returns false.
func edFromY(y *big.Int) (EdPoint, bool) {
	yy := fmul(y, y)
	num := fsub(yy, big.NewInt(1))
	den := fadd(fmul(edD, yy), big.NewInt(1))
	xx := fmul(num, finv(den))
	if xx.Sign() != 0 && legendre(xx) != 1 {
		return EdPoint{}, false
	}
	return EdPoint{fsqrt(xx), new(big.Int).Set(y)}, true
}

// EdBase is the standard base point (y = 4/5, x even).
var EdBase = func() EdPoint {
	y := fmul(big.NewInt(4), finv(big.NewInt(5)))
	p, ok := edFromY(y)
	if !ok {
		panic("ref: base point")
	}
	if p.X.Bit(0) == 1 {
		p.X = fneg(p.X)
	}
	return p
}()

// EdTorsion8 is a generator of the 8-torsion subgroup, derived (not copied):
// l*Q for the first curve point Q whose multiple has order exactly 8.
var EdTorsion8 = func() EdPoint {
	for y := int64(2); ; y++ {
		q, ok := edFromY(big.NewInt(y))
		if !ok {
			continue
		}
		t := EdMul(L, q)
		if !EdEqual(EdMul(big.NewInt(4), t), EdIdentity()) {
			if !EdEqual(EdMul(big.NewInt(8), t), EdIdentity()) {
				panic("ref: torsion point has order > 8")
			}
			return t
		}
	}
}()

// EdToU maps an Edwards point to the Montgomery u-coordinate (1+y)/(1-y)
// (the identity maps to 0 by the inversion-of-zero convention).
func EdToU(p EdPoint) *big.Int {
	den := fsub(big.NewInt(1), p.Y)
	if den.Sign() == 0 {
		return big.NewInt(0)
	}
	return fmul(fadd(big.NewInt(1), p.Y), finv(den))
}

// ClampScalar applies X25519 clamping to a 32-byte private key.
func ClampScalar(priv []byte) *big.Int {
	c := append([]byte{}, priv...)
	c[0] &= 248
	c[31] &= 127
	c[31] |= 64
	return LE(c)
}

// DirtyCandidates returns the u-coordinates of clamp(priv)*B + j*T for the
// eight torsion points j*T: the eight cosets of the prime-order subgroup a
// "dirty" public key of this private key can fall into.
func DirtyCandidates(priv []byte) []*big.Int {
	clean := EdMul(ClampScalar(priv), EdBase)
	out := make([]*big.Int, 8)
	t := EdIdentity()
	for j := 0; j < 8; j++ {
		out[j] = EdToU(EdAdd(clean, t))
		t = EdAdd(t, EdTorsion8)
	}
	return out
}

// LowOrderU lists the u-coordinates of the low-order points of Curve25519 and
// its twist as used in attacks on X25519 (0, 1, the two order-8 values, p-1,
// p, p+1 -- the latter two as non-canonical encodings).
func LowOrderU() []*big.Int {
	o8a, _ := new(big.Int).SetString("325606250916557431795983626356110631294008115727848805560023387167927233504", 10)
	o8b, _ := new(big.Int).SetString("39382357235489614581723060781553021112529911719440698176882885853963445705823", 10)
	return []*big.Int{big.NewInt(0), big.NewInt(1), o8a, o8b,
		new(big.Int).Sub(P, big.NewInt(1)), new(big.Int).Set(P), new(big.Int).Add(P, big.NewInt(1))}
}
