//go:build verif

package ref

import (
	"bytes"
	"crypto/hmac"
	"encoding/binary"
	"errors"
	"fmt"
	"io"
	"strconv"

	"golang.org/x/crypto/curve25519"
	"golang.org/x/crypto/nacl/secretbox"
)

// ---- keys ------------------------------------------------------------------------

// Identity is a bridge identity.
type Identity struct {
	NodeID [20]byte
	Priv   [32]byte
	Pub    [32]byte
}

// NewIdentity derives an identity from 52 bytes of r.
func NewIdentity(r io.Reader) *Identity {
	id := &Identity{}
	io.ReadFull(r, id.NodeID[:])
	io.ReadFull(r, id.Priv[:])
	pub, err := curve25519.X25519(id.Priv[:], curve25519.Basepoint)
	if err != nil {
		panic(err)
	}
	copy(id.Pub[:], pub)
	return id
}

// NewIdentityFromPriv returns the X25519 public key of a private key.
func NewIdentityFromPriv(priv []byte) []byte {
	pub, err := curve25519.X25519(priv, curve25519.Basepoint)
	if err != nil {
		panic(err)
	}
	return pub
}

// Ephemeral is a session key pair with an Elligator 2 representative.  The
// reference uses clean (prime-order subgroup) public keys: legal on the wire,
// the peer only ever sees the representative.
type Ephemeral struct {
	Priv [32]byte
	Pub  [32]byte
	Repr [32]byte
}

// NewEphemeral draws keys from r until the public key is representable.
func NewEphemeral(r io.Reader) *Ephemeral {
	for {
		e := &Ephemeral{}
		io.ReadFull(r, e.Priv[:])
		pub, err := curve25519.X25519(e.Priv[:], curve25519.Basepoint)
		if err != nil {
			continue
		}
		copy(e.Pub[:], pub)
		u := LE(pub)
		pre := Preimages(u)
		if pre == nil {
			continue
		}
		var coin [1]byte
		io.ReadFull(r, coin[:])
		rep := ToLE(pre[int(coin[0])&1])
		rep[31] |= coin[0] & 0xc0
		copy(e.Repr[:], rep)
		// self-check through the forward map
		if RepresentativeToU(e.Repr[:]).Cmp(u) != 0 {
			panic("ref: Elligator inverse/forward mismatch")
		}
		return e
	}
}

// ReprToPub decodes a representative to the 32-byte public key.
func ReprToPub(repr []byte) []byte { return ToLE(RepresentativeToU(repr)) }

// DH is X25519 returning all-zero for low-order inputs (as the deprecated
// ScalarMult did) and whether the result is non-zero.
func DH(priv, pub []byte) ([]byte, bool) {
	out, err := curve25519.X25519(priv, pub)
	if err != nil {
		return make([]byte, 32), false
	}
	return out, true
}

// ---- ntor (the deployed variant) ----------------------------------------------------

var (
	protoID = []byte("ntor-curve25519-sha256-1")
	tMac    = []byte("ntor-curve25519-sha256-1:mac")
	tKey    = []byte("ntor-curve25519-sha256-1:key_extract")
	tVerify = []byte("ntor-curve25519-sha256-1:key_verify")
	mExpand = []byte("ntor-curve25519-sha256-1:key_expand")
)

// Ntor computes KEY_SEED and AUTH from the two exponentiations and the
// transcript.  secret_input = EXP1 | EXP2 | B | B | X | Y | PROTOID | ID (the
// deployed code writes B twice), auth_input = verify | B | B | X | Y | PROTOID |
// ID | "Server".
func Ntor(exp1, exp2, B, X, Y, id []byte) (keySeed, auth []byte) {
	suffix := bytes.Join([][]byte{B, B, X, Y, protoID, id}, nil)
	secretInput := bytes.Join([][]byte{exp1, exp2, suffix}, nil)
	keySeed = hm(tKey, secretInput)
	verify := hm(tVerify, secretInput)
	auth = hm(tMac, verify, suffix, []byte("Server"))
	return
}

// NtorClient: EXP(Y,x) | EXP(B,x).
func NtorClient(xPriv, X, Y, B, id []byte) (ok bool, keySeed, auth []byte) {
	e1, ok1 := DH(xPriv, Y)
	e2, ok2 := DH(xPriv, B)
	keySeed, auth = Ntor(e1, e2, B, X, Y, id)
	return ok1 && ok2, keySeed, auth
}

// NtorServer: EXP(X,y) | EXP(X,b).
func NtorServer(X, yPriv, Y, bPriv, B, id []byte) (ok bool, keySeed, auth []byte) {
	e1, ok1 := DH(yPriv, X)
	e2, ok2 := DH(bPriv, X)
	keySeed, auth = Ntor(e1, e2, B, X, Y, id)
	return ok1 && ok2, keySeed, auth
}

// Kdf is HKDF-SHA256(salt = t_key, ikm = KEY_SEED, info = m_expand).
func Kdf(keySeed []byte, n int) []byte { return HKDF(keySeed, tKey, mExpand, n) }

// ---- obfs4 handshake ------------------------------------------------------------------

const (
	MaxHandshake  = 8192
	MarkLen       = 16
	MacLen        = 16
	ClientMinHS   = 32 + MarkLen + MacLen                       // 64
	ServerMinHS   = 32 + 32 + MarkLen + MacLen                  // 96
	SeedFrameLen  = 2 + 16 + 3 + 24                             // 45
	ClientMinPad  = ServerMinHS + SeedFrameLen - ClientMinHS    // 77
	ClientMaxPad  = MaxHandshake - ClientMinHS                  // 8128
	ServerMaxPad  = MaxHandshake - (ServerMinHS + SeedFrameLen) // 8051
	MaxSegment    = 1448
	FrameOverhead = 2 + 16
	MaxFramePay   = MaxSegment - FrameOverhead // 1430
	MaxPktPayload = MaxFramePay - 3            // 1427
	PktPayload    = 0
	PktSeed       = 1
)

func macKey(B, id []byte) []byte { return append(append([]byte{}, B...), id...) }

// Mark is HMAC-SHA256-128(B | NODEID, repr).
func Mark(B, id, repr []byte) []byte { return hm(macKey(B, id), repr)[:MarkLen] }

// HSMac is HMAC-SHA256-128(B | NODEID, data | decimal hour).
func HSMac(B, id, data []byte, hour int64) []byte {
	return hm(macKey(B, id), data, []byte(strconv.FormatInt(hour, 10)))[:MacLen]
}

// ClientHello builds X' | P_C | M_C | MAC_C.
func ClientHello(B, id, repr, pad []byte, hour int64) []byte {
	msg := bytes.Join([][]byte{repr, pad, Mark(B, id, repr)}, nil)
	return append(msg, HSMac(B, id, msg, hour)...)
}

// ServerHello builds Y' | AUTH | P_S | M_S | MAC_S.
func ServerHello(B, id, repr, auth, pad []byte, hour int64) []byte {
	msg := bytes.Join([][]byte{repr, auth, pad, Mark(B, id, repr)}, nil)
	return append(msg, HSMac(B, id, msg, hour)...)
}

// ErrNeedMore means the mark has not arrived yet.
var ErrNeedMore = errors.New("ref: need more data")

// ParseClientHello is the server side parser.  hours lists the acceptable
// epoch hours; it returns the matching hour.
func ParseClientHello(B, id, buf []byte, hours []int64) (repr []byte, hour int64, err error) {
	if len(buf) < ClientMinHS {
		return nil, 0, ErrNeedMore
	}
	repr = buf[:32]
	mark := Mark(B, id, repr)
	end := len(buf)
	if end > MaxHandshake {
		end = MaxHandshake
	}
	// the client sends nothing after MAC_C: the mark sits at the tail
	pos := end - (MarkLen + MacLen)
	if pos < 32+ClientMinPad || !bytes.Equal(buf[pos:pos+MarkLen], mark) {
		if len(buf) >= MaxHandshake {
			return nil, 0, errors.New("ref: no mark within the maximum handshake length")
		}
		return nil, 0, ErrNeedMore
	}
	if len(buf) != pos+MarkLen+MacLen {
		return nil, 0, errors.New("ref: trailing data")
	}
	for _, h := range hours {
		if hmac.Equal(HSMac(B, id, buf[:pos+MarkLen], h), buf[pos+MarkLen:pos+MarkLen+MacLen]) {
			return repr, h, nil
		}
	}
	return nil, 0, errors.New("ref: MAC_C mismatch")
}

// ParseServerHello is the client side parser; it returns the number of bytes
// consumed.
func ParseServerHello(B, id, buf []byte, hour int64) (n int, repr, auth []byte, err error) {
	if len(buf) < ServerMinHS {
		return 0, nil, nil, ErrNeedMore
	}
	repr, auth = buf[:32], buf[32:64]
	mark := Mark(B, id, repr)
	end := len(buf)
	if end > MaxHandshake {
		end = MaxHandshake
	}
	pos := bytes.Index(buf[64:end], mark)
	if pos < 0 || 64+pos+MarkLen+MacLen > end {
		if len(buf) >= MaxHandshake {
			return 0, nil, nil, errors.New("ref: no mark within the maximum handshake length")
		}
		return 0, nil, nil, ErrNeedMore
	}
	pos += 64
	if !hmac.Equal(HSMac(B, id, buf[:pos+MarkLen], hour), buf[pos+MarkLen:pos+MarkLen+MacLen]) {
		return 0, nil, nil, errors.New("ref: MAC_S mismatch")
	}
	return pos + MarkLen + MacLen, repr, auth, nil
}

// ---- framing ---------------------------------------------------------------------------

// LinkKey is one direction's 72-byte key block: key 32 | nonce prefix 16 |
// SipHash key 16 | OFB IV 8.
type LinkKey struct {
	Key    [32]byte
	Prefix [16]byte
	Drbg   *Drbg
	Ctr    uint64
}

// NewLinkKey parses a 72-byte block; the counter starts at 1.
func NewLinkKey(b []byte) *LinkKey {
	if len(b) != 72 {
		panic("ref: link key length")
	}
	k := &LinkKey{Ctr: 1}
	copy(k.Key[:], b[:32])
	copy(k.Prefix[:], b[32:48])
	k.Drbg = NewDrbg(b[48:72])
	return k
}

func (k *LinkKey) nonce() *[24]byte {
	var n [24]byte
	copy(n[:], k.Prefix[:])
	binary.BigEndian.PutUint64(n[16:], k.Ctr)
	return &n
}

// Seal builds one frame around payload (<= 1430 bytes).
func (k *LinkKey) Seal(payload []byte) []byte {
	if len(payload) > MaxFramePay {
		panic("ref: frame payload too long")
	}
	return k.SealAny(payload)
}

// SealAny seals a frame of any payload length the 16-bit length field can
// carry -- what a peer that holds the session keys but does not respect the
// format's maximum frame length can put on the wire.
func (k *LinkKey) SealAny(payload []byte) []byte {
	if len(payload)+16 > 0xffff {
		panic("ref: frame payload does not fit the length field")
	}
	box := secretbox.Seal(nil, payload, k.nonce(), &k.Key)
	k.Ctr++
	mask := binary.BigEndian.Uint16(k.Drbg.NextBlock())
	out := make([]byte, 2, 2+len(box))
	binary.BigEndian.PutUint16(out, uint16(len(box))^mask)
	return append(out, box...)
}

// FrameInfo describes one decoded frame.
type FrameInfo struct {
	Off     int // offset of the frame in the stream handed to OpenAll
	Len     int // total length on the wire
	Payload []byte
}

// Opener decodes a frame stream incrementally.
type Opener struct {
	K       *LinkKey
	buf     []byte
	off     int
	nextLen int
	Err     error
}

// Feed appends stream bytes and returns the frames completed by them.
func (o *Opener) Feed(p []byte) []FrameInfo {
	o.buf = append(o.buf, p...)
	var out []FrameInfo
	for o.Err == nil {
		if o.nextLen == 0 {
			if len(o.buf) < 2 {
				break
			}
			mask := binary.BigEndian.Uint16(o.K.Drbg.NextBlock())
			l := int(binary.BigEndian.Uint16(o.buf[:2]) ^ mask)
			if l < 16 || l > MaxSegment-2 {
				o.Err = fmt.Errorf("ref: frame length %d out of range at stream offset %d", l, o.off)
				break
			}
			o.nextLen = l
		}
		if len(o.buf) < 2+o.nextLen {
			break
		}
		pt, ok := secretbox.Open(nil, o.buf[2:2+o.nextLen], o.K.nonce(), &o.K.Key)
		if !ok {
			o.Err = fmt.Errorf("ref: frame at stream offset %d does not authenticate (counter %d)", o.off, o.K.Ctr)
			break
		}
		o.K.Ctr++
		out = append(out, FrameInfo{Off: o.off, Len: 2 + o.nextLen, Payload: pt})
		o.buf = o.buf[2+o.nextLen:]
		o.off += 2 + o.nextLen
		o.nextLen = 0
	}
	return out
}

// Pending returns the number of undecoded buffered bytes.
func (o *Opener) Pending() int { return len(o.buf) }

// ---- packets ---------------------------------------------------------------------------

// Packet builds type | BE16(len) | payload | zero padding.
func Packet(typ byte, payload []byte, pad int) []byte {
	out := make([]byte, 3+len(payload)+pad)
	out[0] = typ
	binary.BigEndian.PutUint16(out[1:], uint16(len(payload)))
	copy(out[3:], payload)
	return out
}

// PacketInfo is a parsed packet.
type PacketInfo struct {
	Type    byte
	Payload []byte
	Pad     int
}

// ParsePacket parses a frame payload; padding must be all zero.
func ParsePacket(p []byte) (PacketInfo, error) {
	if len(p) < 3 {
		return PacketInfo{}, fmt.Errorf("ref: packet shorter than its header (%d)", len(p))
	}
	n := int(binary.BigEndian.Uint16(p[1:3]))
	if n > len(p)-3 {
		return PacketInfo{}, fmt.Errorf("ref: packet payload length %d exceeds frame (%d)", n, len(p)-3)
	}
	for _, b := range p[3+n:] {
		if b != 0 {
			return PacketInfo{}, fmt.Errorf("ref: packet padding is not all zero")
		}
	}
	return PacketInfo{Type: p[0], Payload: p[3 : 3+n], Pad: len(p) - 3 - n}, nil
}
