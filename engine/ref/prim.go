//go:build verif

// Package ref holds the independent reference implementations used as
// oracles.  Nothing here imports a repository package: only the standard
// library and x/crypto primitives (X25519, NaCl secretbox) are used, all
// protocol logic is written from the deployed wire format.
package ref

import (
	"crypto/hmac"
	"crypto/sha256"
	"encoding/binary"
	"math/big"
	"math/rand"
)

// ---- SipHash-2-4 ---------------------------------------------------------------

func rotl(x uint64, b uint) uint64 { return (x << b) | (x >> (64 - b)) }

// SipHash24 computes SipHash-2-4 of msg under the 16-byte key.
func SipHash24(key []byte, msg []byte) uint64 {
	k0 := binary.LittleEndian.Uint64(key[0:8])
	k1 := binary.LittleEndian.Uint64(key[8:16])
	v0 := k0 ^ 0x736f6d6570736575
	v1 := k1 ^ 0x646f72616e646f6d
	v2 := k0 ^ 0x6c7967656e657261
	v3 := k1 ^ 0x7465646279746573
	round := func() {
		v0 += v1
		v1 = rotl(v1, 13)
		v1 ^= v0
		v0 = rotl(v0, 32)
		v2 += v3
		v3 = rotl(v3, 16)
		v3 ^= v2
		v0 += v3
		v3 = rotl(v3, 21)
		v3 ^= v0
		v2 += v1
		v1 = rotl(v1, 17)
		v1 ^= v2
		v2 = rotl(v2, 32)
	}
	n := len(msg)
	for len(msg) >= 8 {
		m := binary.LittleEndian.Uint64(msg)
		v3 ^= m
		round()
		round()
		v0 ^= m
		msg = msg[8:]
	}
	var last [8]byte
	copy(last[:], msg)
	last[7] = byte(n)
	m := binary.LittleEndian.Uint64(last[:])
	v3 ^= m
	round()
	round()
	v0 ^= m
	v2 ^= 0xff
	round()
	round()
	round()
	round()
	return v0 ^ v1 ^ v2 ^ v3
}

func init() {
	// published test vector (Aumasson/Bernstein, appendix A): key 00..0f, msg 00..0e
	key := make([]byte, 16)
	for i := range key {
		key[i] = byte(i)
	}
	msg := make([]byte, 15)
	for i := range msg {
		msg[i] = byte(i)
	}
	if SipHash24(key, msg) != 0xa129ca6149be45e5 {
		panic("ref: SipHash-2-4 self-test failed")
	}
	// RFC 5869 test case 1
	ikm := make([]byte, 22)
	for i := range ikm {
		ikm[i] = 0x0b
	}
	salt := []byte{0, 1, 2, 3, 4, 5, 6, 7, 8, 9, 10, 11, 12}
	info := []byte{0xf0, 0xf1, 0xf2, 0xf3, 0xf4, 0xf5, 0xf6, 0xf7, 0xf8, 0xf9}
	okm := HKDF(ikm, salt, info, 42)
	if okm[0] != 0x3c || okm[1] != 0xb2 || okm[41] != 0x65 {
		panic("ref: HKDF self-test failed")
	}
}

// ---- HashDrbg: SipHash-2-4 in OFB mode, as deployed ------------------------------
//
// The deployed generator feeds the previous output into a *running* hash
// that is never reset: block n = SipHash(key, ofb_0 | ofb_1 | ... | ofb_{n-1})
// where ofb_0 is the IV and ofb_i the i-th output.

// Drbg is the reference generator.
type Drbg struct {
	key []byte
	msg []byte
	ofb [8]byte
}

// NewDrbg creates the generator from a 24-byte seed (16-byte key | 8-byte IV).
func NewDrbg(seed []byte) *Drbg {
	d := &Drbg{key: append([]byte{}, seed[:16]...)}
	copy(d.ofb[:], seed[16:24])
	return d
}

// NextBlock returns the next 8 bytes.
func (d *Drbg) NextBlock() []byte {
	d.msg = append(d.msg, d.ofb[:]...)
	h := SipHash24(d.key, d.msg)
	// hash.Hash64.Sum appends the value big-endian
	binary.LittleEndian.PutUint64(d.ofb[:], h) // the deployed SipHash library serialises its 64-bit digest little-endian
	return append([]byte{}, d.ofb[:]...)
}

// Int63 implements math/rand.Source.
func (d *Drbg) Int63() int64 {
	return int64(binary.BigEndian.Uint64(d.NextBlock()) & (1<<63 - 1))
}

// Seed implements math/rand.Source.
func (d *Drbg) Seed(int64) {}

// ---- HKDF-SHA256 by hand ---------------------------------------------------------

func hm(key []byte, parts ...[]byte) []byte {
	h := hmac.New(sha256.New, key)
	for _, p := range parts {
		h.Write(p)
	}
	return h.Sum(nil)
}

// HKDF is RFC 5869 with SHA-256.
func HKDF(ikm, salt, info []byte, n int) []byte {
	prk := hm(salt, ikm)
	var out, t []byte
	for i := byte(1); len(out) < n; i++ {
		t = hm(prk, t, info, []byte{i})
		out = append(out, t...)
	}
	return out[:n]
}

// ---- weighted distribution tables (reference of probdist) -------------------------

// Dist is the reference table set.
type Dist struct {
	Min, Max int
	Values   []int // offsets from Min
	Weights  []float64
	Alias    []int
	Prob     []float64
}

// NewDist generates the tables exactly as the deployed generator does: a
// permutation of the value range, a table size in 1..100, weights (uniform or
// ScrambleSuit-style biased) and Vose alias tables.
func NewDist(seed []byte, min, max int, biased bool) *Dist {
	rng := rand.New(NewDrbg(seed))
	d := &Dist{Min: min, Max: max}
	n := (max + 1) - min
	values := rng.Perm(n)
	if n < 1 {
		n = 1
	}
	if n > 100 {
		n = 100
	}
	n = rng.Intn(n) + 1
	d.Values = values[:n]
	d.Weights = make([]float64, n)
	if biased {
		cum := 0.0
		for i := range d.Weights {
			p := (1.0 - cum) * rng.Float64()
			d.Weights[i] = p
			cum += p
		}
	} else {
		for i := range d.Weights {
			d.Weights[i] = rng.Float64()
		}
	}
	// Vose's alias method with FIFO work lists
	var sum float64
	for _, w := range d.Weights {
		sum += w
	}
	alias := make([]int, n)
	prob := make([]float64, n)
	scaled := make([]float64, n)
	var small, large []int
	for i, w := range d.Weights {
		scaled[i] = w * float64(n) / sum
		if scaled[i] < 1.0 {
			small = append(small, i)
		} else {
			large = append(large, i)
		}
	}
	for len(small) > 0 && len(large) > 0 {
		l, g := small[0], large[0]
		small, large = small[1:], large[1:]
		prob[l] = scaled[l]
		alias[l] = g
		scaled[g] = (scaled[g] + scaled[l]) - 1.0
		if scaled[g] < 1.0 {
			small = append(small, g)
		} else {
			large = append(large, g)
		}
	}
	for _, g := range large {
		prob[g] = 1.0
	}
	for _, l := range small {
		prob[l] = 1.0
	}
	d.Alias, d.Prob = alias, prob
	return d
}

// Contains reports whether v (absolute) is a table value.
func (d *Dist) Contains(v int) bool {
	for _, x := range d.Values {
		if d.Min+x == v {
			return true
		}
	}
	return false
}

// Abs returns the absolute table values.
func (d *Dist) Abs() []int {
	out := make([]int, len(d.Values))
	for i, x := range d.Values {
		out[i] = d.Min + x
	}
	return out
}

// CloseDelay is the bridge-specific extra delay in seconds: the first Intn(60)
// of a math/rand generator over the DRBG seeded with the bridge seed.
func CloseDelay(seed []byte) int {
	return rand.New(NewDrbg(seed)).Intn(60)
}

// ---- field helpers -------------------------------------------------------------

// P is 2^255-19.
var P = new(big.Int).Sub(new(big.Int).Lsh(big.NewInt(1), 255), big.NewInt(19))

var bigA = big.NewInt(486662)

func fmod(x *big.Int) *big.Int { return x.Mod(x, P) }

func fadd(a, b *big.Int) *big.Int { return fmod(new(big.Int).Add(a, b)) }
func fsub(a, b *big.Int) *big.Int { return fmod(new(big.Int).Sub(a, b)) }
func fmul(a, b *big.Int) *big.Int { return fmod(new(big.Int).Mul(a, b)) }
func fneg(a *big.Int) *big.Int    { return fmod(new(big.Int).Neg(a)) }
func finv(a *big.Int) *big.Int    { return new(big.Int).ModInverse(a, P) }

// legendre returns 1, -1 or 0.
func legendre(a *big.Int) int {
	e := new(big.Int).Rsh(new(big.Int).Sub(P, big.NewInt(1)), 1)
	r := new(big.Int).Exp(new(big.Int).Mod(a, P), e, P)
	switch {
	case r.Sign() == 0:
		return 0
	case r.Cmp(big.NewInt(1)) == 0:
		return 1
	}
	return -1
}

// fsqrt returns a square root of a (a must be a square).
func fsqrt(a *big.Int) *big.Int {
	return new(big.Int).ModSqrt(new(big.Int).Mod(a, P), P)
}

// LE decodes 32 little-endian bytes.
func LE(b []byte) *big.Int {
	r := make([]byte, len(b))
	for i := range b {
		r[len(b)-1-i] = b[i]
	}
	return new(big.Int).SetBytes(r)
}

// ToLE encodes x mod 2^256 as 32 little-endian bytes.
func ToLE(x *big.Int) []byte {
	be := x.Bytes()
	out := make([]byte, 32)
	for i := 0; i < len(be) && i < 32; i++ {
		out[i] = be[len(be)-1-i]
	}
	return out
}

// HMAC256 is HMAC-SHA256(key, msg).
func HMAC256(key, msg []byte) []byte { return hm(key, msg) }
