//go:build verif

package sched

import (
	"fmt"
	"reflect"
	"strings"
	"unsafe"
)

// chanModel is the model of one Go channel, keyed by the identity of the real
// channel value (which is never used for communication while a scheduler is
// active).
type chanModel struct {
	seq    int
	key    unsafe.Pointer
	cap    int
	buf    []any
	closed bool
	name   string
}

const (
	dirRecv = iota
	dirSend
)

type waitCase struct {
	dir int
	ch  *chanModel // nil = nil channel (never ready)
	val any
}

func (s *Sched) model(ch any) *chanModel {
	v := reflect.ValueOf(ch)
	if v.Kind() != reflect.Chan {
		panic(fmt.Sprintf("sched: not a channel: %T", ch))
	}
	if v.IsNil() {
		return nil
	}
	k := v.UnsafePointer()
	m := s.chans[k]
	if m == nil {
		m = &chanModel{seq: len(s.chans), key: k, cap: v.Cap(), name: fmt.Sprintf("ch%d<%s>", len(s.chans), v.Type().Elem())}
		s.chans[k] = m
	}
	return m
}

func (s *Sched) chanKey() string {
	ms := make([]*chanModel, len(s.chans))
	for _, m := range s.chans {
		ms[m.seq] = m
	}
	var sb strings.Builder
	for _, m := range ms {
		fmt.Fprintf(&sb, "%s:%v%v;", m.name, m.closed, m.buf)
	}
	return sb.String()
}

// partner returns the earliest-arrived other thread with a pending,
// not-yet-completed case of direction dir on m, and the case index.
func (s *Sched) partner(self *Thread, m *chanModel, dir int) (*Thread, int) {
	var best *Thread
	bi := -1
	for _, u := range s.threads {
		if u == self || u.exited || u.fired >= 0 || u.cases == nil {
			continue
		}
		for i, c := range u.cases {
			if c.ch == m && c.dir == dir {
				if best == nil || u.arrival < best.arrival {
					best, bi = u, i
				}
				break
			}
		}
	}
	return best, bi
}

func (s *Sched) caseReady(self *Thread, c waitCase) bool {
	m := c.ch
	if m == nil {
		return false
	}
	if c.dir == dirRecv {
		if len(m.buf) > 0 || m.closed {
			return true
		}
		if m.cap == 0 {
			p, _ := s.partner(self, m, dirSend)
			return p != nil
		}
		return false
	}
	if m.closed || len(m.buf) < m.cap {
		return true
	}
	if m.cap == 0 {
		p, _ := s.partner(self, m, dirRecv)
		return p != nil
	}
	return false
}

type sendOnClosed struct{}

// doCase performs a ready case for the running thread.
func (s *Sched) doCase(t *Thread, c waitCase) (v any, ok bool) {
	m := c.ch
	if c.dir == dirRecv {
		if len(m.buf) > 0 {
			v = m.buf[0]
			m.buf = m.buf[1:]
			return v, true
		}
		if m.cap == 0 {
			if p, pi := s.partner(t, m, dirSend); p != nil {
				v = p.cases[pi].val
				p.fired = pi
				return v, true
			}
		}
		if m.closed {
			return nil, false
		}
		panic("sched: recv case not ready")
	}
	if m.closed {
		panic(sendOnClosed{})
	}
	if m.cap == 0 {
		p, pi := s.partner(t, m, dirRecv)
		if p == nil {
			panic("sched: send case not ready")
		}
		p.rv, p.rok = c.val, true
		p.fired = pi
		return nil, true
	}
	m.buf = append(m.buf, c.val)
	return nil, true
}

// selectOp is the common implementation of send, receive and select.
// It returns the index of the case that fired (-1 = default).
func (s *Sched) selectOp(cases []waitCase, hasDefault bool, desc string) (idx int, v any, ok bool) {
	t := s.cur
	s.arrival++
	t.arrival = s.arrival
	t.cases = cases
	t.fired = -1
	defer func() { t.cases = nil; t.fired = -1; t.rv = nil }()
	ready := func() []int {
		var r []int
		for i, c := range cases {
			if s.caseReady(t, c) {
				r = append(r, i)
			}
		}
		return r
	}
	s.Point(desc, func() bool {
		return hasDefault || t.fired >= 0 || len(ready()) > 0
	})
	if t.fired >= 0 {
		// completed by the partner of a rendezvous
		i := t.fired
		if cases[i].dir == dirRecv {
			return i, t.rv, t.rok
		}
		return i, nil, true
	}
	r := ready()
	if len(r) == 0 {
		if !hasDefault {
			panic("sched: scheduled without a ready case")
		}
		return -1, nil, false
	}
	pick := 0
	if len(r) > 1 {
		if s.opt.SelectFree {
			pick = s.C.ChooseFree("select", len(r))
		} else {
			pick = s.C.Choose("select", len(r))
		}
	}
	i := r[pick]
	// make sure a partner does not complete us while we complete it
	t.cases = nil
	v, ok = s.doCase(t, cases[i])
	return i, v, ok
}

func zero[T any]() T { var z T; return z }

func chanName(m *chanModel) string {
	if m == nil {
		return "nil-chan"
	}
	return m.name
}

// Sender is returned by S.
type Sender[T any] struct{ ch chan<- T }

// S wraps the channel of a send statement: `ch <- v` becomes S(ch).Send(v).
func S[T any](ch chan<- T) Sender[T] { return Sender[T]{ch} }

// Send is a channel send.
func (x Sender[T]) Send(v T) {
	s := Cur()
	if s == nil {
		if Aborting() {
			return
		}
		x.ch <- v
		return
	}
	m := s.model(x.ch)
	defer func() {
		if r := recover(); r != nil {
			if _, is := r.(sendOnClosed); is {
				// reproduce the runtime panic so that recover() in the code
				// under test behaves as in production
				panic(fmt.Errorf("send on closed channel"))
			}
			panic(r)
		}
	}()
	s.selectOp([]waitCase{{dirSend, m, v}}, false, "send "+chanName(m))
}

// Receiver is returned by R.
type Receiver[T any] struct{ ch <-chan T }

// R wraps the channel of a receive expression: `<-ch` becomes R(ch).Recv().
func R[T any](ch <-chan T) Receiver[T] { return Receiver[T]{ch} }

// Recv is `<-ch`.
func (x Receiver[T]) Recv() T {
	v, _ := x.Recv2()
	return v
}

// Recv2 is `v, ok := <-ch`.
func (x Receiver[T]) Recv2() (T, bool) {
	s := Cur()
	if s == nil {
		if Aborting() {
			return zero[T](), false
		}
		v, ok := <-x.ch
		return v, ok
	}
	m := s.model(x.ch)
	_, v, ok := s.selectOp([]waitCase{{dirRecv, m, nil}}, false, "recv "+chanName(m))
	if !ok || v == nil {
		return zero[T](), ok
	}
	return v.(T), ok
}

// Len is len(ch).
func Len[T any](ch chan T) int {
	s := Cur()
	if s == nil {
		return len(ch)
	}
	m := s.model(ch)
	if m == nil {
		return 0
	}
	return len(m.buf)
}

// Close is close(ch).
func Close[T any](ch chan<- T) {
	s := Cur()
	if s == nil {
		if Aborting() {
			return
		}
		close(ch)
		return
	}
	m := s.model(ch)
	s.Point("close "+chanName(m), nil)
	if m == nil {
		panic(fmt.Errorf("close of nil channel"))
	}
	if m.closed {
		panic(fmt.Errorf("close of closed channel"))
	}
	m.closed = true
}

// ---- select ---------------------------------------------------------------

// Case is one communication clause of a select statement.
type Case struct {
	dir  int
	ch   any
	val  any
	rch  reflect.Value
	rval reflect.Value
}

// RecvCase builds a receive clause.
func RecvCase[T any](ch <-chan T) Case {
	return Case{dir: dirRecv, ch: ch, rch: reflect.ValueOf(ch)}
}

// SendCase builds a send clause.
func (x Sender[T]) Case(v T) Case {
	return Case{dir: dirSend, ch: x.ch, val: v, rch: reflect.ValueOf(x.ch), rval: reflect.ValueOf(v)}
}

// Sel is the outcome of a select.
type Sel struct {
	Index int // -1 = default
	v     any
	ok    bool
}

// Select is the rewrite target of a select statement.
func Select(hasDefault bool, cases ...Case) Sel {
	s := Cur()
	if s == nil {
		if Aborting() {
			return Sel{Index: -1}
		}
		// free-running: use the real channels
		rc := make([]reflect.SelectCase, 0, len(cases)+1)
		for _, c := range cases {
			if c.dir == dirRecv {
				rc = append(rc, reflect.SelectCase{Dir: reflect.SelectRecv, Chan: c.rch})
			} else {
				rc = append(rc, reflect.SelectCase{Dir: reflect.SelectSend, Chan: c.rch, Send: c.rval})
			}
		}
		if hasDefault {
			rc = append(rc, reflect.SelectCase{Dir: reflect.SelectDefault})
		}
		i, v, ok := reflect.Select(rc)
		if hasDefault && i == len(cases) {
			return Sel{Index: -1}
		}
		var val any
		if cases[i].dir == dirRecv && ok {
			val = v.Interface()
		}
		return Sel{Index: i, v: val, ok: ok}
	}
	wc := make([]waitCase, len(cases))
	desc := "select"
	for i, c := range cases {
		m := s.model(c.ch)
		wc[i] = waitCase{c.dir, m, c.val}
		if c.dir == dirRecv {
			desc += " <-" + chanName(m)
		} else {
			desc += " " + chanName(m) + "<-"
		}
	}
	defer func() {
		if r := recover(); r != nil {
			if _, is := r.(sendOnClosed); is {
				panic(fmt.Errorf("send on closed channel"))
			}
			panic(r)
		}
	}()
	i, v, ok := s.selectOp(wc, hasDefault, desc)
	return Sel{Index: i, v: v, ok: ok}
}

// Got extracts the received value of a fired receive clause.
func Got[T any](ch <-chan T, r Sel) T {
	if r.v == nil {
		return zero[T]()
	}
	return r.v.(T)
}

// Got2 extracts value and ok of a fired receive clause.
func Got2[T any](ch <-chan T, r Sel) (T, bool) {
	if r.v == nil {
		return zero[T](), r.ok
	}
	return r.v.(T), r.ok
}

// DeliverTimer is used by vtime: a non-blocking model send into a buffered
// timer channel when the model clock fires.
func (s *Sched) DeliverTimer(ch any, v any) {
	m := s.model(ch)
	if len(m.buf) < m.cap {
		m.buf = append(m.buf, v)
	}
}
