//go:build verif

// Package sched is the controlled cooperative scheduler: exactly one
// registered thread runs at a time; at every Point the running thread hands
// the decision "who runs next" to the explorer.  It also owns the model clock
// (timers fire as a pseudo-thread) and the channel model used by the
// instrumented sources.
//
// When no scheduler is active every shim falls through to the real
// primitive, so the same instrumented binary also runs free (race pass).
package sched

import (
	"fmt"
	"runtime"
	"runtime/debug"
	"sort"
	"strings"
	"time"
	"unsafe"

	"gitlab.com/yawning/obfs4.git/internal/zzverif/mc"
)

// Options configure one scheduled execution.
type Options struct {
	// FreeSwitch: when the running thread blocks or ends, choosing any
	// enabled successor is free (pure preemption bounding).  Otherwise the
	// lowest-id enabled thread is the default and the others cost one
	// deviation each (delay bounding).
	FreeSwitch bool
	// SelectFree: every ready select case is a free alternative (otherwise
	// non-first ready cases cost one deviation).
	SelectFree bool
	// Start is the initial model time.
	Start time.Time
	// MaxSteps bounds the number of scheduling points of one execution
	// (livelock detector).  0 = 200000.
	MaxSteps int
	// OnQuiescent is called (token held) when no thread is enabled and no
	// timer is armed but unfinished threads remain.  It may mutate the
	// environment and return true to continue; false ends the execution.
	OnQuiescent func(s *Sched) bool
	// NoPreempt: Points never offer a preemption (only blocking switches).
	NoPreempt bool
	// PreemptKinds, when non-nil, restricts preemption to points whose
	// description starts with one of these prefixes.
	PreemptKinds []string
	// NoEarlyTimers: timers fire only when no thread is enabled.
	NoEarlyTimers bool
	// StateKey, when set, must return a canonical description of all state
	// outside the scheduler (code-under-test objects, harness variables)
	// that determines future behaviour and the oracle.  Together with the
	// scheduler's own state it is used for visited-state pruning.
	StateKey func() string
	// TickOnNow: every read of the model clock may first advance it by one
	// nanosecond (explorer choice, one deviation): the clock is monotone
	// but it moves between any two reads.
	TickOnNow bool
	// MainMayBlock: by default an execution whose main thread (the body) never
	// finishes although nothing can run any more -- every thread is blocked for
	// good, no timer is armed -- is reported as a liveness failure of the code
	// under test (<property>/stuck/<scenario family>), unless the body has
	// already reported something.  Scenarios whose main thread is *meant* to
	// stay parked (a monitor waiting for events that the script never sends, a
	// reader on a connection whose peer stays silent) set this and judge the
	// blocked threads themselves.
	MainMayBlock bool
	// KeySteps adds every thread's own step count to the state key (a
	// program-counter proxy for straight-line thread bodies whose position
	// the harness key does not already determine).
	KeySteps bool
}

// Thread is one scheduled goroutine.
type Thread struct {
	ID      int
	yielded bool // gave the processor away (Gosched) and has not run since
	Name    string
	wake    chan struct{}
	exitCh  chan struct{}
	started bool
	exited  bool
	enabled func() bool
	desc    string
	// channel operation state
	cases   []waitCase
	fired   int
	rv      any
	rok     bool
	arrival int
	// outcome
	PanicVal   any
	PanicStack string
	Steps      int
}

func (t *Thread) String() string { return fmt.Sprintf("T%d(%s)", t.ID, t.Name) }

// Blocked describes where an unfinished thread is parked.
type Blocked struct {
	Thread string
	At     string
}

// Result is what Run returns.
type Result struct {
	Quiescent bool      // ended because nothing was enabled while threads remained
	Livelock  bool      // step budget exceeded
	Blocked   []Blocked // unfinished threads at the end
	Panics    []string  // thread panics that were not recovered by the code under test
	MainStuck bool      // the body never finished and this was reported as a failure (see Options.MainMayBlock)
	Steps     int
	End       time.Time // model time at the end
}

type timer struct {
	at   time.Time
	seq  int
	fire func()
	dead bool
	what string
}

// Sched is one scheduled execution.
type Sched struct {
	C        *mc.Ctx
	opt      Options
	threads  []*Thread
	cur      *Thread
	aborting bool
	now      time.Time
	timers   []*timer
	tseq     int
	chans    map[unsafe.Pointer]*chanModel
	mainDone chan struct{}
	res      Result
	arrival  int
	ended    bool
}

var global *Sched

// Cur returns the active scheduler or nil.
func Cur() *Sched {
	s := global
	if s == nil || s.aborting {
		return nil
	}
	return s
}

// Active reports whether a scheduler owns the calling code.
func Active() bool { return Cur() != nil }

// Aborting reports whether an execution is being torn down; shims then
// return immediately.
func Aborting() bool { s := global; return s != nil && s.aborting }

// Run executes body as thread 0 under a fresh scheduler and returns when all
// threads finished or the execution was ended (quiescence, livelock).
func Run(c *mc.Ctx, opt Options, body func()) *Result {
	if global != nil {
		panic("sched.Run: nested")
	}
	mc.KeepAlive()
	if opt.Start.IsZero() {
		opt.Start = time.Unix(1_700_000_000, 0)
	}
	if opt.MaxSteps == 0 {
		opt.MaxSteps = 200000
	}
	s := &Sched{C: c, opt: opt, now: opt.Start, chans: map[unsafe.Pointer]*chanModel{}, mainDone: make(chan struct{}, 1)}
	global = s
	t0 := s.newThread("main", body)
	s.cur = t0
	t0.wake <- struct{}{}
	<-s.mainDone
	mainStuck, mainAt := !t0.exited, t0.desc
	// teardown: unwind every parked thread, one at a time
	s.aborting = true
	for i := 0; i < len(s.threads); i++ { // threads may not grow while aborting
		t := s.threads[i]
		if !t.exited {
			s.res.Blocked = append(s.res.Blocked, Blocked{t.String(), t.desc})
			t.wake <- struct{}{}
		}
		<-t.exitCh
	}
	s.res.End = s.now
	global = nil
	if mainStuck && !opt.MainMayBlock && len(s.res.Panics) == 0 && !s.res.Livelock && !c.Failed() {
		s.res.MainStuck = true
		c.Fail("liveness", c.Property()+"/stuck/"+c.ScenarioFamily(), "the scenario's main thread never finished: nothing can run any more (main parked at %q; unfinished threads: %+v)", mainAt, s.res.Blocked)
	}
	return &s.res
}

func (s *Sched) newThread(name string, f func()) *Thread {
	t := &Thread{ID: len(s.threads), Name: name, wake: make(chan struct{}, 1), exitCh: make(chan struct{}), fired: -1}
	s.threads = append(s.threads, t)
	go func() {
		defer close(t.exitCh)
		<-t.wake
		if s.aborting {
			t.exited = true
			return
		}
		t.started = true
		defer func() {
			r := recover()
			if s.aborting {
				t.exited = true
				return
			}
			if r != nil {
				t.PanicVal = r
				t.PanicStack = string(debug.Stack())
				s.res.Panics = append(s.res.Panics, fmt.Sprintf("%v in %v\n%s", r, t, trimStack(t.PanicStack)))
			}
			s.threadExit(t)
		}()
		f()
	}()
	return t
}

func trimStack(st string) string {
	l := strings.Split(st, "\n")
	var out []string
	for i := 0; i < len(l); i++ {
		if strings.Contains(l[i], "zzverif/sched") || strings.Contains(l[i], "runtime/") || strings.Contains(l[i], "panic(") {
			if i+1 < len(l) && strings.HasPrefix(l[i+1], "\t") {
				i++
			}
			continue
		}
		out = append(out, l[i])
		if len(out) > 24 {
			break
		}
	}
	return strings.Join(out, "\n")
}

// Go spawns a scheduled thread (the rewrite target of the go statement).
func Go(f func()) { GoNamed("go", f) }

// GoNamed spawns a scheduled thread with a name.
func GoNamed(name string, f func()) {
	s := Cur()
	if s == nil {
		if Aborting() {
			return
		}
		go f()
		return
	}
	s.newThread(name, f)
	s.Point("spawn "+name, nil)
}

// Spawn creates a thread without a scheduling point (harness set-up).
func (s *Sched) Spawn(name string, f func()) *Thread { return s.newThread(name, f) }

// Now returns the model time.
func (s *Sched) Now() time.Time { return s.now }

// ReadClock is what instrumented code gets from time.Now(): with TickOnNow
// the clock may move by 1ns just before it is read.
func (s *Sched) ReadClock() time.Time {
	if s.opt.TickOnNow && s.C.Choose("clock-tick", 2) == 1 {
		s.now = s.now.Add(time.Nanosecond)
	}
	return s.now
}

// Threads returns all threads.
func (s *Sched) Threads() []*Thread { return s.threads }

// Current returns the running thread.
func (s *Sched) Current() *Thread { return s.cur }

func (t *Thread) isEnabled() bool {
	if t.exited {
		return false
	}
	if !t.started {
		return true
	}
	if t.enabled == nil {
		return true
	}
	return t.enabled()
}

// Point is a scheduling point: the operation the caller is about to perform
// is enabled when enabled() is true (nil = always).  Point returns when the
// caller has been scheduled with its operation enabled; the caller then
// performs it atomically (it keeps the token until its next Point).
func (s *Sched) Point(desc string, enabled func() bool) {
	t := s.cur
	t.desc = desc
	t.enabled = enabled
	t.Steps++
	s.res.Steps++
	if s.res.Steps > s.opt.MaxSteps {
		s.res.Livelock = true
		s.end()
		s.park(t)
		return
	}
	s.schedule(t, true)
	t.enabled = nil
}

func (s *Sched) end() {
	if !s.ended {
		s.ended = true
		s.mainDone <- struct{}{}
	}
}

func (s *Sched) park(t *Thread) {
	<-t.wake
	if s.aborting {
		runtime.Goexit()
	}
}

func (s *Sched) preemptible(desc string) bool {
	if s.opt.NoPreempt {
		return false
	}
	if s.opt.PreemptKinds == nil {
		return true
	}
	for _, p := range s.opt.PreemptKinds {
		if strings.HasPrefix(desc, p) {
			return true
		}
	}
	return false
}

// schedule decides who runs next.  t is the deciding thread (the current
// one, or an exiting one when alive==false).
func (s *Sched) schedule(t *Thread, alive bool) {
	for {
		var en []*Thread
		curEnabled := alive && t.isEnabled()
		// runtime.Gosched(): the thread gives the processor away.  By default the
		// next enabled thread (round robin from the yielding one) runs, at no
		// cost; staying, or picking another one, is a deviation.  Without this a
		// loop that never blocks but yields (a poller) starves every other
		// thread under the "keep running the current thread" default, which the
		// Go scheduler does not do.
		yield := curEnabled && t.desc == "yield"
		if curEnabled && !yield {
			en = append(en, t)
		}
		if !curEnabled || yield || s.preemptible(t.desc) {
			if yield {
				for k := 1; k < len(s.threads); k++ {
					u := s.threads[(t.ID+k)%len(s.threads)]
					if u != t && u.isEnabled() {
						en = append(en, u)
					}
				}
			} else {
				// ascending ids, but a thread that gave the processor away and
				// has not run since comes after those that did not (otherwise a
				// yielding poller with a low id starves the threads behind it as
				// soon as the one it yielded to blocks again)
				for _, u := range s.threads {
					if u != t && u.isEnabled() && !u.yielded {
						en = append(en, u)
					}
				}
				for _, u := range s.threads {
					if u != t && u.isEnabled() && u.yielded {
						en = append(en, u)
					}
				}
			}
		}
		if yield {
			en = append(en, t)
		}
		s.pruneTimers()
		clock := len(s.timers) > 0 && (!s.opt.NoEarlyTimers || len(en) == 0) && (!curEnabled || s.preemptible(t.desc)) && !yield
		n := len(en)
		if clock {
			n++
		}
		if n == 0 {
			if len(s.timers) > 0 {
				// only reachable with curEnabled && !preemptible: cannot happen (en has t)
				panic("sched: unreachable")
			}
			// quiescent
			allDone := true
			for _, u := range s.threads {
				if !u.exited {
					allDone = false
				}
			}
			if allDone {
				s.end()
				return
			}
			if s.opt.OnQuiescent != nil && s.opt.OnQuiescent(s) {
				continue
			}
			s.res.Quiescent = true
			s.end()
			if alive {
				s.park(t)
			}
			return
		}
		choice := 0
		if n > 1 {
			costs := make([]int, n)
			for i := 1; i < n; i++ {
				switch {
				case curEnabled:
					costs[i] = 1
				case clock && i == n-1:
					costs[i] = 1
				case s.opt.FreeSwitch:
					costs[i] = 0
				default:
					costs[i] = 1
				}
			}
			if s.opt.StateKey != nil {
				s.C.Prune(s.stateKey(t, alive))
			}
			choice = s.C.ChooseCost("sched", costs)
			if s.C.Logging() {
				var names []string
				for _, u := range en {
					names = append(names, fmt.Sprintf("%v@%s", u, u.desc))
				}
				if clock {
					names = append(names, "clock")
				}
				s.C.Logf("  sched: %v -> %d", names, choice)
			}
		}
		if clock && choice == n-1 {
			s.fireNext()
			continue
		}
		next := en[choice]
		if next == t {
			return
		}
		if yield {
			t.yielded = true
		}
		next.yielded = false
		s.cur = next
		next.wake <- struct{}{}
		if alive {
			s.park(t)
		}
		return
	}
}

// stateKey is the scheduler's part of the global state: who decides, where
// every thread is parked (description + number of its own steps, a program
// counter proxy for deterministic thread bodies), pending rendezvous results,
// channel contents and armed timers.
func (s *Sched) stateKey(t *Thread, alive bool) string {
	var sb strings.Builder
	fmt.Fprintf(&sb, "cur=%d/%v|", t.ID, alive)
	for _, u := range s.threads {
		steps := 0
		if s.opt.KeySteps {
			steps = u.Steps
		}
		fmt.Fprintf(&sb, "T%d:%v,%v,%s,%d,%d,%v,%v;", u.ID, u.started, u.exited, u.desc, steps, u.fired, u.rv, u.yielded)
	}
	// FIFO order of pending channel operations decides rendezvous partners
	pend := []*Thread{}
	for _, u := range s.threads {
		if !u.exited && u.cases != nil && u.fired < 0 {
			pend = append(pend, u)
		}
	}
	sort.Slice(pend, func(i, j int) bool { return pend[i].arrival < pend[j].arrival })
	for _, u := range pend {
		fmt.Fprintf(&sb, "p%d,", u.ID)
	}
	sb.WriteString(s.chanKey())
	for _, tm := range s.timers {
		if !tm.dead {
			fmt.Fprintf(&sb, "tm+%d;", tm.at.Sub(s.now))
		}
	}
	sb.WriteString("|")
	sb.WriteString(s.opt.StateKey())
	return sb.String()
}

func (s *Sched) threadExit(t *Thread) {
	t.exited = true
	t.desc = "exited"
	s.schedule(t, false)
}

// ---- model clock -----------------------------------------------------------

func (s *Sched) pruneTimers() {
	k := 0
	for _, tm := range s.timers {
		if !tm.dead {
			s.timers[k] = tm
			k++
		}
	}
	s.timers = s.timers[:k]
}

// AddTimer arms a timer on the model clock.
func (s *Sched) AddTimer(at time.Time, what string, fire func()) *timer {
	s.tseq++
	tm := &timer{at: at, seq: s.tseq, fire: fire, what: what}
	s.timers = append(s.timers, tm)
	sort.SliceStable(s.timers, func(i, j int) bool {
		if !s.timers[i].at.Equal(s.timers[j].at) {
			return s.timers[i].at.Before(s.timers[j].at)
		}
		return s.timers[i].seq < s.timers[j].seq
	})
	return tm
}

// Cancel disarms a timer.
func (tm *timer) Cancel() {
	if tm != nil {
		tm.dead = true
	}
}

func (s *Sched) fireNext() {
	tm := s.timers[0]
	s.timers = s.timers[1:]
	if tm.at.After(s.now) {
		s.now = tm.at
	}
	if s.C.Logging() {
		s.C.Logf("  clock: fire %s at +%v", tm.what, s.now.Sub(s.opt.Start))
	}
	if tm.fire != nil {
		tm.fire()
	}
}

// PendingTimers returns the number of armed timers.
func (s *Sched) PendingTimers() int { s.pruneTimers(); return len(s.timers) }

// Advance moves the model clock forward by d, firing every timer that falls
// due, without running any thread in between (harness/OnQuiescent use).
func (s *Sched) Advance(d time.Duration) {
	target := s.now.Add(d)
	for {
		s.pruneTimers()
		if len(s.timers) == 0 || s.timers[0].at.After(target) {
			break
		}
		s.fireNext()
	}
	s.now = target
}

// Sleep blocks the calling thread for d of model time.
func Sleep(d time.Duration) {
	s := Cur()
	if s == nil {
		if !Aborting() {
			time.Sleep(d)
		}
		return
	}
	if d <= 0 {
		s.Point("sleep0", nil)
		return
	}
	done := false
	s.AddTimer(s.now.Add(d), fmt.Sprintf("sleep(%v) of %v", d, s.cur), func() { done = true })
	s.Point(fmt.Sprintf("sleep %v", d), func() bool { return done })
}

// Yield is the rewrite target of runtime.Gosched.
func Yield() {
	s := Cur()
	if s == nil {
		if !Aborting() {
			runtime.Gosched()
		}
		return
	}
	s.Point("yield", nil)
}

// StmtPoint is inserted before statements of functions instrumented at
// statement granularity.
func StmtPoint(where string) {
	s := Cur()
	if s == nil {
		return
	}
	s.Point("stmt "+where, nil)
}
